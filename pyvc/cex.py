"""pyvc.cex -- turning the solver's counter-model of a failed obligation into concrete Python inputs.

extract(model, terms) -> {symbol name: JSON-able value} for every uninterpreted constant of the obligation, and the finite
graphs of the uninterpreted functions the model interprets (user callables, cast, ...).  Rows come out as dicts: the pair
(<hint>.dom!n, <hint>.val!n) is merged into '<hint>!n'.  What cannot be represented exactly is marked, never guessed:
  {'obj': id}          an abstract object (Cell.obj)
  {'real': 'p/q'}      a rational that is not a float
  {'array-default': v} the default of an array model whose domain is not finite
The native side (harness/native.py --cex) hands this dict to the replayer of the contract item, which builds the call of the
REAL function from it and evaluates the contract clause in CPython.
"""
import fractions
import re
import z3

from .values import Cell, DomS, ValS, StrS


def _consts_and_funcs(terms):
    consts, funcs, seen = {}, {}, set()
    stack = [t for t in terms if z3.is_expr(t)]
    while stack:
        t = stack.pop()
        if t.get_id() in seen:
            continue
        seen.add(t.get_id())
        if z3.is_quantifier(t):
            stack.append(t.body())
            continue
        if z3.is_app(t):
            d = t.decl()
            if d.kind() == z3.Z3_OP_UNINTERPRETED:
                if d.arity() == 0:
                    consts[d.name()] = t
                else:
                    funcs[d.name()] = d
            stack.extend(t.children())
    return consts, funcs


def _unescape(s):
    # z3 prints non-ASCII / control characters as \u{hex}
    return re.sub(r'\\u\{([0-9a-fA-F]+)\}', lambda m: chr(int(m.group(1), 16)), s)


def value(model, t, depth=0):
    """python value of term t under the model (model completion on)"""
    v = model.eval(t, model_completion=True)
    s = v.sort()
    try:
        if s.eq(z3.BoolSort()):
            return z3.is_true(v)
        if s.eq(z3.IntSort()):
            return v.as_long()
        if s.eq(z3.RealSort()):
            fr = fractions.Fraction(v.numerator_as_long(), v.denominator_as_long())
            return float(fr) if fractions.Fraction(float(fr)) == fr else {'real': str(fr)}
        if s.eq(StrS):
            return _unescape(v.as_string())
        if s.kind() == z3.Z3_FLOATING_POINT_SORT:
            if z3.is_fp(v) and v.isNaN():
                return float('nan')
            if v.isInf():
                return float('-inf') if v.isNegative() else float('inf')
            sv = model.eval(z3.fpToReal(v), model_completion=True)
            f = float(fractions.Fraction(sv.numerator_as_long(), sv.denominator_as_long()))
            if f == 0.0 and v.isNegative():
                return -0.0
            return f
        if s.kind() == z3.Z3_BV_SORT:
            return v.as_long()
        if s.eq(Cell):
            return cell(model, v, depth)
        if s.kind() == z3.Z3_ARRAY_SORT:
            return array(model, v, depth)
        if s.kind() == z3.Z3_SEQ_SORT:
            return seq(model, v, depth)
    except Exception as e:           # representation problem: keep the solver's text
        return {'z3': str(v)[:200]}
    return {'z3': str(v)[:200]}


def cell(model, v, depth=0):
    v = model.eval(v, model_completion=True)
    if not z3.is_app(v):
        return {'z3': str(v)[:200]}
    name = v.decl().name()
    if name == 'none':
        return None
    if name in ('bool', 'int', 'str', 'real'):
        return value(model, v.arg(0), depth + 1)
    if name == 'obj':
        return {'obj': value(model, v.arg(0), depth + 1)}
    return {'z3': str(v)[:200]}


def seq(model, v, depth=0):
    v = z3.simplify(model.eval(v, model_completion=True))
    out = []

    def walk(t):
        if z3.is_app(t):
            k = t.decl().kind()
            if k == z3.Z3_OP_SEQ_CONCAT:
                for c in t.children():
                    walk(c)
                return
            if k == z3.Z3_OP_SEQ_UNIT:
                out.append(value(model, t.arg(0), depth + 1))
                return
            if k == z3.Z3_OP_SEQ_EMPTY:
                return
        out.append({'z3': str(t)[:120]})
    walk(v)
    return out


def array(model, v, depth=0):
    """finite map of an array value: {'map': {key: value}, 'default': d}"""
    v = model.eval(v, model_completion=True)
    entries, default = {}, None
    t = v
    guard = 0
    while guard < 10000:
        guard += 1
        if z3.is_store(t):
            k = value(model, t.arg(1), depth + 1)
            if _hashable(k) not in entries:
                entries[_hashable(k)] = (k, value(model, t.arg(2), depth + 1))
            t = t.arg(0)
            continue
        if z3.is_const_array(t):
            default = value(model, t.arg(0), depth + 1)
            break
        if z3.is_as_array(t):
            fi = model[z3.get_as_array_func(t)]
            if fi is not None:
                for i in range(fi.num_entries()):
                    e = fi.entry(i)
                    k = value(model, e.arg_value(0), depth + 1)
                    if _hashable(k) not in entries:
                        entries[_hashable(k)] = (k, value(model, e.value(), depth + 1))
                default = value(model, fi.else_value(), depth + 1)
            break
        if z3.is_quantifier(t) and t.is_lambda():
            # a lambda array: evaluate it at every string / int literal that occurs in its body
            body = t.body()
            lits = _literals(body)
            for lit in lits:
                if lit.sort().eq(t.sort().domain()):
                    k = value(model, lit, depth + 1)
                    if _hashable(k) not in entries:
                        entries[_hashable(k)] = (k, value(model, z3.Select(t, lit), depth + 1))
            default = {'array-default': 'lambda'}
            break
        return {'z3': str(t)[:300]}
    return {'map': [[k, val] for k, val in entries.values()], 'default': default}


def _literals(t):
    out, seen, stack = [], set(), [t]
    while stack:
        x = stack.pop()
        if x.get_id() in seen:
            continue
        seen.add(x.get_id())
        if z3.is_string_value(x) or z3.is_int_value(x):
            out.append(x)
        if z3.is_app(x):
            stack.extend(x.children())
        elif z3.is_quantifier(x):
            stack.append(x.body())
    return out


def _hashable(k):
    return repr(k)


def row_of(dom, val):
    """merge the models of a row's domain and value arrays into a dict (keys the domain array maps to True)"""
    if not (isinstance(dom, dict) and 'map' in dom and isinstance(val, dict) and 'map' in val):
        return None
    d = {}
    vals = {repr(k): v for k, v in val['map']}
    vdef = val.get('default')
    keys = [k for k, b in dom['map'] if b is True]
    if dom.get('default') is True:
        # the domain's default is "present": the model constrains only the listed keys; use those the value array mentions too
        keys += [k for k, _ in val['map'] if [k, False] not in dom['map'] and k not in keys]
    for k in keys:
        if not isinstance(k, str):
            continue
        d[k] = vals.get(repr(k), vdef)
    return d


def extract(model, terms):
    """{name: value} for the symbols of the obligation; rows merged; finite graphs of uninterpreted functions"""
    if model is None:
        return None
    consts, funcs = _consts_and_funcs(terms)
    raw = {}
    for name, t in consts.items():
        raw[name] = value(model, t)
    out = {}
    for name, v in raw.items():
        m = re.fullmatch(r'(.*)\.dom!(\d+)', name)
        if m and ('%s.val!%s' % m.groups()) in raw:
            r = row_of(v, raw['%s.val!%s' % m.groups()])
            if r is not None:
                out['%s!%s' % m.groups()] = r
                continue
        m = re.fullmatch(r'(.*)\.val!(\d+)', name)
        if m and ('%s.dom!%s' % m.groups()) in raw and row_of(raw['%s.dom!%s' % m.groups()], v) is not None:
            continue
        out[name] = v
    graphs = {}
    for name, d in funcs.items():
        fi = model[d]
        if fi is None or isinstance(fi, z3.ExprRef):
            continue
        try:
            ents = []
            for i in range(fi.num_entries()):
                e = fi.entry(i)
                ents.append([[value(model, e.arg_value(j)) for j in range(e.num_args())], value(model, e.value())])
            graphs[name] = {'entries': ents[:50], 'else': value(model, fi.else_value())}
        except Exception:
            continue
    if graphs:
        out['__functions__'] = graphs
    return out
