"""pyvc.cli -- `./check <ID> [--tier quick|thorough] [--replay file]`

Exit codes: 0 property held on everything decided (undecided obligations survived the bounded stand-in);
            1 violation (line `VIOLATION property=<id> replay=<path>[ no-failing-input-found]`);
            3 checker crash (never a VIOLATION line).
"""
import argparse
import importlib
import json
import multiprocessing as mp
import os
import re
import subprocess
import sys
import time
import traceback

VERIF = os.path.dirname(os.path.dirname(os.path.abspath(__file__)))
OUT = os.environ.get('PYVC_OUT', VERIF)   # evidence/ and replay/ go here (scratch runs on mutants redirect it)
sys.path.insert(0, VERIF)
sys.setrecursionlimit(10000)


def run_item(args):
    """worker: run one contract item symbolically, solve its obligations, return plain data"""
    prop, idx, tier = args
    from pyvc import api, smt, loader
    mod = importlib.import_module('contracts.' + prop)
    item = mod.ITEMS[idx]
    vc = api.VC(prop)
    t0 = time.time()
    crashed = None
    try:
        item.symbolic(vc)
    except api.Unsupported as e:
        vc.undecided.append(api.Undecided(item.name, 'UNSUPPORTED (contract level): %s' % e))
    except (KeyError, AttributeError, IndexError) as e:
        # harness set-up code that names a module attribute / local / method the current source no longer has
        tb = traceback.extract_tb(e.__traceback__)[-1]
        vc.undecided.append(api.Undecided(item.name, 'UNSUPPORTED (contract level): CONTRACT-MAPPING %s: %s at %s:%d' % (
            type(e).__name__, e, os.path.basename(tb.filename), tb.lineno)))
    except Exception as e:
        crashed = traceback.format_exc()
    # a function counts as "under contract" only if some explored path executed its body: a declaration without an exercising
    # contract is an annotation, not a proof ("do not count annotated functions as proved ones")
    entered = getattr(vc, 'entered', set())
    if not crashed and entered:
        for key, rec in list(vc.functions.items()):
            rel, qual = key.split('::')
            l0, l1 = [int(x) for x in rec['lines'].split('-')]
            mods = {rel[:-3].replace('/', '.'), rel[:-len('/__init__.py')].replace('/', '.') if rel.endswith('/__init__.py') else None}
            hit = any(m in mods and ln is not None and l0 <= ln <= l1 for m, ln in entered)
            rec['exercised'] = bool(hit)
            if not hit:
                vc.undecided.append(api.Undecided(key, 'NOT-EXERCISED: declared under contract but no explored path executed its body'))
    # every function of the repository whose body some explored path executed symbolically (declared under contract or not):
    # reported separately from `functions_under_contract`, which lists only functions a contract item states obligations for
    executed = []
    try:
        import ast as _ast
        idx = {}
        for m, ln in entered:
            if not m or ln is None or not m.startswith('dataflows'):
                continue
            rel = loader.relpath_of_module(m)
            if rel is None:
                continue
            if rel not in idx:
                src, tree = loader.read_source(rel)
                tab = {}

                def walk(node, prefix):
                    for ch in _ast.iter_child_nodes(node):
                        if isinstance(ch, (_ast.FunctionDef, _ast.AsyncFunctionDef)):
                            tab[ch.lineno] = prefix + ch.name
                            walk(ch, prefix + ch.name + '.')
                        elif isinstance(ch, _ast.ClassDef):
                            walk(ch, prefix + ch.name + '.')
                        else:
                            walk(ch, prefix)
                walk(tree, '')
                idx[rel] = tab
            q = idx[rel].get(ln)
            if q:
                executed.append('%s::%s' % (rel, q))
    except Exception:
        executed = []
    obls = []
    both = tier == 'thorough'
    for o in vc.obligations:
        try:
            o.check(both=both)
        except Exception as e:
            o.status = 'undecided'
            o.verdict = smt.Verdict('unknown', 'z3', 0.0, reason='solver exception: %s' % e)
        v = o.verdict
        rec = dict(name=o.name, item=item.name, kind=o.kind, fn=o.fn, status=o.status, backend=v.backend, ms=round(v.ms, 2),
                   reason=v.reason, info={k: str(x) for k, x in (o.info or {}).items()})
        if o.status == 'failed' or (o.status == 'undecided' and getattr(v, 'status', None) == 'sat' and getattr(item, 'replay', None)):
            # (an obligation the solver refuted but that is only UNDECIDED for the prover -- the refutation went through a loop cut
            #  without a contract, history state or diverging definitional symbols -- keeps its counter-model: if the item's replayer
            #  reproduces a failure with it on the real code, that concrete run is a violation whatever the prover could conclude)
            rec['model'] = str(v.model)[:6000] if v.model is not None else None
            try:
                from pyvc import cex
                g = o.goal if not isinstance(o.goal, bool) else None
                rec['cex'] = cex.extract(v.model, ([g] if g is not None else []) + list(o.hyps)) if v.model is not None else None
            except Exception as e:
                rec['cex'] = {'__error__': 'counter-model not concretised: %s' % e}
            try:
                rec['goal'] = str(o.goal)[:3000]
                rec['hyps'] = [str(h)[:600] for h in o.hyps][:40]
            except Exception:
                pass
        obls.append(rec)
    return dict(item=item.name, idx=idx, obligations=obls, bounded_notes=list(vc.bounded_notes),
                undecided=[dict(fn=u.fn, reason=u.reason) for u in vc.undecided],
                functions=list(vc.functions.values()), assumptions=sorted(vc.assumptions), trusted=sorted(vc.trusted),
                paths=vc.path_count, wall=time.time() - t0, crashed=crashed, solver=dict(smt.STATS), executed=sorted(set(executed)),
                read=dict(loader.READ_LOG))


def load_findings():
    p = os.path.join(VERIF, 'known_findings.json')
    if not os.path.exists(p):
        return []
    return json.load(open(p))


def finding_for(findings, prop, name):
    for f in findings:
        if f.get('property') == prop and f.get('status', 'finding') == 'finding' and re.fullmatch(f['obligation'], name):
            return f
    return None


def run_native(prop, tier, seed, only=None, extra=None, mod=None):
    """bounded stand-in / engine-vs-CPython differential under the repository's interpreter.  With the contract module at hand
    the native tests of the property run side by side, one interpreter each (same seeds, same cases as a serial run: every
    test seeds its own generator from (seed, test name)); their reports are merged."""
    if mod is not None and not extra:
        tests = []
        from contracts import probes as _probes
        pit = _probes.probe_item(mod)
        for item in list(mod.ITEMS) + ([pit] if pit is not None and not only else []):
            for name, fn in (getattr(item, 'native', None) or []):
                if not only or only in item.name:
                    k = getattr(fn, 'shards', 1)
                    tests += [('%s.%s' % (item.name, name), '%d/%d' % (i, k)) for i in range(k)]
        if len(tests) > 1:
            from concurrent.futures import ThreadPoolExecutor
            with ThreadPoolExecutor(min(12, len(tests))) as ex:
                parts = list(ex.map(lambda t: run_native(prop, tier, seed, only=only, extra=['--test', t[0], '--shard', t[1]]), tests))
            out = dict(cases=0, distinct=0, failures=[], tests=[], skipped=[], crashed=None, bound=None)
            for part in parts:
                out['cases'] += part.get('cases', 0)
                out['distinct'] += part.get('distinct', 0)
                out['failures'] += part.get('failures', [])
                out['tests'] += part.get('tests', [])
                out['skipped'] += part.get('skipped') or []
                out['bound'] = out['bound'] or part.get('bound')
                if part.get('crashed') and not out['crashed']:
                    out['crashed'] = part['crashed']
            per = {}
            for t in out['tests']:
                per[t['test']] = per.get(t['test'], 0) + t['cases']
            out['tests'] = [dict(test=k, cases=v) for k, v in sorted(per.items())]
            return out
    cmd = ['/venv/bin/python', os.path.join(VERIF, 'harness', 'native.py'), prop, '--tier', tier, '--seed', str(seed)]
    if only:
        cmd += ['--only', only]
    if extra:
        cmd += extra
    env = dict(os.environ)
    env['PYTHONPATH'] = os.environ.get('PYVC_REPO', '/repo') + os.pathsep + VERIF
    env['PYTHONDONTWRITEBYTECODE'] = '1'
    # the code under test leaves temporary files behind (dump staging files, key-value stores): every harness process gets a
    # scratch TMPDIR of its own, removed when it ends
    import tempfile, shutil
    tmpd = tempfile.mkdtemp(prefix='pyvc_native_')
    env['TMPDIR'] = tmpd
    try:
        p = subprocess.run(cmd, capture_output=True, text=True, env=env, timeout=3000, cwd=VERIF)
    except subprocess.TimeoutExpired:
        return dict(crashed='native harness timeout', cases=0, failures=[], tests=[])
    finally:
        shutil.rmtree(tmpd, ignore_errors=True)
    out = p.stdout.strip().splitlines()
    for line in reversed(out):
        if line.startswith('{'):
            try:
                return json.loads(line)
            except Exception:
                pass
    return dict(crashed='native harness produced no result (rc=%d): %s' % (p.returncode, (p.stderr or p.stdout)[-2000:]),
                cases=0, failures=[], tests=[])


def main():
    ap = argparse.ArgumentParser()
    ap.add_argument('prop')
    ap.add_argument('--tier', default=os.environ.get('VERIF_TIER', 'quick'))
    ap.add_argument('--replay')
    ap.add_argument('--jobs', type=int, default=min(16, os.cpu_count() or 4))
    ap.add_argument('--only')
    ap.add_argument('--no-native', action='store_true', help='diagnostic runs (mutation analysis): skip the bounded harness; '
                    'the evidence of such a run is marked level=other')
    a = ap.parse_args()
    prop = a.prop
    if (a.only or a.no_native) and 'PYVC_OUT' not in os.environ:
        # a partial / diagnostic run must never overwrite the evidence of the registered check: its output goes to .scratch/
        global OUT
        OUT = os.path.join(VERIF, '.scratch')
    tier = a.tier if a.tier in ('quick', 'thorough') else 'quick'
    seed = int(os.environ.get('VERIF_SEED', '0') or 0)
    t0 = time.time()
    if a.replay:
        return replay(prop, a.replay)
    try:
        mod = importlib.import_module('contracts.' + prop)
    except Exception:
        traceback.print_exc()
        return 3
    items = list(range(len(mod.ITEMS)))
    if a.only:
        items = [i for i in items if a.only in mod.ITEMS[i].name]
    results = []
    nat_future = None
    try:
        ctx = mp.get_context('fork')
        with ctx.Pool(min(a.jobs, max(1, len(items)))) as pool:
            if not a.no_native:
                # the bounded harness runs under the repository's interpreter, next to the proof obligations (the thread is
                # started after the workers were forked)
                from concurrent.futures import ThreadPoolExecutor
                nat_pool = ThreadPoolExecutor(1)
                nat_future = nat_pool.submit(run_native, prop, tier, seed, a.only, None, mod)
            results = pool.map(run_item, [(prop, i, tier) for i in items], chunksize=1)
    except Exception:
        traceback.print_exc()
        return 3
    if a.no_native:
        native = dict(cases=0, failures=[], tests=[], crashed=None, not_run=True)
    else:
        native = nat_future.result()
    return report(prop, tier, seed, mod, results, native, time.time() - t0)


def report(prop, tier, seed, mod, results, native, wall):
    findings = load_findings()
    crashed = [r for r in results if r['crashed']]
    # vacuity guard on the number of obligations: a contract item that generates fewer obligations than on the pinned
    # tree (committed baseline) has lost paths -- undecided, never silently "proved"
    per_item = {r['item']: len([o for o in r['obligations'] if o['kind'] in ('proof', 'bounded')]) for r in results}
    try:
        base = json.load(open(os.path.join(VERIF, 'contracts', 'baseline_counts.json'))).get(prop, {})
    except Exception:
        base = {}
    for r in results:
        want = base.get(r['item'])
        if want is not None and per_item[r['item']] < want and not r['crashed']:
            r['undecided'].append(dict(fn=r['item'], reason='VACUOUS: %d obligations generated, %d on the pinned tree' %
                                       (per_item[r['item']], want)))
    obls = [o for r in results for o in r['obligations']]
    proof = [o for o in obls if o['kind'] == 'proof']
    covers = [o for o in obls if o['kind'] == 'cover']
    canaries = [o for o in obls if o['kind'] == 'canary']
    undecided_fns = [u for r in results for u in r['undecided']]
    for sk in native.get('skipped') or []:
        undecided_fns.append(dict(fn='native:' + sk.get('test', '?'), reason=sk.get('reason', 'skipped')))
    for nf in (x for x in native.get('failures', []) if str(x.get('test', '')).startswith('trusted-base.')):
        undecided_fns.append(dict(fn='trusted-base:' + str(nf.get('fn')), reason='TRUSTED-BASE PROBE FAILED (%s): %s -> expected %s, observed %s' % (
            nf.get('test'), str(nf.get('input'))[:200], str(nf.get('expected'))[:100], str(nf.get('observed'))[:100])))
    bounded = [o for o in obls if o['kind'] == 'bounded']
    failed = [o for o in proof + bounded if o['status'] == 'failed']
    undecided_obl = [o for o in proof if o['status'] == 'undecided']
    # vacuity guard: a cover that is UNSAT means contradictory hypotheses (vacuous proof); a cover the solvers cannot
    # decide is tolerated only if another cover of the same function is satisfiable
    sat_fns = {o['fn'] for o in covers if o['status'] == 'discharged'}
    bad_vacuity = [o for o in covers + canaries if o['status'] == 'failed' or
                   (o['status'] != 'discharged' and o['fn'] not in sat_fns)]
    known_lines = []
    violations = []
    for o in failed:
        f = finding_for(findings, prop, o['name'])
        if f:
            known_lines.append('KNOWN-FINDING: property=%s %s [%s]' % (prop, f['what'], o['name']))
            o['known_finding'] = f.get('id')
        else:
            violations.append(('obligation', o))
    nat_fail = native.get('failures', [])
    # probes of the trusted base decide nothing about the repository: a failing probe means an ASSUMPTION of the proofs does not
    # hold on this installation -> the property is undecided (never a violation, never proved)
    probe_fail = [nf for nf in nat_fail if str(nf.get('test', '')).startswith('trusted-base.')]
    nat_fail = [nf for nf in nat_fail if nf not in probe_fail]
    nat_fail_new = []        # native failures that are not a recorded finding: only these may serve as the failing input of a
                             # failed obligation of the same function
    for nf in nat_fail:
        f = None
        for g in findings:
            if g.get('property') == prop and g.get('status', 'finding') == 'finding' and g.get('native') and \
                    re.fullmatch(g['native'], nf.get('test', '')):
                f = g
        if f:
            known_lines.append('KNOWN-FINDING: property=%s %s [native %s]' % (prop, f['what'], nf.get('test')))
        else:
            violations.append(('native', nf))
            nat_fail_new.append(nf)
    # refuted-but-undecided obligations whose counter-model the item's replayer turns into a failing run of the real function
    promoted = 0
    for o in undecided_obl:
        it_ = next((i for i in mod.ITEMS if i.name == o.get('item')), None)
        if promoted >= 8 or it_ is None or not getattr(it_, 'replay', None) or not isinstance(o.get('cex'), dict) or '__error__' in o['cex'] \
                or finding_for(findings, prop, o['name']) or native.get('not_run_replay'):
            continue
        os.makedirs(os.path.join(OUT, 'replay', prop), exist_ok=True)
        tmp = os.path.join(OUT, 'replay', prop, '.probe.json')
        json.dump(dict(property=prop, obligation=o['name'], item=o.get('item'), counterexample=o['cex']), open(tmp, 'w'), default=str)
        rp = run_native(prop, tier, seed, extra=['--cex', tmp, '--item', it_.name])
        os.remove(tmp)
        promoted += 1
        if rp.get('failures'):
            o['promoted_by_replay'] = True
            violations.append(('obligation', o))
    # a finding that is listed but no longer fails is not an error; listed-as-fixed entries suppress nothing
    os.makedirs(os.path.join(OUT, 'replay', prop), exist_ok=True)
    os.makedirs(os.path.join(OUT, 'evidence'), exist_ok=True)
    # replay files of earlier runs describe another tree: only what this run reports is kept
    for old in os.listdir(os.path.join(OUT, 'replay', prop)):
        if old.endswith('.json'):
            os.remove(os.path.join(OUT, 'replay', prop, old))
    rc = 0
    lines = []
    # concrete failing inputs for failed obligations: ask the native harness for the function involved
    for kind, v in violations:
        if kind == 'obligation':
            fname = re.sub(r'[^A-Za-z0-9_.\[\]-]', '_', v['name'])[:150]
            path = os.path.join('replay', prop, fname + '.json')
            hit = None
            for nf in nat_fail_new:
                if nf.get('fn') and v.get('fn') and nf['fn'] == v['fn']:
                    hit = nf
            rec = dict(property=prop, obligation=v['name'], item=v.get('item'), function=v.get('fn'), backend=v.get('backend'),
                       verdict='sat', model=v.get('model'), counterexample=v.get('cex'), goal=v.get('goal'), hyps=v.get('hyps'),
                       solver_output=v.get('reason'), failing_input=hit, confirmed=bool(hit),
                       failing_input_source='bounded harness of the same function' if hit else None)
            json.dump(rec, open(os.path.join(OUT, path), 'w'), indent=1, default=str)
            # replay of the verifier's own counterexample: the contract item's replayer builds the call of the REAL function
            # from the concretised counter-model and evaluates the clause in CPython
            it_ = next((i for i in mod.ITEMS if i.name == v.get('item')), None)
            if it_ is not None and getattr(it_, 'replay', None) and isinstance(v.get('cex'), dict) and '__error__' not in v['cex'] \
                    and not native.get('not_run_replay'):
                rp = run_native(prop, tier, seed, extra=['--cex', os.path.join(OUT, path), '--item', it_.name])
                rec['counterexample_replay'] = dict(cases=rp.get('cases', 0), failures=rp.get('failures', []), crashed=rp.get('crashed'),
                                                    skipped=rp.get('skipped'))
                if rp.get('failures'):
                    hit = rp['failures'][0]
                    rec.update(failing_input=hit, confirmed=True, failing_input_source='counter-model of the solver, concretised and '
                               'run against the real function')
                json.dump(rec, open(os.path.join(OUT, path), 'w'), indent=1, default=str)
            lines.append('VIOLATION property=%s replay=%s%s' % (prop, path, '' if hit else ' no-failing-input-found'))
        else:
            fname = re.sub(r'[^A-Za-z0-9_.\[\]-]', '_', 'native.' + v.get('test', 'case'))[:150]
            path = os.path.join('replay', prop, fname + '.json')
            json.dump(dict(property=prop, obligation='native:' + v.get('test', ''), function=v.get('fn'), verdict='failing-input',
                           failing_input=v, confirmed=True), open(os.path.join(OUT, path), 'w'), indent=1, default=str)
            lines.append('VIOLATION property=%s replay=%s' % (prop, path))
    # de-duplicate violation lines
    seen = set()
    vlines = [x for x in lines if not (x in seen or seen.add(x))]
    if vlines:
        rc = 1
    if crashed or native.get('crashed'):
        rc = 3 if not vlines else rc
    failed_proof = [o for o in failed if o['kind'] == 'proof']
    discharged = [o for o in proof if o['status'] == 'discharged']
    by_backend = {}
    for o in discharged:
        by_backend[o['backend']] = by_backend.get(o['backend'], 0) + 1
    functions = []
    seenf = set()
    for r in results:
        for f in r['functions']:
            if f['fn'] not in seenf:
                seenf.add(f['fn'])
                functions.append(f)
    und_names = {u['fn'] for u in undecided_fns} | {o['fn'] for o in undecided_obl}
    all_proved = (len(proof) > 0 and len(discharged) + len([o for o in failed_proof if o.get('known_finding')]) == len(proof)
                  and not undecided_fns and not bad_vacuity)
    # obligations refuted by a recorded known finding are reported apart (coverage.refuted_known_findings) and are not
    # part of the proof count: the claim is "everything except the listed findings is discharged"
    kf_refuted = [o for o in failed_proof if o.get('known_finding')]
    proof_counted = [o for o in proof if not o.get('known_finding')]
    level = 'proof' if (all_proved and not crashed and len(discharged) == len(proof_counted)) else 'other'
    if native.get('not_run'):
        level = 'other'       # diagnostic run without the bounded harness
    samples = [dict(name=o['name'], verdict=o['status'], backend=o['backend'], ms=o['ms']) for o in proof[:6]]
    solver_ms = sum(o['ms'] for o in obls)
    cov = dict(
        obligations=len(proof_counted), discharged=len(discharged),
        refuted_known_findings=[dict(obligation=o['name'], finding=o.get('known_finding')) for o in kf_refuted],
        checker_cmd='./check %s --tier %s' % (prop, tier),
        trusted_base=sorted({t for r in results for t in r['trusted']} | set(getattr(mod, 'TRUSTED', []))),
        functions_under_contract=functions,
        by_backend=by_backend, solver_ms_total=round(solver_ms, 1),
        slowest=sorted([dict(name=o['name'], ms=o['ms']) for o in obls], key=lambda x: -x['ms'])[:5],
        undecided=[dict(fn=u['fn'], reason=u['reason']) for u in undecided_fns] +
                  [dict(obligation=o['name'], reason=o['reason'], backend=o['backend']) for o in undecided_obl],
        failed=[dict(obligation=o['name'], known_finding=o.get('known_finding')) for o in failed],
        vacuity=dict(covers=len(covers), covers_sat=len([o for o in covers if o['status'] == 'discharged']),
                     canaries=len(canaries), canaries_failed_as_expected=len([o for o in canaries if o['status'] == 'discharged']),
                     paths_explored=sum(r['paths'] for r in results)),
        bounded=dict(label='bounded stand-in and engine-vs-CPython differential (never counted as proved)',
                     cases=native.get('cases', 0), tests=native.get('tests', []), failures=len(nat_fail),
                     bound=native.get('bound', ''),
                     symbolic_bounded_obligations=len(bounded),
                     symbolic_bounded_discharged=len([o for o in bounded if o['status'] == 'discharged']),
                     symbolic_bounded_notes=sorted({n for r in results for n in r.get('bounded_notes', [])})),
        known_findings=known_lines,
        trusted_base_probes=[dict(probe=t['test'], cases=t['cases'], failed=len([f for f in probe_fail if f.get('test') == t['test']]))
                             for t in native.get('tests', []) if str(t.get('test', '')).startswith('trusted-base.')],
        samples=samples,
        obligations_per_item=per_item,
        source_files_read={k: v for r in results for k, v in r['read'].items()},
        functions_executed_not_declared=sorted({x for r in results for x in r.get('executed', [])} - seenf),
    )
    if level == 'other':
        why = []
        if undecided_fns or undecided_obl:
            why.append('%d obligation(s)/function(s) undecided by the prover (bounded stand-in ran instead)' %
                       (len(undecided_fns) + len(undecided_obl)))
        if failed:
            why.append('%d obligation(s) failed' % len(failed))
        if bad_vacuity:
            why.append('vacuity guard not satisfied: %s' % [o['name'] for o in bad_vacuity][:5])
        if crashed:
            why.append('checker crash in items: %s' % [c['item'] for c in crashed])
        if not proof:
            why.append('no proof obligations generated')
        cov['explanation'] = 'contract-based deductive check; run not fully discharged: ' + '; '.join(why)
        cov['evaluations'] = max(1, len(proof) + native.get('cases', 0))
        cov['distinct_nontrivial'] = max(2, len(discharged) + native.get('distinct', 0))
    ev = dict(property_id=prop, tier=tier, seed=seed, level=level, coverage=cov,
              assumptions=sorted({x for r in results for x in r['assumptions']} | set(getattr(mod, 'ASSUMPTIONS', []))),
              wall_s=round(wall, 2), violations=len(vlines))
    json.dump(ev, open(os.path.join(OUT, 'evidence', prop + '.json'), 'w'), indent=1, default=str)
    for c in crashed:
        print('CHECKER-CRASH item=%s\n%s' % (c['item'], c['crashed']), file=sys.stderr)
    if native.get('crashed'):
        print('NATIVE-HARNESS-CRASH %s' % native['crashed'], file=sys.stderr)
    for line in sorted(set(known_lines)):
        print(line)
    for line in vlines:
        print(line)
    print('%s tier=%s obligations=%d discharged=%d failed=%d undecided=%d undecided_fns=%d native_cases=%d level=%s wall=%.1fs rc=%d' % (
        prop, tier, len(proof), len(discharged), len(failed), len(undecided_obl), len(undecided_fns),
        native.get('cases', 0), level, wall, rc))
    return rc


def replay(prop, path):
    p = path if os.path.isabs(path) else os.path.join(VERIF, path)
    rec = json.load(open(p))
    fi = rec.get('failing_input')
    if fi and str(rec.get('failing_input_source', '')).startswith('counter-model') and rec.get('item'):
        native = run_native(prop, 'quick', 0, extra=['--cex', p, '--item', rec['item']])
        fails = native.get('failures', [])
        if fails:
            print('VIOLATION property=%s replay=%s' % (prop, path))
            print(json.dumps(fails[0], indent=1, default=str)[:4000])
            return 1
        print('replay of the counterexample did not reproduce a failure on the current tree')
        return 0
    if not fi:
        print('replay file names obligation %s; no concrete failing input recorded (solver output attached)' % rec.get('obligation'))
        print(json.dumps({k: rec.get(k) for k in ('obligation', 'function', 'model', 'solver_output')}, indent=1)[:4000])
        return 1
    native = run_native(prop, 'quick', 0, extra=['--replay', p])
    fails = native.get('failures', [])
    if fails:
        print('VIOLATION property=%s replay=%s' % (prop, path))
        print(json.dumps(fails[0], indent=1, default=str)[:4000])
        return 1
    print('replay did not reproduce a failure on the current tree')
    return 0


if __name__ == '__main__':
    sys.exit(main())
