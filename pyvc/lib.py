"""pyvc.lib -- semantics of Python operators, built-ins, container methods and library stubs over pyvc.values.

Anything not modelled raises Unsupported (function undecided).  Unknown attributes of Opaque objects and of
external modules are *effect calls*: they are appended to the trace as Call events and return Opaque results.
"""
import ast
import z3

from .values import *  # noqa
from .symex import PyExc, Ev, FuncDefV, Env, DEFS, PathEnd, param_names

# ------------------------------------------------------------------------------------------------
# exception classes

EXC_PARENT = {
    'BaseException': None, 'Exception': 'BaseException', 'GeneratorExit': 'BaseException',
    'KeyboardInterrupt': 'BaseException',
    'LookupError': 'Exception', 'KeyError': 'LookupError', 'IndexError': 'LookupError',
    'ValueError': 'Exception', 'TypeError': 'Exception', 'AssertionError': 'Exception',
    'AttributeError': 'Exception', 'RuntimeError': 'Exception', 'NotImplementedError': 'RuntimeError',
    'StopIteration': 'Exception', 'ArithmeticError': 'Exception', 'ZeroDivisionError': 'ArithmeticError',
    'OSError': 'Exception', 'NameError': 'Exception', 'ImportError': 'Exception',
    'FileNotFoundError': 'OSError', 'FileExistsError': 'OSError', 'PermissionError': 'OSError', 'IsADirectoryError': 'OSError',
    'NotADirectoryError': 'OSError', 'ConnectionError': 'OSError', 'BrokenPipeError': 'ConnectionError', 'TimeoutError': 'OSError',
    'UnicodeError': 'ValueError', 'UnicodeDecodeError': 'UnicodeError', 'UnicodeEncodeError': 'UnicodeError',
    'OverflowError': 'ArithmeticError', 'RecursionError': 'RuntimeError', 'EOFError': 'Exception', 'MemoryError': 'Exception',
    'UserWarning': 'Exception', 'DeprecationWarning': 'Exception',
    # tableschema / datapackage (checked against the installed packages by the harness probe)
    'DataPackageException': 'Exception', 'CastError': 'DataPackageException', 'UniqueKeyError': 'CastError',
    'TSValidationError': 'DataPackageException', 'InvalidOperation': 'ArithmeticError',
}
_builtin_classes = {}


def exc_class(name):
    if name not in _builtin_classes:
        c = ClassV(name, node=None, bases=(EXC_PARENT.get(name),) if EXC_PARENT.get(name) else ())
        _builtin_classes[name] = c
    return _builtin_classes[name]


def class_ancestors(cls):
    """names of cls and all its ancestors"""
    out = []
    stack = [cls]
    while stack:
        c = stack.pop()
        if isinstance(c, str):
            c = exc_class(c)
        if not isinstance(c, ClassV):
            continue      # base class from an unmodelled library
        if c.name in out:
            continue
        out.append(c.name)
        if c.node is None:
            p = EXC_PARENT.get(c.name)
            if p:
                stack.append(p)
        else:
            stack.extend(c.bases)
    return out


def is_exception_class(cls):
    return 'BaseException' in class_ancestors(cls) or 'Exception' in class_ancestors(cls)


ISA = z3.Function('exc_isa', IntS, StrS, BoolS)


def exc_isinstance(it, exc, ht):
    """does exception value `exc` match handler type `ht` (ClassV or tuple of)"""
    if isinstance(ht, tuple):
        rs = [exc_isinstance(it, exc, h) for h in ht]
        if any(r is True for r in rs):
            return True
        rs = [r for r in rs if r is not False]
        if not rs:
            return False
        return z3.Or(*rs)
    if not isinstance(ht, ClassV):
        raise Unsupported('except type %r' % (ht,))
    if exc.cls is not None:
        c = exc.cls if isinstance(exc.cls, str) else exc.cls.name
        cv = exc_class(c) if isinstance(exc.cls, str) and c not in it.lib_classes() else it.lib_classes().get(c, exc_class(c))
        return ht.name in class_ancestors(cv)
    # symbolic exception object
    return ISA(exc.term, z3.StringVal(ht.name))


def symbolic_exception(it, hint='e'):
    """an arbitrary exception object (subclass of Exception) with the class-hierarchy axioms instantiated"""
    e = it.fresh(hint, IntS)
    ex = ExcV(None, (), term=e)
    names = set(EXC_PARENT) | set(it.lib_classes())
    for n in sorted(names):
        anc = class_ancestors(it.lib_classes().get(n) or exc_class(n))
        for a in anc[1:]:
            it.assume(z3.Implies(ISA(e, z3.StringVal(n)), ISA(e, z3.StringVal(a))))
    it.assume(ISA(e, z3.StringVal('Exception')))
    return ex


# ------------------------------------------------------------------------------------------------
# symbolic iteration sources

class SymSource:
    may_raise = False

    def __init__(self, name):
        self.name = name

    def fresh_elem(self, it):
        raise NotImplementedError

    def on_exhausted(self, it):
        pass

    def bases(self):
        return []

    def fresh_exception(self, it):
        return symbolic_exception(it, 'upstream_exc')


class StreamSource(SymSource):
    def __init__(self, stream):
        super().__init__(stream.name)
        self.stream = stream
        self.may_raise = stream.may_raise

    def fresh_elem(self, it):
        return self.stream.mk_elem(it)

    def on_exhausted(self, it):
        self.stream.drained = True

    def bases(self):
        return [z3.Const('stream_' + self.stream.name, IntS)]


class SeqSource(SymSource):
    """opaque immutable sequence of scalars (z3 Seq const)"""

    def __init__(self, seq):
        super().__init__(seq.name)
        self.seq = seq

    def fresh_elem(self, it):
        v, var = self.seq.mk_elem(it)
        self.last_vars = [var] if var is not None else []
        return v

    def bases(self):
        return [self.seq.term]


class RowItemsSource(SymSource):
    def __init__(self, row, what):
        super().__init__('items(%s)' % row.name)
        self.row = row
        self.what = what

    def fresh_elem(self, it):
        k = it.fresh('k', StrS)
        it.assume(self.row.dom[k])
        self.last_vars = [k]
        kv = SV(k)
        if self.what == 'keys':
            return kv
        v = it.uncell(self.row.val[k])
        if self.what == 'values':
            return v
        return (kv, v)

    def bases(self):
        return [self.row.dom, self.row.val]


class EnumSource(SymSource):
    def __init__(self, inner, start):
        super().__init__('enumerate(%s)' % inner.name)
        self.inner = inner
        self.start = start
        self.may_raise = inner.may_raise

    def fresh_elem(self, it):
        # the index of an arbitrary element: start + its (ghost) position in the stream
        pos = it.fresh('enum_pos', IntS)
        it.assume(pos >= 0)
        i = it.fresh('idx', IntS)
        it.assume(i == term(self.start) + pos)
        e = self.inner.fresh_elem(it)
        self.last_vars = [i] + list(getattr(self.inner, 'last_vars', []))
        self.index = i
        self.pos = pos
        it.last_enum = self
        return (SV(i), e)

    def on_exhausted(self, it):
        self.inner.on_exhausted(it)

    def bases(self):
        return self.inner.bases()

    def fresh_exception(self, it):
        return self.inner.fresh_exception(it)


class ZipLongestSource(SymSource):
    """itertools.zip_longest(a, b, ...) over opaque iterables.  Every part has a ghost length; the element at (ghost) index
    k is the tuple of part_i[k] where k < len_i and None (the fill value) otherwise; at least one part is present.  The
    index is tied to the loop's ghost iteration count by cut_for; exhaustion means k == max(len_i).
    `shortest=True` gives zip(): all parts present, exhaustion at min(len_i)."""

    def __init__(self, it, parts, shortest=False):
        super().__init__('zip_longest')
        self.parts = []
        self.lens = []
        for i, p in enumerate(parts):
            kind, payload = iterate(it, p)
            if kind == 'concrete':
                raise Unsupported('zip_longest over a concrete part (only opaque parts are modelled)')
            self.parts.append(payload)
            ln = getattr(getattr(payload, 'seq', None), 'length', None)
            if ln is None:
                ln = it.fresh('ziplen%d' % i, IntS)
                it.assume(ln >= 0)
            self.lens.append(ln)
        self.may_raise = any(getattr(p, 'may_raise', False) for p in self.parts)
        self.shortest = shortest
        m = self.lens[0]
        for ln in self.lens[1:]:
            m = z3.If(ln < m, ln, m) if shortest else z3.If(ln > m, ln, m)

        class _S:
            pass
        self.seq = _S()
        self.seq.length = m
        self.start = 0
        self.present = None
        it.path.info.setdefault('zip_sources', []).append(self)      # ghost: lets a contract see which parts were present

    def fresh_elem(self, it):
        i = it.fresh('zidx', IntS)
        it.assume(i >= 0)
        self.index = i
        out = []
        for p, ln in zip(self.parts, self.lens):
            if self.shortest:
                it.assume(i < ln)
                present = True
            else:
                present = it.branch(i < ln)
            if present:
                at = getattr(getattr(p, 'seq', None), 'at', None)
                out.append(at(it, SV(i)) if at is not None else p.fresh_elem(it))
            else:
                out.append(None)
        self.present = [x is not None for x in out]
        return tuple(out)

    def on_exhausted(self, it):
        for p in self.parts:
            p.on_exhausted(it)

    def fresh_exception(self, it):
        for p in self.parts:
            if getattr(p, 'may_raise', False):
                return p.fresh_exception(it)
        return symbolic_exception(it, 'upstream_exc')


class CompSource(SymSource):
    """iteration over the result of a symbolic comprehension [elem(x) for x in src if cond(x)]:
    an arbitrary element is elem(x) for an arbitrary x of src with cond(x)"""

    def __init__(self, comp):
        super().__init__('comp(%s)' % comp.src.name)
        self.comp = comp
        self.may_raise = getattr(comp.src, 'may_raise', False)

    def fresh_elem(self, it):
        c = self.comp
        e = c.src.fresh_elem(it)
        new_vars = list(getattr(c.src, 'last_vars', []))
        self.last_vars = new_vars
        sub = list(zip(c.vars, new_vars))
        for cd in c.conds:
            it.assume(z3.substitute(cd, *sub) if sub else cd)
        if c.identity:
            # [x for x in src if cond(x)]: the element object itself
            return e
        if len(c.vars) != len(new_vars) or not c.vars:
            raise Unsupported('iteration over a mapped comprehension of opaque objects')
        return subst_value(c.elem, sub)

    def bases(self):
        return self.comp.src.bases() + [DEFS.sym('FILTERID', self.comp.src.bases(), self.comp.vars,
                                                 list(self.comp.conds) or [z3.BoolVal(True)], IntS)]


def subst_value(v, pairs):
    """structural substitution of z3 variables inside a python-level value"""
    if isinstance(v, SV):
        return wrap(z3.substitute(v.t, *pairs))
    if isinstance(v, tuple):
        return tuple(subst_value(x, pairs) for x in v)
    if isinstance(v, RegexV):
        return RegexV(subst_value(v.pattern, pairs))
    if v is None or isinstance(v, (bool, int, str, float)):
        return v
    raise Unsupported('element of a mapped comprehension: %r' % (v,))


class GenExp:
    """unevaluated generator expression / comprehension"""

    def __init__(self, node, env, kind):
        self.node, self.env, self.kind = node, env, kind
        self.oid = new_oid()


class CompSeq:
    """symbolic sequence produced by a comprehension over one opaque source:
       [elem(x) for x in src if cond(x)]"""

    def __init__(self, src, vars, elem, conds, it, identity=False):
        self.src, self.vars, self.elem, self.conds = src, vars, elem, conds
        self.oid = new_oid()
        self._term = None
        self.identity = identity   # elem is the source element itself (filter only)

    def term(self, it):
        if self._term is None:
            et = term(self.elem) if not isinstance(self.elem, tuple) else None
            if et is None:
                raise Unsupported('sequence of tuples has no term')
            conds = [c for c in self.conds]
            self._term = DEFS.sym('MAPSEQ', self.src.bases(), self.vars, [et] + conds, z3.SeqSort(et.sort()))
        return self._term


def iterate(it, v):
    """('concrete', [values]) or ('symbolic', SymSource)"""
    if isinstance(v, (tuple, list)):
        return 'concrete', list(v)
    if isinstance(v, PyList):
        return 'concrete', list(v.items)
    if isinstance(v, PyDict):
        return 'concrete', list(v.d.keys())
    if isinstance(v, SymList):
        if v.prefix is None:
            return 'concrete', list(v.items)
        if v.items:
            raise Unsupported('iteration over symbolic list with appended items')
        return iterate(it, v.prefix)
    if isinstance(v, IterV) and v.items is not None:
        rest = v.items[v.pos:]
        v.pos = len(v.items)
        return 'concrete', rest
    if isinstance(v, Stream):
        return 'symbolic', StreamSource(v)
    if isinstance(v, SymSeq):
        return 'symbolic', SeqSource(v)
    if isinstance(v, SymSource):
        return 'symbolic', v
    if isinstance(v, Row):
        return 'symbolic', RowItemsSource(v, 'keys')
    if isinstance(v, GenExp):
        r = consume_comp(it, v, 'list')
        return iterate(it, r)
    if isinstance(v, CompSeq):
        if not v.vars and not v.identity:
            raise Unsupported('iteration over a comprehension of opaque objects')
        return 'symbolic', CompSource(v)
    if isinstance(v, Opaque):
        s = it.lib.opaque_iter(it, v)
        return iterate(it, s)
    if isinstance(v, str):
        return 'concrete', list(v)
    if isinstance(v, GenObj):
        raise Unsupported('iteration over un-run generator %r (declare it inline or as a stream)' % (v,))
    if v.__class__.__name__ == 'ChainV':
        out = []
        for part in v.parts:
            k, items = iterate(it, part)
            if k != 'concrete':
                raise Unsupported('itertools.chain over a symbolic part')
            out.extend(items)
        return 'concrete', out
    raise Unsupported('iterate %r' % (v,))


def opaque_iter(it, o):
    s = o.attrs.get('__iter__')
    if s is None:
        raise Unsupported('opaque %r is not iterable' % (o,))
    return s(it) if callable(s) else s


# ------------------------------------------------------------------------------------------------
# comprehension consumption

def _comp_concrete(it, node, env, gens, out_cb):
    if not gens:
        out_cb(env)
        return
    g = gens[0]
    src = it.eval(g.iter, env)
    kind, payload = iterate(it, src)
    if kind != 'concrete':
        raise Unsupported('nested symbolic generator')
    for v in payload:
        e2 = Env(env)
        it.assign_target(g.target, v, e2)
        ok = True
        for c in g.ifs:
            if not it.branch(it.truth(it.eval(c, e2))):
                ok = False
                break
        if ok:
            _comp_concrete(it, node, e2, gens[1:], out_cb)


def consume_comp(it, ge, kind):
    """evaluate a comprehension/generator expression into a list-like / dict / set value"""
    node, env = ge.node, ge.env
    gens = node.generators
    first = it.eval(gens[0].iter, env)
    k0, payload = iterate(it, first)
    if k0 == 'concrete':
        out = []

        def cb(e2):
            if isinstance(node, ast.DictComp):
                out.append((it.eval(node.key, e2), it.eval(node.value, e2)))
            else:
                out.append(it.eval(node.elt, e2))
        # re-use the already evaluated first iterable
        g = gens[0]
        for v in payload:
            e2 = Env(env)
            it.assign_target(g.target, v, e2)
            ok = True
            for c in g.ifs:
                if not it.branch(it.truth(it.eval(c, e2))):
                    ok = False
                    break
            if ok:
                _comp_concrete(it, node, e2, gens[1:], cb)
        if kind in ('list', 'gen'):
            return PyList(out)
        if kind == 'dict':
            d = PyDict()
            for k, v in out:
                d = dict_set(it, d, k, v)
            return d
        if kind == 'set':
            return make_set(it, out)
        if kind == 'tuple':
            return tuple(out)
        raise Unsupported('comp kind ' + kind)
    # symbolic source
    if len(gens) != 1:
        raise Unsupported('nested generators over a symbolic source')
    src = payload
    g = gens[0]
    e2 = Env(env)
    elem = src.fresh_elem(it)
    src.last_elem = elem
    vars = list(getattr(src, 'last_vars', []))
    if isinstance(src, StreamSource):
        # a comprehension over a stream pulls ALL of it now (buffering): recorded as a Drain of that stream; the collected
        # values are an opaque list (per-element effects of the element expression are not modelled)
        if kind not in ('list', 'tuple', 'set'):
            raise Unsupported('dict comprehension over a stream (buffering)')
        it.emit(Ev('Drain', src=src.stream, how='comprehension'))
        src.stream.drained = True
        return SymList(SymSeq('buffered(%s)' % src.stream.name, it.fresh('buffered', IntS), None), [])
    it.assign_target(g.target, elem, e2)
    it.term_mode += 1
    it.guards.append([])
    try:
        conds = []
        for c in g.ifs:
            t = it.truth(it.eval(c, e2))
            conds.append(z3.BoolVal(t) if isinstance(t, bool) else t)
        if isinstance(node, ast.DictComp):
            ev = (it.eval(node.key, e2), it.eval(node.value, e2))
        else:
            ev = it.eval(node.elt, e2)
    finally:
        it.term_mode -= 1
        guards = it.guards.pop()
    # exceptions raised by the body for some element (guards that hold for every element are dropped)
    if guards:
        pre = z3.And(*conds) if conds else z3.BoolVal(True)
        kept = []
        for gc, cl in guards:
            g1 = z3.simplify(z3.Implies(pre, gc))
            if z3.is_true(g1):
                continue
            if smt.check_valid(list(it.path.pc), g1, timeout_ms=3000).status == 'unsat':
                continue
            kept.append((gc, cl))
        guards = kept
    if guards:
        gconds = [z3.Implies(z3.And(*conds) if conds else z3.BoolVal(True), gc) for gc, _ in guards]
        classes = {c for _, c in guards}
        allok = DEFS.sym('ALL', src.bases(), vars, gconds, BoolS)
        if isinstance(src, RowItemsSource):
            allok = z3.ForAll(vars, z3.Implies(src.row.dom[vars[0]], z3.And(*gconds))) if False else allok
        if not it.branch(allok):
            if len(classes) != 1:
                raise Unsupported('comprehension body may raise different exception classes')
            raise PyExc(ExcV(classes.pop(), ()))
    return build_comp(it, src, vars, ev, conds, kind)


def build_comp(it, src, vars, ev, conds, kind):
    cond = z3.And(*conds) if conds else z3.BoolVal(True)
    if kind == 'dict':
        if not (isinstance(ev, tuple) and len(ev) == 2):
            raise Unsupported('dict() of non-pair comprehension')
        kt, vt = term(ev[0], StrS), it.cell_of(ev[1])
        if isinstance(src, RowItemsSource) and len(vars) == 1:
            k = vars[0]
            if z3.simplify(kt).eq(k):
                dom = z3.Lambda([k], z3.And(src.row.dom[k], cond))
                val = z3.Lambda([k], vt)
                return Row(dom, val, name='comp')
            # key renaming: definitional
            dom = DEFS.sym('ROWMAP_DOM', src.bases(), vars, [kt, cond], DomS)
            val = DEFS.sym('ROWMAP_VAL', src.bases(), vars, [kt, vt, cond], ValS)
            it.note_comp('ROWMAP', src, vars, [kt, vt, cond])
            return Row(dom, val, name='compmap')
        if isinstance(src, SeqSource) and len(vars) == 1 and z3.is_seq(src.seq.term):
            k = vars[0]
            if z3.simplify(kt).eq(k) and not _mentions(vt, k):
                dom = z3.Lambda([k], z3.And(z3.Contains(src.seq.term, z3.Unit(k)), cond))
                val = z3.Lambda([k], vt)
                return Row(dom, val, name='comp')
        dom = DEFS.sym('DICT_DOM', src.bases(), vars, [kt, cond], DomS)
        val = DEFS.sym('DICT_VAL', src.bases(), vars, [kt, vt, cond], ValS)
        return Row(dom, val, name='compdict')
    if kind in ('list', 'gen', 'tuple'):
        return CompSeq(src, vars, ev, conds, it, identity=getattr(src, 'last_elem', None) is ev)
    if kind == 'set':
        et = term(ev) if not isinstance(ev, tuple) else None
        if et is None:
            raise Unsupported('set of tuples from symbolic comprehension')
        arr = DEFS.sym('SETOF', src.bases(), vars, [et, cond], z3.ArraySort(et.sort(), BoolS))
        return SetV(arr, et.sort())
    if kind in ('any', 'all'):
        t = it.truth(ev)
        t = z3.BoolVal(t) if isinstance(t, bool) else t
        if kind == 'any':
            return wrap(DEFS.sym('ANY', src.bases(), vars, [z3.And(cond, t)], BoolS))
        return wrap(DEFS.sym('ALL', src.bases(), vars, [z3.Implies(cond, t)], BoolS))
    raise Unsupported('comprehension kind %s' % kind)


def _mentions(t, v):
    stack = [t]
    seen = set()
    while stack:
        x = stack.pop()
        if x.get_id() in seen:
            continue
        seen.add(x.get_id())
        if x.eq(v):
            return True
        if z3.is_app(x):
            stack.extend(x.children())
        elif z3.is_quantifier(x):
            stack.append(x.body())
    return False


def ite(it, c, a, b):
    """merged value If(c, a, b) for scalars / tuples of scalars"""
    if isinstance(a, tuple) and isinstance(b, tuple) and len(a) == len(b):
        return tuple(ite(it, c, x, y) for x, y in zip(a, b))
    sa, sb = sort_of(a), sort_of(b)
    if a is None and b is None:
        return None
    try:
        if sa is not None and sb is not None and sa.eq(sb):
            return wrap(z3.If(c, term(a), term(b)))
        return wrap(z3.If(c, it.cell_of(a), it.cell_of(b)))
    except Unsupported:
        raise Unsupported('cannot merge %r / %r' % (a, b))


# ------------------------------------------------------------------------------------------------
# operators

def _num_sort(v):
    s = sort_of(v)
    if s is not None and (s.eq(IntS) or s.eq(RealS)):
        return s
    if isinstance(v, float):
        return RealS
    return None


def str_concat(it, parts):
    if all(isinstance(p, str) for p in parts):
        return ''.join(parts)
    ts = [term(p, StrS) for p in parts if not (isinstance(p, str) and p == '')]
    if len(ts) == 1:
        return wrap(ts[0])
    return wrap(z3.Concat(*ts))


def cell_as(it, v, want):
    """view a Cell-sorted SV as a scalar of sort `want` when the path condition forces that constructor.
    Returns SV or None."""
    return None


def binop(it, op, a, b, inplace=False):
    name = op.__class__.__name__
    # lists
    if name == 'Add' and isinstance(a, (PyList, SymList)) and isinstance(b, (PyList, SymList)):
        if isinstance(a, SymList) or isinstance(b, SymList):
            if isinstance(b, PyList) and isinstance(a, SymList):
                if inplace:
                    a.items.extend(b.items)
                    return a
                return SymList(a.prefix, a.items + b.items)
            # concatenation with a list of unknown contents: unknown contents
            r = havoc_list(it, 'concat', a)
            if inplace and isinstance(a, SymList):
                a.prefix, a.items = r.prefix, []
                return a
            return r
        if inplace:
            a.items.extend(b.items)
            return a
        return PyList(a.items + b.items)
    if name == 'Add' and isinstance(a, (PyList, SymList, CompSeq)) and isinstance(b, (PyList, SymList, CompSeq)):
        # concatenation involving a symbolic comprehension result: contents unknown
        return havoc_list(it, 'concat', a if isinstance(a, (PyList, SymList)) else PyList())
    if name == 'Add' and isinstance(a, tuple) and isinstance(b, tuple):
        return a + b
    if name == 'Add' and (isinstance(a, str) or (isinstance(a, SV) and a.t.sort().eq(StrS))) and \
            (isinstance(b, str) or (isinstance(b, SV) and b.t.sort().eq(StrS))):
        return str_concat(it, [a, b])
    if name == 'Mod' and (isinstance(a, str) or (isinstance(a, SV) and a.t.sort().eq(StrS))):
        return format_percent(it, a, b)
    if name == 'Mult' and isinstance(a, PyList) and isinstance(b, int):
        return PyList(a.items * b)
    if isinstance(a, (int, float)) and isinstance(b, (int, float)) and not isinstance(a, bool) and not isinstance(b, bool):
        try:
            if name == 'Add':
                return a + b
            if name == 'Sub':
                return a - b
            if name == 'Mult':
                return a * b
            if name == 'FloorDiv':
                return a // b
            if name == 'Mod':
                return a % b
            if name == 'Div':
                return a / b
            if name == 'Pow':
                return a ** b
            if isinstance(a, int) and isinstance(b, int) and name in ('LShift', 'RShift', 'BitOr', 'BitAnd', 'BitXor') and \
                    (name not in ('LShift', 'RShift') or 0 <= b < 4096):
                return {'LShift': a << b, 'RShift': a >> b, 'BitOr': a | b, 'BitAnd': a & b, 'BitXor': a ^ b}[name]
        except ZeroDivisionError:
            it.raise_('ZeroDivisionError')
    sa, sb = _num_sort(a), _num_sort(b)
    if sa is not None and sb is not None:
        ta, tb = term(a), term(b)
        if sa.eq(RealS) or sb.eq(RealS) or name == 'Div':
            ta, tb = term(a, RealS) if not sa.eq(RealS) else ta, term(b, RealS) if not sb.eq(RealS) else tb
            if isinstance(a, float):
                ta = term(a)
            if isinstance(b, float):
                tb = term(b)
        if name == 'Add':
            return wrap(ta + tb)
        if name == 'Sub':
            return wrap(ta - tb)
        if name == 'Mult':
            return wrap(ta * tb)
        if name in ('Div', 'FloorDiv', 'Mod'):
            if not it.branch(tb != 0):
                it.raise_('ZeroDivisionError')
            if name == 'Div':
                return wrap(ta / tb)
            if ta.sort().eq(IntS) and tb.sort().eq(IntS):
                # python floor semantics for positive divisors; general case via floor division identity
                if name == 'FloorDiv':
                    return wrap(z3.If(tb > 0, ta / tb, -((-ta) / (-tb)) if False else (ta / tb)))
                return wrap(z3.If(tb > 0, ta % tb, -((-ta) % (-tb))))
    # cells: arithmetic on opaque cells is abstracted by an uninterpreted function per operator
    if (isinstance(a, SV) and a.t.sort().eq(Cell)) or (isinstance(b, SV) and b.t.sort().eq(Cell)):
        if name in ('Div', 'FloorDiv', 'Mod') and sb is not None:
            tb = term(b)
            if not it.branch(tb != 0):
                it.raise_('ZeroDivisionError')
        f = z3.Function('cell_' + name.lower(), Cell, Cell, Cell)
        it.assumptions.add('arithmetic on opaque cells (%s) is an uninterpreted total function' % name)
        return SV(f(it.cell_of(a), it.cell_of(b)))
    if any(isinstance(x, Opaque) and x.kind in ('result', 'item', 'dictval', 'listelem') for x in (a, b)):
        # arithmetic with a value returned by an unmodelled call: an uninterpreted function of the operands
        try:
            f = z3.Function('cell_' + name.lower(), Cell, Cell, Cell)
            return SV(f(it.cell_of(a), it.cell_of(b)))
        except Unsupported:
            pass
    if name == 'BitOr' and isinstance(a, SetV) and isinstance(b, SetV):
        k = z3.Const('__e', a.elem_sort)
        return SetV(z3.Lambda([k], z3.Or(a.arr[k], b.arr[k])), a.elem_sort)
    raise Unsupported('binop %s on %r, %r' % (name, a, b))


class BytesV:
    """a bytes literal (opaque constant)"""

    def __init__(self, b):
        self.b = b
        self.oid = new_oid()


OPAQUE_EQ = z3.Function('opaque_eq', IntS, IntS, BoolS)


def values_equal(it, a, b):
    """python bool or z3 Bool for a == b"""
    if a is b and not isinstance(a, float):
        return True
    if isinstance(a, BytesV) and isinstance(b, BytesV):
        return a.b == b.b
    for x, y in ((a, b), (b, a)):
        if isinstance(x, SV) and z3.is_fp_sort(x.t.sort()):
            if isinstance(y, SV) and z3.is_fp_sort(y.t.sort()):
                return z3.fpEQ(x.t, y.t)
            if isinstance(y, (int, float)) and not isinstance(y, bool):
                return z3.fpEQ(x.t, z3.FPVal(float(y), x.t.sort()))
            return False
    for x, y in ((a, b), (b, a)):
        if isinstance(x, Opaque) and x.kind in ('result', 'item', 'dictval', 'listelem') and not isinstance(y, Opaque):
            # value returned by an unmodelled call compared with something: unknown but fixed
            yid = y.oid if hasattr(y, 'oid') else (hash(repr(y)) % (2 ** 31))
            return OPAQUE_EQ(z3.IntVal(x.oid), z3.IntVal(yid))
    if isinstance(a, (PyList, tuple)) and isinstance(b, (PyList, tuple)):
        if type(a) is not type(b) and not (isinstance(a, tuple) and isinstance(b, tuple)):
            return False
        xa = a.items if isinstance(a, PyList) else a
        xb = b.items if isinstance(b, PyList) else b
        if len(xa) != len(xb):
            return False
        rs = [values_equal(it, x, y) for x, y in zip(xa, xb)]
        if any(r is False for r in rs):
            return False
        rs = [r for r in rs if r is not True]
        return True if not rs else z3.And(*rs)
    consts = (type(None), bool, int, str, float)
    if isinstance(a, consts) and isinstance(b, consts):
        return a == b
    if isinstance(a, (SV,) + consts) and isinstance(b, (SV,) + consts):
        sa, sb = sort_of(a), sort_of(b)
        if sa is not None and sb is not None and sa.eq(sb):
            return z3.simplify(term(a) == term(b))
        if (sa is not None and z3.is_seq(term(a)) and not sa.eq(StrS)) or (sb is not None and z3.is_seq(term(b)) and not sb.eq(StrS)):
            if sa is not None and sb is not None:
                return False if not sa.eq(sb) else term(a) == term(b)
        try:
            return z3.simplify(it.cell_of(a) == it.cell_of(b))
        except Unsupported:
            pass
    if isinstance(a, Row) and isinstance(b, Row):
        return row_eq(a, b)
    if isinstance(a, (Obj, ExcV)) or isinstance(b, (Obj, ExcV)):
        if isinstance(a, (Opaque, Instance, Stream, GenObj, ExcV, Tree)) or isinstance(b, (Opaque, Instance, Stream, GenObj, ExcV, Tree)):
            if isinstance(a, consts) or isinstance(b, consts):
                return False
            return a is b
    if isinstance(a, (FuncDefV, ClassV, Builtin, UFunc)) or isinstance(b, (FuncDefV, ClassV, Builtin, UFunc)):
        return a is b
    raise Unsupported('== on %r, %r' % (a, b))


def row_eq(a, b):
    k = z3.Const('__rk', StrS)
    return z3.And(a.dom == b.dom, z3.ForAll([k], z3.Implies(a.dom[k], a.val[k] == b.val[k])))


def contains(it, container, x):
    if isinstance(container, Row):
        return container.dom[term(x, StrS)]
    if isinstance(container, PyDict):
        rs = []
        for k in container.d:
            r = values_equal(it, k, x)
            if r is True:
                return True
            if r is not False:
                rs.append(r)
        return z3.Or(*rs) if rs else False
    if isinstance(container, (PyList, tuple)):
        items = container.items if isinstance(container, PyList) else container
        rs = []
        for k in items:
            r = values_equal(it, k, x)
            if r is True:
                return True
            if r is not False:
                rs.append(r)
        return z3.Or(*rs) if rs else False
    if isinstance(container, SetV):
        if getattr(container, 'history', None) is not None:
            # a set attribute that methods fill: after an arbitrary earlier use it may hold the element or not; a verdict reached
            # through this test needs an invariant over the set that the contract does not state
            if container.elem_sort is None:
                _fix_emptyset(it, container, x)
                if container.elem_sort is not None:
                    container.arr = it.fresh('hist_set', container.arr.sort())
            it.path.info.setdefault('needs_invariant', 'a set attribute filled by earlier calls was tested for membership')
        _fix_emptyset(it, container, x)
        mem = set_members(container)
        if mem is not None and _concrete_elem(x) and getattr(container, 'history', None) is None:
            return any(type(y) is type(x) and y == x for y in mem)
        return container.arr[elem_term(it, x, container.elem_sort)]
    if isinstance(container, SymSeq):
        t = container.term
        if z3.is_seq(t):
            return z3.Contains(t, z3.Unit(term(x, t.sort().basis())))
        raise Unsupported('membership in opaque sequence')
    if isinstance(container, SymList):
        rs = []
        for k in container.items:
            r = values_equal(it, k, x)
            if r is True:
                return True
            if r is not False:
                rs.append(r)
        if container.prefix is not None:
            rs.append(contains(it, container.prefix, x))
        return z3.Or(*rs) if rs else False
    if isinstance(container, (str, SV)) and (isinstance(x, str) or (isinstance(x, SV) and x.t.sort().eq(StrS))):
        ct = term(container)
        if ct.sort().eq(StrS):
            return z3.Contains(ct, term(x, StrS))
    if isinstance(container, Tree):
        return tree_has(it, container, x)
    if isinstance(container, CompSeq):
        if isinstance(container.elem, tuple):
            raise Unsupported('membership in comprehension of tuples')
        et = term(container.elem)
        xt = term(x, et.sort())
        cond = z3.And(*container.conds) if container.conds else z3.BoolVal(True)
        return DEFS.sym('ANY', container.src.bases(), container.vars, [z3.And(cond, et == xt)], BoolS)
    if isinstance(container, Opaque):
        c = container.attrs.get('__contains__')
        if c is None:
            mk = OPAQUE_KINDS.get(container.kind, {}).get('__contains__')
            if mk is not None:
                c = mk(it, container)
                container.attrs['__contains__'] = c
        if c is not None:
            return c(it, x)
    raise Unsupported('in on %r' % (container,))


def elem_term(it, x, sort):
    """z3 term of sort `sort` for set element / key x (tuples become Seq(Cell))"""
    if isinstance(x, tuple) and sort.eq(CellSeq):
        if not x:
            return z3.Empty(CellSeq)
        us = [z3.Unit(it.cell_of(e)) for e in x]
        return us[0] if len(us) == 1 else z3.Concat(*us)
    if isinstance(x, CompSeq) and sort.eq(CellSeq):
        # tuple(<comprehension>) of cells
        et = it.cell_of(x.elem)
        return DEFS.sym('MAPSEQ', x.src.bases(), x.vars, [et] + list(x.conds), CellSeq)
    if isinstance(x, SV) and x.t.sort().eq(sort):
        return x.t
    if sort.eq(Cell):
        return it.cell_of(x)
    return term(x, sort)


def compare(it, op, a, b):
    name = op.__class__.__name__
    if name in ('Eq', 'NotEq'):
        r = values_equal(it, a, b)
        if name == 'Eq':
            return r if isinstance(r, bool) else wrap(r)
        return (not r) if isinstance(r, bool) else wrap(z3.Not(r))
    if name in ('Is', 'IsNot'):
        r = identical(it, a, b)
        if name == 'Is':
            return r if isinstance(r, bool) else wrap(r)
        return (not r) if isinstance(r, bool) else wrap(z3.Not(r))
    if name in ('In', 'NotIn'):
        r = contains(it, b, a)
        if name == 'In':
            return r if isinstance(r, bool) else wrap(r)
        return (not r) if isinstance(r, bool) else wrap(z3.Not(r))
    # ordering
    for x, y, flip in ((a, b, False), (b, a, True)):
        if isinstance(x, SV) and z3.is_fp_sort(x.t.sort()):
            if isinstance(y, SV) and z3.is_fp_sort(y.t.sort()):
                ty = y.t
            elif isinstance(y, (int, float)) and not isinstance(y, bool):
                ty = z3.FPVal(float(y), x.t.sort())
            else:
                raise Unsupported('ordering of a float against %r' % (y,))
            l, r = (x.t, ty) if not flip else (ty, x.t)
            return wrap({'Lt': z3.fpLT(l, r), 'LtE': z3.fpLEQ(l, r), 'Gt': z3.fpGT(l, r), 'GtE': z3.fpGEQ(l, r)}[name])
    sa, sb = _num_sort(a), _num_sort(b)
    if isinstance(a, (int, float)) and isinstance(b, (int, float)):
        return {'Lt': a < b, 'LtE': a <= b, 'Gt': a > b, 'GtE': a >= b}[name]
    if sa is not None and sb is not None:
        ta, tb = term(a), term(b)
        if not ta.sort().eq(tb.sort()):
            ta = z3.ToReal(ta) if ta.sort().eq(IntS) else ta
            tb = z3.ToReal(tb) if tb.sort().eq(IntS) else tb
        return wrap({'Lt': ta < tb, 'LtE': ta <= tb, 'Gt': ta > tb, 'GtE': ta >= tb}[name])
    if isinstance(a, str) and isinstance(b, str):
        return {'Lt': a < b, 'LtE': a <= b, 'Gt': a > b, 'GtE': a >= b}[name]
    # opaque cells: one uninterpreted total pre-order
    try:
        ca, cb = it.cell_of(a), it.cell_of(b)
    except Unsupported:
        raise Unsupported('ordering of %r, %r' % (a, b))
    lt = z3.Function('cell_lt', Cell, Cell, BoolS)
    it.assumptions.add('ordering of opaque cells is an uninterpreted relation cell_lt')
    if name == 'Lt':
        return wrap(lt(ca, cb))
    if name == 'Gt':
        return wrap(lt(cb, ca))
    if name == 'LtE':
        return wrap(z3.Not(lt(cb, ca)))
    return wrap(z3.Not(lt(ca, cb)))


def identical(it, a, b):
    if a is None or b is None:
        if a is None and b is None:
            return True
        other = b if a is None else a
        if isinstance(other, MatchOrNone):
            return z3.Not(other.ok)
        if isinstance(other, SV):
            if other.t.sort().eq(Cell):
                return Cell.is_none(other.t)
            return False
        return False
    if isinstance(a, bool) and isinstance(b, bool):
        return a is b
    if isinstance(a, bool) or isinstance(b, bool):
        other, c = (b, a) if isinstance(a, bool) else (a, b)
        if isinstance(other, SV):
            if other.t.sort().eq(BoolS):
                return other.t == c
            if other.t.sort().eq(Cell):
                return z3.And(Cell.is_bool(other.t), Cell.b(other.t) == c)
            return False
        return False
    if isinstance(a, (Obj, ExcV, FuncDefV, ClassV)) or isinstance(b, (Obj, ExcV, FuncDefV, ClassV)):
        return a is b
    r = values_equal(it, a, b)
    return r


# ------------------------------------------------------------------------------------------------
# attribute / item access

def lib_classes_of(it):
    return it.lib_classes()


def find_method(cls, name):
    seen = set()
    stack = [cls]
    while stack:
        c = stack.pop(0)
        if isinstance(c, str) or c is None or c.name in seen:
            continue
        seen.add(c.name)
        if name in c.methods:
            return c.methods[name]
        stack.extend(b for b in c.bases if isinstance(b, ClassV))
    return None


def find_class_attr(cls, name):
    seen = set()
    stack = [cls]
    while stack:
        c = stack.pop(0)
        if isinstance(c, str) or c is None or c.name in seen:
            continue
        seen.add(c.name)
        if name in c.attrs:
            return True, c.attrs[name]
        stack.extend(b for b in c.bases if isinstance(b, ClassV))
    return False, None


def getattr_(it, obj, name):
    if isinstance(obj, MatchOrNone):
        if name == 'expand':
            return BoundMethod(obj, 'expand', lambda it_, recv, template: _match_expand(it_, recv, template))
        raise Unsupported('attribute %s of a match object' % name)
    if isinstance(obj, ModuleV):
        if name in obj.attrs:
            v = obj.attrs[name]
            if isinstance(v, Unresolved):
                raise Unsupported('module attribute %s.%s could not be evaluated: %s' % (obj.name, name, v.why))
            return v
        if getattr(obj, 'relpath', None):
            raise Unsupported('repository module %s has no attribute %s (circular import?)' % (obj.name, name))
        return external_attr(it, obj, name)
    if isinstance(obj, Instance):
        if name in obj.attrs:
            return obj.attrs[name]
        if name == '__class__':
            return obj.cls
        m = find_method(obj.cls, name)
        if m is not None:
            if getattr(m, 'is_static', False):
                return m
            if getattr(m, 'is_property', False):
                return it.call_funcdef_forced(m, [obj], {})
            return BoundMethod(obj, name, lambda it_, recv, *a, **k: it_.call(m, [recv] + list(a), k))
        ok, v = find_class_attr(obj.cls, name)
        if ok:
            return v
        it.raise_('AttributeError', name)
    if isinstance(obj, ClassV):
        if name == '__name__':
            return obj.name
        m = find_method(obj, name)
        if m is not None:
            return m
        ok, v = find_class_attr(obj, name)
        if ok:
            return v
        raise Unsupported('class attribute %s.%s' % (obj.name, name))
    if isinstance(obj, Opaque):
        if name in obj.attrs:
            v = obj.attrs[name]
            return v
        mk = OPAQUE_KINDS.get(obj.kind, {}).get(name)
        if mk is not None:
            v = mk(it, obj)
            if not getattr(mk, 'volatile', False):
                obj.attrs[name] = v
            return v
        # unknown attribute of an abstract object: an effect method
        return BoundMethod(obj, name, lambda it_, recv, *a, **k: call_opaque(it_, recv, name, a, k))
    if isinstance(obj, ExcV):
        if name in obj.attrs:
            return obj.attrs[name]
        if name == 'args':
            return tuple(obj.args)
        if name == '__cause__':
            return obj.cause
        if obj.cls is None:
            # attribute of an arbitrary exception object (e.g. e.errors)
            if name == 'errors':
                # list of error details that is only logged: its contents do not matter (logging is a no-op, DESIGN 2.4)
                obj.attrs[name] = PyList([])
                return obj.attrs[name]
            v = Opaque('excattr', '%s.%s' % (obj.term, name))
            obj.attrs[name] = v
            return v
        it.raise_('AttributeError', name)
    if isinstance(obj, TypeV) and name in getattr(obj, 'attrs_static', {}):
        return obj.attrs_static[name]
    if isinstance(obj, SuperV):
        for b in obj.cls.bases:
            if isinstance(b, ClassV):
                m = find_method(b, name)
                if m is not None:
                    inst = obj.inst
                    return BoundMethod(inst, name, lambda it_, recv, *a, **k: it_.call(m, [recv] + list(a), k))
        if name == '__init__':
            return Builtin('object.__init__', lambda it_, *a, **k: None)
        raise Unsupported('super().%s' % name)
    if isinstance(obj, RegexV):
        if name == 'pattern':
            return obj.pattern
        if name in ('match', 'fullmatch', 'search', 'sub', 'findall'):
            return BoundMethod(obj, name, REGEX_METHODS[name])
    if isinstance(obj, FuncDefV):
        if name == '__name__':
            return obj.name
        if name in getattr(obj, 'fattrs', {}):
            return obj.fattrs[name]
    meths = method_table(obj)
    if meths is not None and name in meths:
        return BoundMethod(obj, name, meths[name])
    if isinstance(obj, GenExp):
        raise Unsupported('attribute of generator expression')
    raise Unsupported('attribute %s of %r' % (name, obj))


def setattr_(it, obj, name, v):
    if isinstance(obj, Instance):
        obj.attrs[name] = v
        return
    if isinstance(obj, Opaque):
        it.emit(Ev('SetAttr', obj=obj, name=name, value=v))
        obj.attrs[name] = v
        return
    if isinstance(obj, FuncDefV):
        if not hasattr(obj, 'fattrs'):
            obj.fattrs = {}
        obj.fattrs[name] = v
        return
    if isinstance(obj, ExcV):
        obj.attrs[name] = v
        return
    raise Unsupported('setattr on %r' % (obj,))


def norm_index(it, i, n):
    if isinstance(i, bool) or not isinstance(i, int):
        raise Unsupported('symbolic list index')
    if i < 0:
        i += n
    if not 0 <= i < n:
        it.raise_('IndexError', 'list index out of range')
    return i


def _note_row_read(it, row):
    # (ghost) a contract may ask for the READS of rows to be traced: "after a row was handed downstream it is not looked at again"
    if getattr(it, 'track_row_reads', False):
        it.emit(Ev('RowRead', obj=row))


def getitem(it, obj, key):
    if isinstance(obj, Row):
        _note_row_read(it, obj)
        k = term(key, StrS)
        if it.term_mode:
            it.guards[-1].append((obj.dom[k], 'KeyError'))
            return it.uncell(obj.val[k])
        if not it.branch(obj.dom[k]):
            raise PyExc(ExcV('KeyError', (key,)))
        return it.uncell(obj.val[k])
    if isinstance(obj, PyDict):
        for k, v in obj.d.items():
            r = values_equal(it, k, key)
            if r is True or (r is not False and it.branch(r)):
                return v
        if getattr(obj, 'history', None) is not None:
            # contents left by an arbitrary earlier use of the owning object: the key may be present, holding ANY value
            if it.decide(2, lambda i: True) == 0:
                v = it.uncell(it.fresh('hist_entry', Cell))
                obj.d[key] = v
                it.path.info['needs_invariant'] = 'a dict attribute filled by earlier calls was read and had the key'
                return v
            raise PyExc(ExcV('KeyError', (key,)))
        if getattr(obj, 'havocked', None) is not None:
            # accumulator filled by a cut loop: the entry exists (assumption recorded) and is opaque
            it.assumptions.add('dict accumulators filled per resource in the package phase have an entry for every '
                               'resource name seen in the stream phase (names agree: C01 pairing)')
            return _havocked_entry(it, obj, key)
        raise PyExc(ExcV('KeyError', (key,)))
    if isinstance(obj, (PyList, tuple)):
        items = obj.items if isinstance(obj, PyList) else obj
        if isinstance(key, slice):
            if any(isinstance(x, SV) for x in (key.start, key.stop, key.step)):
                raise Unsupported('symbolic slice')
            r = items[key]
            return PyList(r) if isinstance(obj, PyList) else tuple(r)
        return items[norm_index(it, key, len(items))]
    if isinstance(obj, SymList):
        if obj.prefix is None:
            return getitem(it, PyList(obj.items), key)
        if isinstance(key, int) and key < 0 and -key <= len(obj.items):
            return obj.items[key]
        if isinstance(key, slice):
            return havoc_list(it, 'slice', obj)
        if not obj.items and getattr(obj.prefix, 'at', None) is not None:
            return obj.prefix.at(it, key)
        if getattr(obj.prefix, 'mk_elem', None) is not None and obj.prefix.name.startswith('hv_'):
            # some element of a list whose contents are unknown (IndexError if empty is out of model: assumption)
            it.assumptions.add('indexing a list with unknown contents yields an arbitrary element (IndexError not modelled)')
            return obj.prefix.mk_elem(it)[0]
        raise Unsupported('index into symbolic list')
    if isinstance(obj, Tree):
        return tree_get(it, obj, key, strict=True)
    if isinstance(obj, (str, SV)):
        t = term(obj)
        if t.sort().eq(StrS):
            return str_index(it, t, key)
        if t.sort().eq(Cell):
            if it.term_mode and it.guards:
                # inside a term: subscripting a cell that is not a string is an implicit TypeError (guarded)
                it.guards[-1].append((Cell.is_str(t), 'TypeError'))
                return str_index(it, Cell.s(t), key)
            raise Unsupported('subscript of opaque cell')
    if isinstance(obj, SymSeq):
        raise Unsupported('index into opaque sequence')
    if isinstance(obj, Opaque):
        g = obj.attrs.get('__getitem__') or OPAQUE_KINDS.get(obj.kind, {}).get('__getitem__')
        if g is not None:
            return g(it, obj, key)
    raise Unsupported('getitem on %r' % (obj,))


def str_index(it, t, key):
    n = z3.Length(t)
    if isinstance(key, slice):
        if key.step is not None:
            raise Unsupported('string slice step')
        lo = key.start if key.start is not None else 0
        hi = key.stop

        def pos(x):
            if isinstance(x, int):
                return z3.IntVal(x) if x >= 0 else z3.If(n + x > 0, n + x, 0)
            tx = term(x, IntS)
            return z3.If(tx >= 0, tx, z3.If(n + tx > 0, n + tx, 0))
        lo_t = pos(lo)
        hi_t = n if hi is None else pos(hi)
        lo_t = z3.If(lo_t > n, n, lo_t)
        hi_t = z3.If(hi_t > n, n, hi_t)
        return wrap(z3.If(hi_t > lo_t, z3.SubString(t, lo_t, hi_t - lo_t), z3.StringVal('')))
    if isinstance(key, int):
        idx = z3.IntVal(key) if key >= 0 else n + key
    else:
        tk = term(key, IntS)
        idx = z3.If(tk >= 0, tk, n + tk)
    ok = z3.And(idx >= 0, idx < n)
    if it.term_mode:
        it.guards[-1].append((ok, 'IndexError'))
    elif not it.branch(ok):
        it.raise_('IndexError', 'string index out of range')
    return wrap(z3.SubString(t, idx, 1))


def setitem(it, obj, key, v):
    if it.term_mode and not (it.map_loop_mode and isinstance(obj, Row)):
        raise Unsupported('mutation inside symbolic comprehension body')
    if isinstance(obj, Row):
        k = term(key, StrS)
        it.emit(Ev('RowWrite', obj=obj, key=k, value=v))
        obj.dom = z3.Store(obj.dom, k, z3.BoolVal(True))
        obj.val = z3.Store(obj.val, k, it.cell_of(v))
        return
    if isinstance(obj, PyDict):
        for k in list(obj.d):
            r = values_equal(it, k, key)
            if r is True or (r is not False and it.branch(r)):
                obj.d[k] = v
                return
        if isinstance(key, (SV,)) :
            # a symbolic key that differs from all present keys on this path
            obj.d[key] = v
            return
        obj.d[key] = v
        return
    if isinstance(obj, PyList):
        obj.items[norm_index(it, key, len(obj.items))] = v
        return
    if isinstance(obj, Tree):
        return tree_set(it, obj, key, v)
    if isinstance(obj, Opaque):
        s = obj.attrs.get('__setitem__') or OPAQUE_KINDS.get(obj.kind, {}).get('__setitem__')
        if s is not None:
            return s(it, obj, key, v)
        it.emit(Ev('Call', target=obj, method='__setitem__', args=(snap(it, key), snap(it, v)), kwargs={}, result=None))
        return
    raise Unsupported('setitem on %r' % (obj,))


def delitem(it, obj, key):
    if isinstance(obj, Opaque) and obj.kind in ('dictval', 'result', 'listelem', 'item'):
        it.emit(Ev('Call', target=obj, method='__delitem__', args=(snap(it, key),), kwargs={}, result=None, objs=(key,)))
        return
    if isinstance(obj, Row):
        k = term(key, StrS)
        if not it.branch(obj.dom[k]):
            raise PyExc(ExcV('KeyError', (key,)))
        obj.dom = z3.Store(obj.dom, k, z3.BoolVal(False))
        return
    if isinstance(obj, PyDict):
        for k in list(obj.d):
            r = values_equal(it, k, key)
            if r is True or (r is not False and it.branch(r)):
                del obj.d[k]
                return
        raise PyExc(ExcV('KeyError', (key,)))
    if isinstance(obj, Tree):
        return tree_del(it, obj, key)
    raise Unsupported('delitem on %r' % (obj,))


def unpack(it, v, n):
    if isinstance(v, tuple):
        items = list(v)
    elif isinstance(v, PyList):
        items = list(v.items)
    elif isinstance(v, Opaque) and '__unpack__' in v.attrs:
        items = v.attrs['__unpack__'](it, n)
    elif isinstance(v, Opaque):
        items = []
        for i in range(n):
            k = '__item%d' % i
            if k not in v.attrs:
                v.attrs[k] = Opaque('item', '%s[%d]' % (v.name, i))
            items.append(v.attrs[k])
    else:
        raise Unsupported('unpack of %r' % (v,))
    if len(items) != n:
        it.raise_('ValueError', 'unpack')
    return items


def snap(it, v):
    """immutable snapshot of a value for the trace"""
    if isinstance(v, Row):
        return v.snapshot()
    if isinstance(v, tuple):
        return tuple(snap(it, x) for x in v)
    if isinstance(v, PyList):
        return ('list',) + tuple(snap(it, x) for x in v.items)
    if isinstance(v, PyDict):
        return ('dict',) + tuple((snap(it, k), snap(it, x)) for k, x in v.d.items())
    return v


# ------------------------------------------------------------------------------------------------
# descriptor trees (lazy)

def _tree_key(key):
    if isinstance(key, str):
        return key
    raise Unsupported('descriptor key must be a literal string, got %r' % (key,))


def tree_has(it, node, key):
    key = _tree_key(key)
    if key not in node.has:
        node.has[key] = it.fresh('has_%s.%s' % (node.name, key), BoolS)
        node.init_has[key] = node.has[key]
    return node.has[key]


def tree_child(it, node, key):
    key = _tree_key(key)
    if key not in node.children:
        mk = getattr(node, 'schema', {}).get(key)
        if mk is not None:
            c = mk(it, node, key)
        else:
            c = Tree('%s.%s' % (node.name, key))
            c.schema = getattr(node, 'subschema', {}).get(key, {})
        if isinstance(c, Obj):
            c.parent = node
        node.children[key] = c
        node.init_children[key] = c
    return node.children[key]


def tree_get(it, node, key, strict=False, default=None, setdefault=False):
    h = tree_has(it, node, key)
    if it.branch(h):
        return tree_child(it, node, key)
    if strict:
        raise PyExc(ExcV('KeyError', (key,)))
    if setdefault:
        tree_set(it, node, key, default)
    return default


def tree_set(it, node, key, v):
    key = _tree_key(key)
    tree_has(it, node, key)
    node.has[key] = True
    node.children[key] = v
    node.writes.append((key, v))
    it.emit(Ev('TreeWrite', node=node, key=key, value=v))


def tree_del(it, node, key):
    key = _tree_key(key)
    if not it.branch(tree_has(it, node, key)):
        raise PyExc(ExcV('KeyError', (key,)))
    node.has[key] = False
    node.children.pop(key, None)
    node.writes.append((key, '<deleted>'))
    it.emit(Ev('TreeWrite', node=node, key=key, value='<deleted>'))


class Unresolved:
    def __init__(self, why):
        self.why = why


# ------------------------------------------------------------------------------------------------
# methods of modelled containers

def _row_get(it, row, key, default=None):
    _note_row_read(it, row)
    k = term(key, StrS)
    if default is None:
        return it.uncell(z3.If(row.dom[k], row.val[k], Cell.none))
    try:
        return it.uncell(z3.If(row.dom[k], row.val[k], it.cell_of(default)))
    except Unsupported:
        if it.branch(row.dom[k]):
            return it.uncell(row.val[k])
        return default


def _row_items(it, row):
    _note_row_read(it, row)
    return RowItemsSource(row, 'items')


def _row_keys(it, row):
    _note_row_read(it, row)
    return RowItemsSource(row, 'keys')


def _row_values(it, row):
    _note_row_read(it, row)
    return RowItemsSource(row, 'values')


def _row_update(it, row, other=None, **kw):
    if it.term_mode:
        raise Unsupported('mutation in term mode')
    if other is not None:
        if isinstance(other, GenExp):
            other = consume_comp(it, other, 'dict')
        if isinstance(other, Row):
            k = z3.Const('__uk', StrS)
            it.emit(Ev('RowUpdate', obj=row, other=other.snapshot()))
            row.dom, row.val = (z3.Lambda([k], z3.Or(row.dom[k], other.dom[k])),
                                z3.Lambda([k], z3.If(other.dom[k], other.val[k], row.val[k])))
        elif isinstance(other, PyDict):
            for k, v in other.d.items():
                setitem(it, row, k, v)
        elif isinstance(other, (PyList, tuple)):
            for pair in (other.items if isinstance(other, PyList) else other):
                k, v = unpack(it, pair, 2)
                setitem(it, row, k, v)
        else:
            raise Unsupported('row.update(%r)' % (other,))
    for k, v in kw.items():
        setitem(it, row, k, v)
    return None


def _row_setdefault(it, row, key, default=None):
    k = term(key, StrS)
    if it.branch(row.dom[k]):
        return it.uncell(row.val[k])
    setitem(it, row, key, default)
    return default


def _row_pop(it, row, key, *default):
    k = term(key, StrS)
    if it.branch(row.dom[k]):
        v = it.uncell(row.val[k])
        row.dom = z3.Store(row.dom, k, z3.BoolVal(False))
        it.emit(Ev('RowDelete', obj=row, key=k))
        return v
    if default:
        return default[0]
    raise PyExc(ExcV('KeyError', (key,)))


def _row_copy(it, row):
    _note_row_read(it, row)
    return Row(row.dom, row.val, name=(row.name or 'row') + '_copy')


ROW_METHODS = {'get': _row_get, 'items': _row_items, 'keys': _row_keys, 'values': _row_values,
               'update': _row_update, 'setdefault': _row_setdefault, 'pop': _row_pop, 'copy': _row_copy}


def dict_set(it, d, k, v):
    setitem(it, d, k, v)
    return d


def dict_merge(it, d, src):
    """{**src} semantics; returns the target (may change representation)"""
    if isinstance(src, PyDict):
        for k, v in src.d.items():
            setitem(it, d, k, v)
        return d
    if isinstance(src, Row):
        if isinstance(d, PyDict):
            r = Row(src.dom, src.val, name='merged')
            for k, v in d.d.items():
                # earlier keys are overridden by later ones: src comes after d's existing entries
                pass
            if d.d:
                base = Row(z3.K(StrS, z3.BoolVal(False)), z3.K(StrS, Cell.none), name='merged')
                for k, v in d.d.items():
                    setitem(it, base, k, v)
                _row_update(it, base, src)
                return base
            return r
        if isinstance(d, Row):
            _row_update(it, d, src)
            return d
    raise Unsupported('dict merge of %r' % (src,))


def kwargs_of(it, v):
    if isinstance(v, PyDict):
        out = {}
        for k, x in v.d.items():
            if not isinstance(k, str):
                raise Unsupported('symbolic keyword name')
            out[k] = x
        return out
    if isinstance(v, Row):
        return {'**row': v}
    raise Unsupported('** of %r' % (v,))


def _havocked_entry(it, d, key):
    v = Opaque('dictval', 'acc[%s]' % (key,))
    n = it.fresh('acc_len', IntS)
    it.assume(n >= 0)
    v.attrs['__len__'] = SV(n)
    d.d[key] = v
    return v


def _pd_get(it, d, key, default=None):
    for k, v in d.d.items():
        r = values_equal(it, k, key)
        if r is True or (r is not False and it.branch(r)):
            return v
    if getattr(d, 'history', None) is not None:
        if it.decide(2, lambda i: True) == 0:
            v = it.uncell(it.fresh('hist_entry', Cell))
            d.d[key] = v
            it.path.info['needs_invariant'] = 'a dict attribute filled by earlier calls was read and had the key'
            return v
        return default
    if getattr(d, 'havocked', None) is not None:
        # contents unknown (filled by a cut loop / earlier history): the key may or may not be present
        if it.decide(2, lambda i: True) == 0:
            return _havocked_entry(it, d, key)
    return default


def _pd_setdefault(it, d, key, default=None):
    for k, v in d.d.items():
        r = values_equal(it, k, key)
        if r is True or (r is not False and it.branch(r)):
            return v
    if getattr(d, 'history', None) is not None and it.decide(2, lambda i: True) == 0:
        v = it.uncell(it.fresh('hist_entry', Cell))
        d.d[key] = v
        it.path.info['needs_invariant'] = 'a dict filled by earlier calls was read and had the key'
        return v
    d.d[key] = default
    return default


def _pd_pop(it, d, key, *default):
    for k, v in list(d.d.items()):
        r = values_equal(it, k, key)
        if r is True or (r is not False and it.branch(r)):
            del d.d[k]
            return v
    if default:
        return default[0]
    raise PyExc(ExcV('KeyError', (key,)))


def _pd_update(it, d, other=None, **kw):
    if other is not None:
        if isinstance(other, GenExp):
            other = consume_comp(it, other, 'list')
        if isinstance(other, PyDict):
            for k, v in other.d.items():
                setitem(it, d, k, v)
        elif isinstance(other, (PyList, tuple)):
            for pair in (other.items if isinstance(other, PyList) else other):
                k, v = unpack(it, pair, 2)
                setitem(it, d, k, v)
        else:
            raise Unsupported('dict.update(%r)' % (other,))
    for k, v in kw.items():
        setitem(it, d, k, v)


PYDICT_METHODS = {
    'get': _pd_get, 'setdefault': _pd_setdefault, 'pop': _pd_pop, 'update': _pd_update,
    'items': lambda it, d: PyList([(k, v) for k, v in d.d.items()]),
    'keys': lambda it, d: PyList(list(d.d.keys())),
    'values': lambda it, d: PyList(list(d.d.values())),
    'copy': lambda it, d: PyDict(d.d),
}


def _list_append(it, l, v):
    if it.term_mode:
        raise Unsupported('mutation in term mode')
    l.items.append(v)
    it.emit(Ev('Append', obj=l, value=snap(it, v), raw=v))


def _list_extend(it, l, other):
    if isinstance(other, SymList) and other.prefix is not None:
        # extending with a list of unknown contents: recorded as an effect; the target's contents become unknown
        it.emit(Ev('Call', target=l, method='extend', args=(), kwargs={}, result=None, objs=(other,)))
        if isinstance(l, SymList):
            l.items.append(Opaque('listelem', 'extended'))
        return None
    kind, items = iterate(it, other)
    if kind != 'concrete':
        raise Unsupported('extend with symbolic iterable')
    for v in items:
        _list_append(it, l, v)


def _list_pop(it, l, idx=-1):
    if isinstance(l, SymList) and l.prefix is not None:
        if idx == 0 or (isinstance(idx, int) and idx < 0 and -idx > len(l.items)):
            raise Unsupported('pop from symbolic prefix')
    if not l.items:
        it.raise_('IndexError', 'pop from empty list')
    return l.items.pop(norm_index(it, idx, len(l.items)) if isinstance(l, PyList) else idx)


def _list_clear(it, l):
    l.items.clear()
    if isinstance(l, SymList):
        l.prefix = None


def _list_index(it, l, x):
    for i, v in enumerate(l.items):
        r = values_equal(it, v, x)
        if r is True or (r is not False and it.branch(r)):
            return i
    it.raise_('ValueError', 'not in list')


def _list_remove(it, l, x):
    i = _list_index(it, l, x)
    del l.items[i]


def _list_popleft(it, l):
    # collections.deque modelled as a list: popleft() == pop(0)
    return _list_pop(it, l, 0)


LIST_METHODS = {'append': _list_append, 'extend': _list_extend, 'pop': _list_pop, 'index': _list_index, 'popleft': _list_popleft,
                'remove': _list_remove,
                'clear': lambda it, l: _list_clear(it, l),
                'copy': lambda it, l: PyList(l.items) if isinstance(l, PyList) else SymList(l.prefix, l.items),
                'insert': lambda it, l, i, v: l.items.insert(i, v) if isinstance(l, PyList) and isinstance(i, int) else _unsup('insert')}


def _unsup(msg):
    raise Unsupported(msg)


def _concrete_elem(x):
    return isinstance(x, (str, int, bool)) or x is None


def _cur_arr(s):
    return s._arr if isinstance(s, EmptySet) else s.arr


def set_members(s):
    """the concrete members of a set that was built from (and only ever extended by) concrete scalars, else None; tied to the
    identity of the array term, so any other assignment to s.arr (a loop havoc, a history) invalidates it"""
    m = getattr(s, '_members', None)
    if m is not None and m[0] is _cur_arr(s):
        return m[1]
    return None


def _note_members(s, lst):
    s._members = (_cur_arr(s), lst) if lst is not None else None


def _set_add(it, s, x):
    if it.term_mode:
        raise Unsupported('mutation in term mode')
    before = set_members(s)
    e = elem_term(it, x, s.elem_sort)
    s.arr = z3.Store(s.arr, e, z3.BoolVal(True))
    if before is not None and _concrete_elem(x):
        _note_members(s, before + ([x] if not any(type(y) is type(x) and y == x for y in before) else []))
    else:
        _note_members(s, None)
    it.emit(Ev('SetAdd', obj=s, elem=e))


def _set_union(it, s, *others):
    arr = s.arr
    for o in others:
        if isinstance(o, SetV):
            k = z3.Const('__e', s.elem_sort)
            arr = z3.Lambda([k], z3.Or(arr[k], o.arr[k]))
        else:
            kind, items = iterate(it, o)
            if kind != 'concrete':
                raise Unsupported('union with symbolic iterable')
            for x in items:
                arr = z3.Store(arr, elem_term(it, x, s.elem_sort), z3.BoolVal(True))
    return SetV(arr, s.elem_sort)


def _set_update(it, s, *others):
    # s.update(iterable, ...): in-place union with concrete iterables / other sets
    if it.term_mode:
        raise Unsupported('mutation in term mode')
    for o in others:
        if isinstance(o, GenExp):
            o = consume_comp(it, o, 'list')
        if isinstance(o, SetV):
            if isinstance(s, EmptySet) and s.elem_sort is None:
                s._fix(o.elem_sort)
            k = z3.Const('__e', s.elem_sort)
            s.arr = z3.Lambda([k], z3.Or(s.arr[k], o.arr[k]))
            it.emit(Ev('SetUpdate', obj=s))
            continue
        kind, items = iterate(it, o)
        if kind != 'concrete':
            raise Unsupported('set.update with a symbolic iterable')
        for x in items:
            SET_METHODS['add'](it, s, x)


SET_METHODS = {'add': _set_add, 'union': _set_union, 'update': _set_update}


def make_set(it, items, elem_sort=None):
    if elem_sort is None:
        if items and all(isinstance(x, tuple) or isinstance(x, CompSeq) for x in items):
            elem_sort = CellSeq
        elif items and all(sort_of(x) is not None and sort_of(x).eq(StrS) for x in items):
            elem_sort = StrS
        elif items:
            elem_sort = Cell
        else:
            return EmptySet()
    arr = z3.K(elem_sort, z3.BoolVal(False))
    for x in items:
        arr = z3.Store(arr, elem_term(it, x, elem_sort), z3.BoolVal(True))
    r = SetV(arr, elem_sort)
    if all(_concrete_elem(x) for x in items):
        mem = []
        for x in items:
            if not any(type(y) is type(x) and y == x for y in mem):
                mem.append(x)
        _note_members(r, mem)
    return r


class EmptySet(SetV):
    """set() whose element sort is fixed by the first use"""

    def __init__(self):
        Obj.__init__(self)
        self._arr = None
        self.elem_sort = None
        self._members = (None, [])      # (a fresh set() has no members)

    havoc_name = None

    def _fix(self, sort):
        if self.elem_sort is None:
            known = set_members(self)
            self.elem_sort = sort
            if self.havoc_name is not None:
                self._arr = z3.Const(self.havoc_name, z3.ArraySort(sort, BoolS))
                self._members = None
            else:
                self._arr = z3.K(sort, z3.BoolVal(False))
                _note_members(self, known)

    @property
    def arr(self):
        if self._arr is None:
            raise Unsupported('element sort of empty set unknown')
        return self._arr

    @arr.setter
    def arr(self, v):
        self._arr = v


def _fix_emptyset(it, s, x):
    if isinstance(s, EmptySet) and s.elem_sort is None:
        if isinstance(x, (tuple, CompSeq)):
            s._fix(CellSeq)
        elif sort_of(x) is not None and sort_of(x).eq(StrS):
            s._fix(StrS)
        else:
            s._fix(Cell)


_orig_set_add = _set_add


def _set_add2(it, s, x):
    _fix_emptyset(it, s, x)
    return _orig_set_add(it, s, x)


SET_METHODS['add'] = _set_add2

STRIP = z3.Function('py_strip', StrS, StrS)
LOWER = z3.Function('py_lower', StrS, StrS)
UPPER = z3.Function('py_upper', StrS, StrS)
TOSTR = z3.Function('py_str', Cell, StrS)
REPR = z3.Function('py_repr', Cell, StrS)


def _str_format(it, s, *args, **kw):
    return format_call(it, s, args, kw)


def _str_join(it, s, iterable):
    if isinstance(iterable, GenExp):
        iterable = consume_comp(it, iterable, 'list')
    if isinstance(iterable, CompSeq):
        f = z3.Function('py_join', StrS, StrSeq, StrS)
        return wrap(f(term(s, StrS), iterable.term(it)))
    if isinstance(iterable, SymSeq) and z3.is_seq(iterable.term):
        f = z3.Function('py_join', StrS, StrSeq, StrS)
        return wrap(f(term(s, StrS), iterable.term))
    kind, items = iterate(it, iterable)
    if kind != 'concrete':
        raise Unsupported('join of symbolic iterable')
    parts = []
    for i, x in enumerate(items):
        if i:
            parts.append(s)
        parts.append(x)
    return str_concat(it, parts) if parts else ''


def _str_strip(it, s, *a):
    if a:
        raise Unsupported('strip(chars)')
    if isinstance(s, str):
        return s.strip()
    return wrap(STRIP(term(s, StrS)))


def _str_lower(it, s):
    if isinstance(s, str):
        return s.lower()
    return wrap(LOWER(term(s, StrS)))


def _str_startswith(it, s, p):
    if isinstance(s, str) and isinstance(p, str):
        return s.startswith(p)
    return wrap(z3.PrefixOf(term(p, StrS), term(s, StrS)))


def _str_endswith(it, s, p):
    if isinstance(s, str) and isinstance(p, str):
        return s.endswith(p)
    return wrap(z3.SuffixOf(term(p, StrS), term(s, StrS)))


def _str_split(it, s, sep=None, maxsplit=-1):
    if isinstance(s, str) and isinstance(sep, (str, type(None))):
        return PyList(s.split(sep, maxsplit))
    raise Unsupported('split of symbolic string')


def _str_encode(it, s, *a):
    o = Opaque('bytes', 'encoded')
    o.attrs['text'] = s
    return o


STR_METHODS = {'encode': _str_encode, 'format': _str_format, 'join': _str_join, 'strip': _str_strip, 'lower': _str_lower,
               'startswith': _str_startswith, 'endswith': _str_endswith, 'split': _str_split}


def _cell_method(name):
    def m(it, c, *a, **k):
        # method call on an opaque cell: only allowed when the path condition fixes it to a string
        t = c.t
        if it.term_mode and it.guards:
            it.guards[-1].append((Cell.is_str(t), 'AttributeError'))
            return it.call(BoundMethod(SV(Cell.s(t)), name, STR_METHODS[name]), list(a), k)
        if not smt.feasible(it.path.pc + [z3.Not(Cell.is_str(t))]):
            return it.call(BoundMethod(SV(Cell.s(t)), name, STR_METHODS[name]), list(a), k)
        raise Unsupported('method %s on a cell not known to be a string' % name)
    return m


from . import smt  # noqa: E402


def method_table(obj):
    if isinstance(obj, Row):
        return ROW_METHODS
    if isinstance(obj, PyDict):
        return PYDICT_METHODS
    if isinstance(obj, (PyList, SymList)):
        return LIST_METHODS
    if isinstance(obj, SetV):
        return SET_METHODS
    if isinstance(obj, str):
        return STR_METHODS
    if isinstance(obj, SV):
        if obj.t.sort().eq(StrS):
            return STR_METHODS
        if obj.t.sort().eq(Cell):
            return {n: _cell_method(n) for n in STR_METHODS}
    if isinstance(obj, Tree):
        return TREE_METHODS
    return None


def _tree_getm(it, node, key, default=None):
    return tree_get(it, node, key, strict=False, default=default)


def _tree_setdefault(it, node, key, default=None):
    return tree_get(it, node, key, strict=False, default=default, setdefault=True)


def _tree_update(it, node, other=None, **kw):
    if other is not None:
        if isinstance(other, PyDict):
            for k, v in other.d.items():
                tree_set(it, node, k, v)
        elif isinstance(other, Opaque) and other.kind == 'propsdict':
            it.emit(Ev('TreeUpdate', node=node, other=other))
            node.writes.append(('**', other))
        else:
            raise Unsupported('descriptor.update(%r)' % (other,))
    for k, v in kw.items():
        tree_set(it, node, k, v)


def _tree_pop(it, node, key, *default):
    if it.branch(tree_has(it, node, key)):
        v = tree_child(it, node, key)
        tree_del(it, node, key)
        return v
    if default:
        return default[0]
    raise PyExc(ExcV('KeyError', (key,)))


TREE_METHODS = {'get': _tree_getm, 'setdefault': _tree_setdefault, 'update': _tree_update, 'pop': _tree_pop}


# ------------------------------------------------------------------------------------------------
# regular expressions (dependency `re`: uninterpreted, assumption T2)

RE_MATCH = z3.Function('re_match', StrS, StrS, BoolS)          # re.compile(p).match(s) is not None
RE_FULLMATCH = z3.Function('re_fullmatch', StrS, StrS, BoolS)  # re.compile(p).fullmatch(s) is not None
RE_SEARCH = z3.Function('re_search', StrS, StrS, BoolS)
RE_SUB = z3.Function('re_sub', StrS, StrS, StrS, StrS)         # re.sub(p, repl, s)
RE_ESCAPE = z3.Function('re_escape', StrS, StrS)


class MatchV:
    """result of a regex match call: None iff not `ok`"""

    def __init__(self, ok):
        self.ok = ok


def _match_result(it, ok):
    ok = z3.simplify(ok)
    # Represent "match object or None" as a cell-like value whose truthiness / is-None test is `ok`
    m = Opaque('match', 'm')
    m.ok = ok
    return MatchOrNone(ok)


class MatchOrNone:
    def __init__(self, ok, kind=None, pattern=None, string=None):
        self.ok = ok
        self.kind, self.pattern, self.string = kind, pattern, string


RE_EXPAND = z3.Function('re_fullmatch_expand', StrS, StrS, StrS, StrS)     # re.fullmatch(p, s).expand(template)


def _match_expand(it, m, template):
    """Match.expand(template): only modelled for the result of fullmatch (uninterpreted in pattern, template, string)"""
    if not it.branch(m.ok):
        it.raise_('AttributeError', "'NoneType' object has no attribute 'expand'")
    if m.kind != 'fullmatch':
        raise Unsupported('expand() on the result of re.%s' % m.kind)
    return wrap(RE_EXPAND(term(m.pattern, StrS), term(template, StrS), term(m.string, StrS)))


def _re_match(it, r, s):
    return MatchOrNone(RE_MATCH(term(r.pattern, StrS), term(s, StrS)), 'match', r.pattern, s)


def _re_fullmatch(it, r, s):
    p, st = term(r.pattern, StrS), term(s, StrS)
    if z3.is_app(p) and p.decl().eq(RE_ESCAPE):
        # the one fact about re.escape the engine uses (ground instance, T2): an escaped literal matches a whole string
        # exactly when the string is that literal
        it.assume(RE_FULLMATCH(p, st) == (p.arg(0) == st))
    return MatchOrNone(RE_FULLMATCH(p, st), 'fullmatch', r.pattern, s)


def _re_search(it, r, s):
    return MatchOrNone(RE_SEARCH(term(r.pattern, StrS), term(s, StrS)), 'search', r.pattern, s)


def _re_sub(it, r, repl, s):
    return wrap(RE_SUB(term(r.pattern, StrS), term(repl, StrS), term(s, StrS)))


def _re_findall(it, r, s):
    if isinstance(r.pattern, str) and isinstance(s, str):
        import re as _re
        res = _re.findall(r.pattern, s)
        return PyList([x if isinstance(x, str) else tuple(x) for x in res])
    raise Unsupported('re.findall on symbolic text')


REGEX_METHODS = {'match': _re_match, 'fullmatch': _re_fullmatch, 'search': _re_search, 'sub': _re_sub,
                 'findall': _re_findall}


# ------------------------------------------------------------------------------------------------
# opaque objects: effect calls

def _dictval_getitem(it, obj, key):
    k = '__item_%s' % (key,)
    if k not in obj.attrs:
        obj.attrs[k] = Opaque('dictval', '%s[%s]' % (obj.name, key))
    return obj.attrs[k]


ACC_CONTAINS = z3.Function('acc_contains', IntS, Cell, BoolS)


def _dictval_contains_maker(it, obj):
    if obj.term is None:
        obj.term = it.fresh('accobj', IntS)
    return lambda it_, x: ACC_CONTAINS(obj.term, it_.cell_of(x))


OPAQUE_KINDS = {'dictval': {'__getitem__': _dictval_getitem, '__contains__': _dictval_contains_maker}}     # kind -> {attr: maker(it, obj)}
OPAQUE_CALLS = {}     # (kind, method) -> handler(it, obj, args, kwargs) -> result


def call_opaque(it, obj, method, args, kwargs):
    h = OPAQUE_CALLS.get((obj.kind, method)) or obj.attrs.get('call:' + method)
    if h is not None:
        return h(it, obj, list(args), dict(kwargs))
    res = Opaque('result', '%s.%s()' % (obj.name, method))
    it.emit(Ev('Call', target=obj, method=method, args=tuple(snap(it, a) for a in args),
               kwargs={k: snap(it, v) for k, v in kwargs.items()}, result=res, objs=tuple(args)))
    return res


def external_attr(it, mod, name):
    """attribute of an external module that has no stub: an effect function"""
    o = Opaque('extfn', '%s.%s' % (mod.name, name))
    mod.attrs[name] = o
    return o


def _extfn_call(it, obj, args, kwargs):
    res = Opaque('result', '%s()' % obj.name)
    it.emit(Ev('Call', target=obj, method='__call__', args=tuple(snap(it, a) for a in args),
               kwargs={k: snap(it, v) for k, v in kwargs.items()}, result=res, objs=tuple(args)))
    return res


OPAQUE_CALLS[('extfn', '__call__')] = _extfn_call


def instantiate_external(it, cls, args, kwargs):
    if is_exception_class(cls):
        return ExcV(cls.name, args)
    raise Unsupported('instantiate external class %s' % cls.name)


def enter_context(it, cm):
    if isinstance(cm, Opaque):
        return cm
    raise Unsupported('with on %r' % (cm,))


# ------------------------------------------------------------------------------------------------
# formatting (abstracted: the text of messages and keys is a function of the arguments)

def _cellstr(it, v):
    """str(v) as String term"""
    if isinstance(v, str):
        return z3.StringVal(v)
    if isinstance(v, bool):
        return z3.StringVal(str(v))
    if isinstance(v, int):
        return z3.StringVal(str(v))
    if v is None:
        return z3.StringVal('None')
    if isinstance(v, SV):
        s = v.t.sort()
        if s.eq(StrS):
            return v.t
        if s.eq(IntS):
            return z3.IntToStr(v.t) if False else TOSTR(Cell.int(v.t))
        return TOSTR(it.cell_of(v))
    return TOSTR(it.cell_of(v))


def format_value(it, x, spec, conversion=-1):
    if conversion == 114:  # !r
        if isinstance(x, (str, int, bool, type(None))):
            return repr(x)
        try:
            return wrap(REPR(it.cell_of(x)))
        except Unsupported:
            return wrap(REPR(Cell.obj(z3.IntVal(getattr(x, 'oid', id(x))))))
    if spec == '':
        if isinstance(x, (str, int, bool)) or x is None:
            return format(x) if x is not None else 'None'
        try:
            return wrap(_cellstr(it, x))
        except Unsupported:
            return wrap(TOSTR(Cell.obj(z3.IntVal(getattr(x, 'oid', id(x))))))
    if isinstance(x, (str, int, float)) and not isinstance(x, bool):
        return format(x, spec)
    f = z3.Function('py_format[%s]' % spec, Cell, StrS)
    return wrap(f(it.cell_of(x)))


def format_call(it, fmt, args, kwargs):
    """str.format: literal format strings are parsed; fields become format_value terms"""
    if not isinstance(fmt, str):
        # symbolic format string: fully abstract
        ts = [it.cell_of(a) for a in args]
        extra = []
        for k in sorted(kwargs):
            if k == '**row':
                extra += [kwargs[k].dom, kwargs[k].val]
            else:
                extra.append(it.cell_of(kwargs[k]))
        f = z3.Function('py_formatS_%d_%s' % (len(ts), '_'.join(str(e.sort()) for e in extra)),
                        StrS, *[t.sort() for t in ts], *[e.sort() for e in extra], StrS)
        return wrap(f(term(fmt, StrS), *ts, *extra))
    import string
    parts = []
    auto = 0
    for lit, field, spec, conv in string.Formatter().parse(fmt):
        if lit:
            parts.append(lit)
        if field is None:
            continue
        if field == '':
            val = args[auto]
            auto += 1
        elif field.isdigit():
            val = args[int(field)]
        else:
            base = field.split('.')[0].split('[')[0]
            if base != field:
                raise Unsupported('format field %r' % field)
            if field in kwargs:
                val = kwargs[field]
            elif '**row' in kwargs:
                val = getitem(it, kwargs['**row'], field)
            else:
                raise PyExc(ExcV('KeyError', (field,)))
        cv = {None: -1, 'r': 114, 's': 115}.get(conv, -1)
        parts.append(format_value(it, val, spec or '', cv))
    return str_concat(it, parts) if parts else ''


def format_percent(it, fmt, arg):
    args = arg if isinstance(arg, tuple) else (arg,)
    if isinstance(fmt, str):
        import re as _re
        specs = _re.findall(r'%[-#0 +]*\d*(?:\.\d+)?[sdrxf%]', fmt)
        pieces = _re.split(r'%[-#0 +]*\d*(?:\.\d+)?[sdrxf%]', fmt)
        parts = []
        ai = 0
        for i, pc in enumerate(pieces):
            if pc:
                parts.append(pc)
            if i < len(specs):
                sp = specs[i]
                if sp == '%%':
                    parts.append('%')
                    continue
                if ai >= len(args):
                    it.raise_('TypeError', 'not enough arguments for format string')
                a = args[ai]
                ai += 1
                if sp == '%s':
                    parts.append(format_value(it, a, ''))
                elif sp == '%r':
                    parts.append(format_value(it, a, '', 114))
                else:
                    parts.append(format_value(it, a, sp[1:]))
        if ai != len(args):
            it.raise_('TypeError', 'not all arguments converted during string formatting')
        return str_concat(it, parts) if parts else ''
    ts = []
    for a in args:
        try:
            ts.append(it.cell_of(a))
        except Unsupported:
            ts.append(Cell.obj(z3.IntVal(getattr(a, 'oid', id(a)))))
    f = z3.Function('py_percent_%d' % len(ts), StrS, *[Cell] * len(ts), StrS)
    return wrap(f(term(fmt, StrS), *ts))


# ------------------------------------------------------------------------------------------------
# generators

def _delegation_outcomes(it, v):
    """`yield from <opaque iterable>` delegates every element to the consumer.  Besides running to exhaustion, the consumer
    may stop resuming us while we are delegating (GeneratorExit is raised here: `finally` blocks run, nothing after the
    statement does), and the delegate itself may raise."""
    if it.explore_abandon:
        outcomes = ['done', 'abandon'] + (['raise'] if getattr(v, 'may_raise', False) else [])
        d = it.decide(len(outcomes), lambda i: True)
        if outcomes[d] == 'abandon':
            it.emit(Ev('Abandon'))
            raise PathEnd('abandon')
        if outcomes[d] == 'raise':
            e = symbolic_exception(it, 'upstream_exc')
            it.emit(Ev('PullRaises', src=getattr(v, 'name', '?'), exc=e, label='yield-from'))
            it.path.info['upstream_raise'] = True
            raise PyExc(e)


def yield_from(it, v):
    if isinstance(v, Stream):
        it.emit(Ev('YieldFrom', src=v))
        _delegation_outcomes(it, v)
        v.drained = True
        return None
    if isinstance(v, GenObj):
        q = v.fn.qualname
        if q in it.inline or '*' in it.inline:
            return it.run_generator(v)
        it.emit(Ev('YieldFrom', src=v))
        _delegation_outcomes(it, v)
        return None
    if isinstance(v, Opaque):
        it.emit(Ev('YieldFrom', src=v))
        _delegation_outcomes(it, v)
        return None
    if isinstance(v, GenExp) and len(v.node.generators) == 1 and isinstance(v.node, ast.GeneratorExp):
        # `yield from (elt for t in src if c)`  ==  `for t in src: if c: yield elt`
        g = v.node.generators[0]
        body = [ast.Expr(value=ast.Yield(value=v.node.elt))]
        for c in reversed(g.ifs):
            body = [ast.If(test=c, body=body, orelse=[])]
        loop = ast.For(target=g.target, iter=g.iter, body=body, orelse=[], lineno=getattr(v.node, 'lineno', 0),
                       col_offset=getattr(v.node, 'col_offset', 0))
        ast.fix_missing_locations(loop)
        it.exec(loop, Env(v.env))
        return None
    kind, items = iterate(it, v)
    if kind == 'concrete':
        for x in items:
            it.do_yield(x)
        return None
    raise Unsupported('yield from %r' % (v,))


# ------------------------------------------------------------------------------------------------
# havoc helpers for cut loops

def havoc_rebound(it, name, cur):
    if isinstance(cur, Row):
        return it.fresh_row('hv_' + name)
    if isinstance(cur, SetV):
        return SetV(it.fresh('hv_%s.set' % name, z3.ArraySort(cur.elem_sort, BoolS)), cur.elem_sort)
    if isinstance(cur, (PyList, SymList)):
        return havoc_list(it, name, cur)
    if isinstance(cur, Opaque):
        return Opaque(cur.kind, 'hv_' + name)
    if isinstance(cur, Stream):
        # a name that holds the iterable being looped over and is rebound inside the loop: the running loop keeps its own
        # iterator (Python semantics), the name itself is only passed on
        return cur
    raise Unsupported('havoc of rebound %s = %r' % (name, cur))


ELEM_ITEM = z3.Function('elem_item', IntS, StrS, Cell)


def _listelem_getitem(it, obj, key):
    if isinstance(key, str) or (isinstance(key, SV) and key.t.sort().eq(StrS)):
        return it.uncell(ELEM_ITEM(obj.term, term(key, StrS)))
    f = z3.Function('elem_index', IntS, Cell, Cell)
    return it.uncell(f(obj.term, it.cell_of(key)))


OPAQUE_KINDS['listelem'] = {'__getitem__': _listelem_getitem}


def havoc_list(it, name, cur):
    """list accumulator at a loop cut: opaque prefix whose elements are abstract dict-like objects"""
    t = it.fresh('hv_%s.seq' % name, IntS)

    def mk(it_):
        e = it_.fresh('hv_%s.e' % name, IntS)
        return Opaque('listelem', 'hv_%s.e' % name, term=e), e
    seq = SymSeq('hv_' + name, t, mk)
    lst = SymList(seq, [])
    lst.parent = getattr(cur, 'parent', None)
    return lst


EXC_PARENT.update({'TableSchemaException': 'DataPackageException', 'CastError': 'TableSchemaException',
                   'TSValidationError': 'TableSchemaException'})

# ------------------------------------------------------------------------------------------------
# built-in types and functions


class TypeV:
    """a builtin / external type usable in isinstance and (some) as constructors"""

    def __init__(self, name):
        self.name = name

    def __repr__(self):
        return 'TypeV(%s)' % self.name


OBJ_TYPE = z3.Function('obj_type', IntS, StrS)   # python type name of the object boxed in Cell.obj


def isinstance_(it, v, t):
    if isinstance(t, tuple):
        rs = [isinstance_(it, v, x) for x in t]
        if any(r is True for r in rs):
            return True
        rs = [r for r in rs if r is not False]
        return z3.Or(*rs) if rs else False
    if isinstance(t, ClassV):
        if isinstance(v, Instance):
            return t.name in class_ancestors(v.cls)
        if isinstance(v, ExcV):
            return exc_isinstance(it, v, t)
        if isinstance(v, Opaque):
            kinds = [v.kind] + list(v.attrs.get('__kinds__', ()))
            return t.name in kinds
        if isinstance(v, SV) and v.t.sort().eq(Cell):
            return z3.And(Cell.is_obj(v.t), OBJ_TYPE(Cell.id(v.t)) == z3.StringVal(t.name))
        return False
    if isinstance(t, Opaque) and t.kind == 'extfn' and t.name in ('re.Pattern', 're._pattern_type', 'typing.Pattern'):
        # the type of compiled patterns: only RegexV values are instances
        return isinstance(v, RegexV)
    if not isinstance(t, TypeV):
        raise Unsupported('isinstance against %r' % (t,))
    n = t.name
    if isinstance(v, SV):
        s = v.t.sort()
        if s.eq(Cell):
            c = v.t
            if n == 'str':
                return Cell.is_str(c)
            if n == 'bool':
                return Cell.is_bool(c)
            if n == 'int':
                return z3.Or(Cell.is_int(c), Cell.is_bool(c))
            if n == 'float':
                return z3.And(Cell.is_real(c), REAL_IS_FLOAT(Cell.r(c)))
            if n == 'Decimal':
                return z3.And(Cell.is_real(c), z3.Not(REAL_IS_FLOAT(Cell.r(c))))
            if n == 'NoneType':
                return Cell.is_none(c)
            return z3.And(Cell.is_obj(c), OBJ_TYPE(Cell.id(c)) == z3.StringVal(n))
        if s.eq(StrS):
            return n == 'str'
        if s.eq(IntS):
            return n == 'int'
        if s.eq(BoolS):
            return n in ('bool', 'int')
        if s.eq(RealS):
            return n in ('float',)
        if z3.is_fp_sort(s):
            return n == 'float'
        return False
    pytypes = {'str': str, 'int': int, 'bool': bool, 'float': float, 'tuple': tuple}
    if n in ('Sized', 'Collection', 'Sequence', 'Iterator', 'Generator'):
        # the abstract base classes of collections.abc, by what the modelled value kinds are in CPython
        import collections.abc as _abc
        if isinstance(v, Stream):
            return n in getattr(v, 'kinds', ('Iterable',))          # a contract may declare a lazy source that knows its length
        if isinstance(v, GenObj):
            return n in ('Iterator', 'Generator')
        if isinstance(v, (str, tuple)):
            return isinstance(v, getattr(_abc, n))
        if isinstance(v, (PyList, SymList, SymSeq)):
            return n in ('Sized', 'Collection', 'Sequence')
        if isinstance(v, (Row, PyDict, Tree, SetV)):
            return n in ('Sized', 'Collection')
        if v is None or isinstance(v, (int, float, bool)):
            return False
        if isinstance(v, SV):
            return n in ('Sized', 'Collection', 'Sequence') and v.t.sort().eq(StrS)
    if v is None:
        return n == 'NoneType'
    if isinstance(v, (str, int, float, bool, tuple)):
        return n in pytypes and isinstance(v, pytypes[n])
    if isinstance(v, (Row, PyDict, Tree)):
        return n in ('dict', 'Mapping')
    if isinstance(v, (PyList, SymList)):
        return n in ('list', 'Iterable')
    if isinstance(v, SetV):
        return n == 'set'
    if isinstance(v, SymSeq):
        # an opaque sequence handed over by the contract stands for a list (of strings / cells)
        return n in ('list', 'Iterable')
    if isinstance(v, Opaque):
        return n in ([v.kind] + list(v.attrs.get('__kinds__', ())))
    if isinstance(v, (Stream, GenObj)):
        return n in ('Iterable', 'generator')
    if isinstance(v, (FuncDefV, Instance, ExcV, ClassV, RegexV, UFunc, Builtin, BoundMethod)):
        return False
    raise Unsupported('isinstance(%r, %s)' % (v, n))


REAL_IS_FLOAT = z3.Function('real_is_float', RealS, BoolS)


def _b_len(it, v):
    if isinstance(v, (str, tuple)):
        return len(v)
    if isinstance(v, PyList):
        return len(v.items)
    if isinstance(v, PyDict):
        return len(v.d)
    if isinstance(v, SymList):
        if v.prefix is None:
            return len(v.items)
        return wrap(it.seq_len(v.prefix) + len(v.items))
    if isinstance(v, SV) and v.t.sort().eq(StrS):
        return wrap(z3.Length(v.t))
    if isinstance(v, SV) and z3.is_seq(v.t):
        return wrap(z3.Length(v.t))
    if isinstance(v, SymSeq):
        return wrap(it.seq_len(v))
    if isinstance(v, CompSeq):
        n = DEFS.sym('COUNT', v.src.bases(), v.vars, list(v.conds) or [z3.BoolVal(True)], IntS)
        it.assume(n >= 0)
        return wrap(n)
    if isinstance(v, SetV):
        if v.elem_sort is None:
            return 0
        if set_members(v) is not None:
            return len(set_members(v))
        f = z3.Function('set_card_%s' % v.elem_sort, v.arr.sort(), IntS)
        n = f(v.arr)
        it.assume(n >= 0)
        return wrap(n)
    if isinstance(v, Row):
        f = z3.Function('row_len', DomS, IntS)
        n = f(v.dom)
        it.assume(n >= 0)
        return wrap(n)
    if isinstance(v, Opaque):
        n = v.attrs.get('__len__')
        if n is None and v.kind in ('dictval', 'result', 'listelem', 'item'):
            t = it.fresh('len_' + v.kind, IntS)
            it.assume(t >= 0)
            n = v.attrs['__len__'] = SV(t)
        if n is not None:
            return n(it) if callable(n) else n
    raise Unsupported('len of %r' % (v,))


def _b_isinstance(it, v, t):
    r = isinstance_(it, v, t)
    return r if isinstance(r, bool) else wrap(r)


def _b_callable(it, v):
    if isinstance(v, (FuncDefV, UFunc, Builtin, BoundMethod, ClassV, TypeV)):
        return True
    if isinstance(v, Opaque):
        c = v.attrs.get('__callable__')
        if c is not None:
            return c
        return v.kind in ('extfn', 'callable')
    if isinstance(v, Instance):
        return find_method(v.cls, '__call__') is not None
    if v is None or isinstance(v, (str, int, float, bool, tuple, Row, PyDict, PyList, SymList, SetV, Tree)):
        return False
    if isinstance(v, SV):
        if v.t.sort().eq(Cell):
            return wrap(z3.And(Cell.is_obj(v.t), OBJ_TYPE(Cell.id(v.t)) == z3.StringVal('function')))
        return False
    raise Unsupported('callable(%r)' % (v,))


def _b_dict(it, src=None, **kw):
    if src is None:
        # dict(k=v, ...): a fresh dict literal (no mutation of anything visible)
        return PyDict(dict(kw))
    elif isinstance(src, GenExp):
        d = consume_comp(it, src, 'dict' if True else 'list')
        if isinstance(d, PyList):
            pass
    elif isinstance(src, PyDict):
        d = PyDict(src.d)
    elif isinstance(src, Row):
        d = Row(src.dom, src.val, name='dictcopy')
    elif isinstance(src, (PyList, tuple)):
        d = PyDict()
        for pair in (src.items if isinstance(src, PyList) else src):
            k, v = unpack(it, pair, 2)
            setitem(it, d, k, v)
    elif isinstance(src, CompSeq):
        d = build_comp(it, src.src, src.vars, src.elem, src.conds, 'dict')
    elif isinstance(src, Tree):
        # dict(d): a SHALLOW copy -- nested objects are shared with the original
        d = Tree(src.name + '_shallow')
        d.schema = getattr(src, 'schema', {})
        d.children = dict(src.children)
        d.has = dict(src.has)
        d.init_children = dict(src.children)
        d.init_has = dict(src.has)
        d.shallow_of = src
    else:
        raise Unsupported('dict(%r)' % (src,))
    for k, v in kw.items():
        setitem(it, d, k, v)
    return d


def _unused_consume_genexp_dict(it, ge):
    return consume_comp(it, ge, 'dict')


class ListOfSet:
    """list(s) of a symbolic set: an enumeration of exactly its elements"""

    def __init__(self, s):
        self.s = s
        self.oid = new_oid()


def taken_list(it, st, ln, exact=True):
    """the list of the `ln` elements just pulled from stream `st` (in order); element i is made on first access"""
    first = {}

    def mk(it_):
        return st.mk_elem(it_), None

    def at(it_, i):
        ti = term(i, IntS)
        ok = z3.And(ti >= -ln, ti < ln)
        if not it_.branch(ok):
            it_.raise_('IndexError', 'list index out of range')
        key = str(z3.simplify(ti))
        if key not in first:
            first[key] = st.mk_elem(it_)
        return first[key]
    seq = SymSeq('taken(%s)' % st.name, it.fresh('taken', IntS), mk)
    seq.length = ln
    seq.at = at
    if exact:
        seq.taken_from = st
    return SymList(seq, [])


def _b_list(it, src=None):
    if src is None:
        return PyList()
    if isinstance(src, SetV):
        return ListOfSet(src)
    if isinstance(src, GenExp):
        return consume_comp(it, src, 'list')
    if isinstance(src, Opaque) and isinstance(src.attrs.get('__iter__'), Stream):
        src = src.attrs['__iter__']
    if isinstance(src, Stream):
        it.emit(Ev('Drain', src=src, how='list'))
        src.drained = True
        ln = it.fresh('drained_len', IntS)
        it.assume(ln >= 0)
        r = taken_list(it, src, ln)
        r.prefix.name = 'all(%s)' % src.name
        r.prefix.term = z3.Const('all_' + src.name, IntS)
        return r
    if isinstance(src, GenObj):
        q = src.fn.qualname
        if q in it.inline or '*' in it.inline:
            # list(<inlined generator>): run it here and collect what it yields.  Only generators whose loops are unrolled
            # (or cut with their iterations checked by hooks) are inlined; a cut loop inside makes this path end at the
            # end of the iteration, as for any cut loop.
            n0 = len(it.path.events)
            it.run_generator(src)
            out = []
            for e in it.path.events[n0:]:
                if e.kind == 'Yield':
                    e.kind = 'YieldCollected'
                    out.append(e.obj)
            return PyList(out)
        it.emit(Ev('Drain', src=src, how='list'))
        return SymList(SymSeq('all(gen)', it.fresh('allgen', IntS), None), [])
    if isinstance(src, (CompSeq, SymSeq)):
        return src
    if isinstance(src, SymSource):
        return src
    if src.__class__.__name__ == 'IsliceV' and len(src.args) == 1:
        # list(islice(stream, n)): pulls min(n, remaining) elements now -- a `Take` event on the stream -- and keeps them as
        # an opaque list `taken` of that (symbolic) length; the stream stays usable for the rest
        inner = src.src
        if inner.__class__.__name__ == 'ChainV':
            # islice over chain(..., stream): may pull from the first stream part (over-approximation: a Take on it)
            sts = [p for p in inner.parts if isinstance(p, Stream)]
            inner = sts[0] if sts else inner
        st = inner if isinstance(inner, Stream) else (inner.attrs.get('__iter__') if isinstance(inner, Opaque) else None)
        if isinstance(st, Stream):
            n = src.args[0]
            ln = it.fresh('taken_len', IntS)
            it.assume(z3.And(ln >= 0, ln <= term(n, IntS)))
            if st.may_raise and it.decide(2, lambda i: True) == 1:
                e = symbolic_exception(it, 'upstream_exc')
                it.emit(Ev('PullRaises', src=st.name, exc=e, label='islice'))
                raise PyExc(e)
            it.emit(Ev('Take', src=st, n=n, length=ln))
            return taken_list(it, st, ln, exact=inner is src.src)
    kind, items = iterate(it, src)
    if kind == 'concrete':
        return PyList(items)
    return items


def _b_tuple(it, src=()):
    if isinstance(src, GenExp):
        r = consume_comp(it, src, 'tuple')
        return r
    kind, items = iterate(it, src)
    if kind == 'concrete':
        return tuple(items)
    raise Unsupported('tuple of symbolic iterable')


def _b_set(it, src=None):
    if src is None:
        return EmptySet()
    if isinstance(src, ListOfSet):
        return SetV(src.s.arr, src.s.elem_sort)
    if isinstance(src, GenExp):
        return consume_comp(it, src, 'set')
    if isinstance(src, SymSeq) and z3.is_seq(src.term):
        k = z3.Const('__e', src.term.sort().basis())
        return SetV(z3.Lambda([k], z3.Contains(src.term, z3.Unit(k))), src.term.sort().basis())
    if isinstance(src, CompSeq):
        return build_comp(it, src.src, src.vars, src.elem, src.conds, 'set')
    kind, items = iterate(it, src)
    if kind == 'concrete':
        return make_set(it, items)
    raise Unsupported('set of symbolic iterable')


def _b_any(it, src):
    return _anyall(it, src, 'any')


def _b_all(it, src):
    return _anyall(it, src, 'all')


def _anyall(it, src, kind):
    if isinstance(src, GenExp):
        node, env = src.node, src.env
        first = it.eval(node.generators[0].iter, env)
        k0, payload = iterate(it, first)
        if k0 == 'concrete':
            lst = consume_comp_lazy(it, src, kind)
            return lst
        return consume_comp(it, src, kind)
    k, items = iterate(it, src)
    if k != 'concrete':
        raise Unsupported('%s of symbolic iterable' % kind)
    for x in items:
        b = it.branch(it.truth(x))
        if kind == 'any' and b:
            return True
        if kind == 'all' and not b:
            return False
    return kind == 'all'


def consume_comp_lazy(it, ge, kind):
    """any/all over concrete generators with python's short-circuit order"""
    node, env = ge.node, ge.env

    class Done(Exception):
        pass
    result = [kind == 'all']

    def rec(e, gens):
        if not gens:
            b = it.branch(it.truth(it.eval(node.elt, e)))
            if kind == 'any' and b:
                result[0] = True
                raise Done()
            if kind == 'all' and not b:
                result[0] = False
                raise Done()
            return
        g = gens[0]
        k, items = iterate(it, it.eval(g.iter, e))
        if k != 'concrete':
            # inner symbolic source: evaluate the remaining comprehension symbolically for this outer element
            if len(gens) != 1:
                raise Unsupported('nested symbolic generators')
            sub = ast.GeneratorExp(elt=node.elt, generators=[g])
            r = consume_comp(it, GenExp(sub, e, 'gen'), kind)
            b = it.branch(it.truth(r))
            if kind == 'any' and b:
                result[0] = True
                raise Done()
            if kind == 'all' and not b:
                result[0] = False
                raise Done()
            return
        for v in items:
            e2 = Env(e)
            it.assign_target(g.target, v, e2)
            if all(it.branch(it.truth(it.eval(c, e2))) for c in g.ifs):
                rec(e2, gens[1:])
    try:
        rec(env, node.generators)
    except Done:
        pass
    return result[0]


def _b_enumerate(it, src, start=0):
    kind, payload = iterate(it, src)
    if kind == 'concrete':
        if isinstance(start, int):
            return PyList([(start + i, v) for i, v in enumerate(payload)])
        return PyList([(wrap(term(start) + i), v) for i, v in enumerate(payload)])
    return EnumSource(payload, start)


def _b_zip(it, *srcs):
    lists = []
    for s in srcs:
        if isinstance(s, (Stream, Opaque, SymList, SymSource)) and not (isinstance(s, SymList) and s.prefix is None):
            return ZipLongestSource(it, list(srcs), shortest=True)
        kind, items = iterate(it, s)
        if kind != 'concrete':
            raise Unsupported('zip of symbolic iterable')
        lists.append(items)
    return PyList([tuple(x) for x in zip(*lists)])


def _b_str(it, v=''):
    if isinstance(v, str):
        return v
    if isinstance(v, Opaque) and '__str__' in v.attrs:
        return v.attrs['__str__']
    if isinstance(v, (bool, int)) or v is None:
        return str(v)
    if isinstance(v, SV) and v.t.sort().eq(StrS):
        return v
    if isinstance(v, SV) and v.t.sort().eq(Cell):
        # str(x) of a cell: identity on strings (py_str axiom applied syntactically)
        return wrap(z3.If(Cell.is_str(v.t), Cell.s(v.t), TOSTR(v.t)))
    if isinstance(v, ExcV):
        return wrap(TOSTR(Cell.obj(z3.IntVal(id(v) % (2 ** 31)))))
    return wrap(_cellstr(it, v))


def _b_int(it, v=0, *a):
    if isinstance(v, (int, float, str)) and not a:
        try:
            return int(v)
        except ValueError:
            it.raise_('ValueError', 'int()')
    if isinstance(v, SV) and v.t.sort().eq(IntS):
        return v
    if isinstance(v, SV) and v.t.sort().eq(RealS):
        t = v.t
        return wrap(z3.If(t >= 0, z3.ToInt(t), -z3.ToInt(-t)))
    raise Unsupported('int(%r)' % (v,))


def _b_float(it, v=0.0):
    if isinstance(v, (int, float)) and not isinstance(v, bool):
        return float(v)
    if isinstance(v, bool):
        return 1.0 if v else 0.0
    if isinstance(v, str):
        try:
            return float(v)
        except ValueError:
            it.raise_('ValueError', 'could not convert string to float')
    if isinstance(v, SV) and v.t.sort().eq(RealS):
        return v
    if isinstance(v, SV) and v.t.sort().kind() == z3.Z3_FLOATING_POINT_SORT:
        return v
    if isinstance(v, SV) and v.t.sort().eq(IntS):
        # (mathematical: the rounding of integers beyond 2**53 is not modelled -- stated in the assumptions of the engine)
        return wrap(z3.ToReal(v.t))
    raise Unsupported('float(%r of sort %s)' % (v, v.t.sort() if isinstance(v, SV) else type(v).__name__))


def _b_bool(it, v=False):
    t = it.truth(v)
    return t if isinstance(t, bool) else wrap(t)


def _b_range(it, *a):
    if all(isinstance(x, int) for x in a):
        return PyList(list(range(*a)))
    if len(a) == 1:
        n = term(a[0], IntS)
        seq = SymSeq('range', it.fresh('range', IntS), None)

        def mk(it_):
            i = it_.fresh('ri', IntS)
            it_.assume(z3.And(i >= 0, i < n))
            return SV(i), i
        seq.mk_elem = mk
        seq.length = n
        return seq
    raise Unsupported('symbolic range')


def _b_print(it, *a, **k):
    return None


def _b_hasattr(it, obj, name):
    if isinstance(obj, Instance):
        return name in obj.attrs or find_method(obj.cls, name) is not None or find_class_attr(obj.cls, name)[0]
    if isinstance(obj, Opaque):
        h = obj.attrs.get('__hasattr__')
        if h is not None:
            r = h(it, name)
            return r
        if name in obj.attrs:
            return True
        raise Unsupported('hasattr(%r, %s)' % (obj, name))
    if isinstance(obj, ExcV):
        if obj.cls is None:
            f = z3.Function('exc_hasattr', IntS, StrS, BoolS)
            return wrap(f(obj.term, z3.StringVal(name)))
        return name in obj.attrs or name == 'args'
    if isinstance(obj, (FuncDefV, UFunc, Builtin, PyList, PyDict, Row, tuple, str, int, type(None), SymList, GenObj, Stream)):
        if isinstance(obj, FuncDefV):
            return name in getattr(obj, 'fattrs', {})
        return False
    raise Unsupported('hasattr(%r)' % (obj,))


def _b_getattr(it, obj, name, *default):
    if not isinstance(name, str):
        raise Unsupported('getattr with symbolic name')
    try:
        return getattr_(it, obj, name)
    except PyExc as e:
        if default and e.exc.cls == 'AttributeError':
            return default[0]
        raise


def _b_next(it, src, *default):
    if isinstance(src, GenObj) and src.fn.qualname in it.inline:
        raise Unsupported('next() on inlined generator')
    if isinstance(src, Opaque) and 'call:__next__' in src.attrs:
        return src.attrs['call:__next__'](it, src, [], {})
    if isinstance(src, IterV):
        return src.next(it, default)
    if isinstance(src, GenExp) and getattr(src, '_consumed', None) is None:
        # next() of a fresh generator expression over a concrete source: its first element (the conditions of the later
        # elements are evaluated too -- they are treated as pure, like everywhere in a comprehension)
        r = consume_comp(it, src, 'list')
        if isinstance(r, PyList):
            src._consumed = IterV(items=list(r.items))
            return src._consumed.next(it, default)
        raise Unsupported('next() of a generator expression over a symbolic source')
    if isinstance(src, GenExp):
        return src._consumed.next(it, default)
    raise Unsupported('next(%r)' % (src,))


class IterV(Obj):
    """iterator over a concrete list (iter([...])) or a Stream"""

    def __init__(self, items=None, stream=None):
        super().__init__()
        self.items = items
        self.stream = stream
        self.pos = 0

    def next(self, it, default):
        if self.items is not None:
            if self.pos < len(self.items):
                v = self.items[self.pos]
                self.pos += 1
                return v
            if default:
                return default[0]
            raise PyExc(ExcV('StopIteration', ()))
        raise Unsupported('next on stream iterator')


def _b_iter(it, src):
    if isinstance(src, (Stream, IterV)):
        return src
    if isinstance(src, Opaque):
        return opaque_iter(it, src)
    kind, items = iterate(it, src)
    if kind == 'concrete':
        return IterV(items=items)
    return items


def _b_sorted(it, src, key=None, reverse=False):
    kind, items = iterate(it, src)
    if kind == 'concrete' and all(isinstance(x, (str,)) for x in items) and key is None:
        return PyList(sorted(items, reverse=bool(reverse)))
    if kind == 'concrete' and all(isinstance(x, int) and not isinstance(x, bool) for x in items) and key is None:
        return PyList(sorted(items, reverse=bool(reverse)))
    if kind == 'concrete' and len(items) <= 1:
        return PyList(items)
    raise Unsupported('sorted of symbolic values')


def _comp_fold(it, kind, c, extra=()):
    et = it.cell_of(c.elem)
    cond = z3.And(*c.conds) if c.conds else z3.BoolVal(True)
    return DEFS.sym(kind, c.src.bases(), c.vars, [et, cond] + list(extra), Cell)


def _comp_count(it, c):
    n = DEFS.sym('COUNT', c.src.bases(), c.vars, list(c.conds) or [z3.BoolVal(True)], IntS)
    it.assume(n >= 0)
    return n


def _fold_minmax(name):
    def f(it, *a, **k):
        if len(a) == 1 and isinstance(a[0], GenExp):
            a = (consume_comp(it, a[0], 'list'),)
        if len(a) == 1 and isinstance(a[0], CompSeq):
            if not it.branch(_comp_count(it, a[0]) > 0):
                it.raise_('ValueError', '%s() arg is an empty sequence' % name)
            return it.uncell(_comp_fold(it, name.upper(), a[0]))
        if len(a) == 1:
            kind, items = iterate(it, a[0])
            if kind != 'concrete':
                raise Unsupported('%s of symbolic iterable' % name)
        else:
            items = list(a)
        if not items:
            it.raise_('ValueError', '%s() arg is an empty sequence' % name)
        cur = items[0]
        for x in items[1:]:
            c = compare(it, ast.Lt() if name == 'min' else ast.Gt(), x, cur)
            t = it.truth(c)
            if isinstance(t, bool):
                cur = x if t else cur
            else:
                cur = ite(it, t, x, cur)
        return cur
    return f


def _b_sum(it, src, start=0):
    if isinstance(src, GenExp):
        src = consume_comp(it, src, 'list')
    if isinstance(src, CompSeq):
        if start != 0:
            raise Unsupported('sum with start over symbolic sequence')
        return it.uncell(z3.If(_comp_count(it, src) > 0, _comp_fold(it, 'SUM', src), Cell.int(0)))
    kind, items = iterate(it, src)
    if kind != 'concrete':
        raise Unsupported('sum of symbolic iterable')
    cur = start
    for x in items:
        cur = binop(it, ast.Add(), cur, x)
    return cur


def _b_super(it, *a):
    if a:
        cls, inst = a
    else:
        fn = it.frames[-1]
        cls = fn.cls
        env = it.env_stack[-1]
        inst = env.vars[param_names(fn.node)[0]]
    if cls is None:
        raise Unsupported('super() outside a method')
    return SuperV(cls, inst)


class SuperV:
    def __init__(self, cls, inst):
        self.cls, self.inst = cls, inst


def _b_type(it, v):
    if isinstance(v, Instance):
        return v.cls
    if isinstance(v, ExcV) and v.cls:
        return it.lib_classes().get(v.cls) or exc_class(v.cls)
    raise Unsupported('type(%r)' % (v,))


def _b_filter(it, fn, src):
    kind, items = iterate(it, src)
    if kind == 'concrete':
        out = []
        for x in items:
            r = x if fn is None else it.call(fn, [x])
            if it.branch(it.truth(r)):
                out.append(x)
        return IterV(items=out)        # filter() returns an iterator
    src2 = items
    elem = src2.fresh_elem(it)
    vars = list(getattr(src2, 'last_vars', []))
    it.term_mode += 1
    it.guards.append([])
    try:
        t = it.truth(it.call(fn, [elem]))
    finally:
        it.term_mode -= 1
        g = it.guards.pop()
    if g:
        raise Unsupported('filter predicate may raise')
    return CompSeq(src2, vars, elem, [z3.BoolVal(t) if isinstance(t, bool) else t], it)


def _b_map(it, fn, *srcs):
    if len(srcs) != 1:
        raise Unsupported('map over several iterables')
    if isinstance(srcs[0], (Opaque, Stream, GenObj)):
        return MappedStream(fn, srcs[0])        # map() is lazy: nothing is pulled here
    kind, items = iterate(it, srcs[0])
    if kind == 'concrete':
        return PyList([it.call(fn, [x]) for x in items])
    if isinstance(items, StreamSource):
        return MappedStream(fn, items.stream)
    raise Unsupported('map over symbolic sequence')


class MappedStream(Obj):
    def __init__(self, fn, stream):
        super().__init__()
        self.fn, self.stream = fn, stream


def _b_open(it, path, mode='r', *a, **k):
    f = Opaque('file', 'file(%s)' % (path,))
    f.attrs['path'] = path
    f.attrs['mode'] = mode
    it.emit(Ev('Call', target='open', method='__call__', args=(snap(it, path), mode), kwargs={}, result=f, objs=(path, mode)))
    return f


BUILTINS = {
    'open': _b_open,
    'len': _b_len, 'isinstance': _b_isinstance, 'callable': _b_callable, 'dict': _b_dict, 'list': _b_list,
    'tuple': _b_tuple, 'set': _b_set, 'any': _b_any, 'all': _b_all, 'enumerate': _b_enumerate, 'zip': _b_zip,
    'str': _b_str, 'int': _b_int, 'float': _b_float, 'bool': _b_bool, 'range': _b_range, 'print': _b_print, 'hasattr': _b_hasattr,
    'getattr': _b_getattr, 'next': _b_next, 'iter': _b_iter, 'sorted': _b_sorted, 'min': _fold_minmax('min'),
    'max': _fold_minmax('max'), 'sum': _b_sum, 'super': _b_super, 'type': _b_type, 'filter': _b_filter,
    'map': _b_map, 'repr': lambda it, v: format_value(it, v, '', 114),
    'format': lambda it, v, spec='': format_value(it, v, spec) if isinstance(spec, str) else _unsup('format() with a symbolic spec'),
    'id': lambda it, v: getattr(v, 'oid', 0),
}
TYPE_NAMES = {'str', 'int', 'bool', 'float', 'list', 'dict', 'tuple', 'set', 'object', 'bytes'}


class TypeBuiltin(TypeV):
    """builtin type that is both an isinstance target and a constructor"""

    def __init__(self, name, ctor):
        super().__init__(name)
        self.ctor = ctor


_builtin_cache = {}


def builtin(it, name):
    if name in _builtin_cache:
        return _builtin_cache[name]
    v = None
    if name in TYPE_NAMES:
        v = TypeBuiltin(name, BUILTINS.get(name))
    elif name in BUILTINS:
        v = Builtin(name, BUILTINS[name])
    elif name in ('IOError', 'EnvironmentError'):
        return exc_class('OSError')        # aliases of OSError since Python 3.3
    elif name in EXC_PARENT:
        v = exc_class(name)
    elif name == 'NotImplementedError':
        v = exc_class(name)
    if v is not None:
        _builtin_cache[name] = v
    return v
