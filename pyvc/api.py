"""pyvc.api -- what contract files use: symbolic inputs, running real functions, spec functions, obligations."""
import ast
import time
import z3

from .values import *  # noqa
from .symex import Engine, Interp, LoopSpec, Ev, FuncDefV, Env, PyExc, PathEnd, Path, DEFS
from . import lib, loader, smt


class Obligation:
    def __init__(self, name, hyps, goal, kind='proof', fn=None, path=None, info=None):
        self.name = name
        self.hyps = list(hyps)
        self.goal = goal
        self.kind = kind          # 'proof' (must be valid) | 'cover' (hyps must be sat) | 'canary' (must NOT be valid)
        self.fn = fn
        self.path = path
        self.info = info or {}
        self.verdict = None
        self.status = None        # discharged | failed | undecided

    def check(self, both=False):
        if self.kind == 'cover':
            v = smt.check_sat_both(self.hyps)
            self.verdict = v
            self.status = 'discharged' if v.status == 'sat' else ('failed' if v.status == 'unsat' else 'undecided')
            return self
        goal = self.goal
        if isinstance(goal, bool):
            goal = z3.BoolVal(goal)
        v = smt.check_valid(self.hyps, goal, both=both)
        self.verdict = v
        if self.kind == 'canary':
            self.status = 'discharged' if v.status == 'sat' else ('failed' if v.status == 'unsat' else 'undecided')
        # kind 'bounded' is decided like 'proof' but reported separately
        else:
            self.status = 'discharged' if v.status == 'unsat' else ('failed' if v.status == 'sat' else 'undecided')
            ni = getattr(self.path, 'info', {}).get('needs_invariant') if self.path is not None else None
            if self.status == 'failed' and not ni:
                ni = _diverging_definitional_symbols([goal] + list(self.hyps))
            if self.status == 'failed' and ni:
                # the refuting path read state left by an ARBITRARY earlier use of the object; without a class invariant over
                # that state a failed proof here is not a counterexample (it may not be reachable): undecided
                self.status = 'undecided'
                v.reason = 'needs an invariant the contract does not state: %s' % ni
        return self


def _diverging_definitional_symbols(goal):
    """comprehensions / folds over opaque sequences are abstracted by definitional symbols of which only congruence is known:
    two symbols of the same kind with syntactically different bodies may still denote the same value.  A refutation of a
    goal that relates two such symbols interprets them freely and need not be a real counterexample."""
    from .symex import DEFS
    kinds = {}
    stack, seen = list(goal) if isinstance(goal, list) else [goal], set()
    while stack:
        t = stack.pop()
        if not z3.is_expr(t) or t.get_id() in seen:
            continue
        seen.add(t.get_id())
        if z3.is_quantifier(t):
            stack.append(t.body())
            continue
        if z3.is_app(t):
            nm = t.decl().name()
            inf = DEFS.info.get(nm)
            if inf is not None:
                kinds.setdefault(inf['kind'], set()).add(nm)
            stack.extend(t.children())
    div = {k: sorted(v) for k, v in kinds.items() if len(v) > 1}
    if div:
        return 'the refutation relates different definitional symbols of the same kind (%s); only congruence is known about them' % (
            ', '.join('%s: %s' % (k, '/'.join(v)) for k, v in sorted(div.items())))
    return None


class Undecided:
    def __init__(self, fn, reason):
        self.fn = fn
        self.reason = reason


class VC:
    """collects obligations of one property check"""

    def __init__(self, prop):
        self.prop = prop
        self.obligations = []
        self.undecided = []
        self.functions = {}       # 'file::qualname' -> dict(lines, sha256)
        self.assumptions = set()
        self.trusted = set()
        self.cur_fn = None
        self.path_count = 0
        self.bounded_label = None    # set while exploring a structure-bounded (unrolled) harness: obligations are
                                     # then labelled `bounded` and never counted as proved
        self.bounded_notes = []

    def under_contract(self, relpath, qualpath):
        try:
            seg, l0, l1, sha = loader.function_segment(relpath, qualpath)
        except (KeyError, FileNotFoundError) as e:
            # the function the contract is written for is no longer there under that name (renamed, moved, removed):
            # the contract cannot be mapped onto the code -> undecided, never a violation
            raise Unsupported('CONTRACT-MAPPING %s' % (e,))
        key = '%s::%s' % (relpath, '.'.join(qualpath))
        self.functions[key] = dict(fn=key, lines='%d-%d' % (l0, l1), sha256=sha)
        return key

    def under_contract_if_present(self, relpath, qualpath):
        """an auxiliary function (a nested helper the main function calls): counted when it is there and executed; a rename / inlining
        of the helper alone does not stop the contract of the function that uses it from being checked"""
        try:
            return self.under_contract(relpath, qualpath)
        except Unsupported:
            return None

    def add(self, name, hyps, goal, kind='proof', path=None, info=None):
        if self.bounded_label and kind == 'proof':
            kind = 'bounded'
        o = Obligation('%s.%s' % (self.prop, name), hyps, goal, kind, fn=self.cur_fn, path=path, info=info)
        self.obligations.append(o)
        return o

    def trust(self, *items):
        self.trusted.update(items)

    def assume_note(self, *items):
        self.assumptions.update(items)

    def explore(self, fnkey, thunk, loops=None, explore_abandon=False, inline=None, min_paths=1, max_paths=400):
        """explore thunk; converts Check events into obligations; Unsupported -> undecided function.
        returns list of paths (or None if undecided)"""
        self.cur_fn = fnkey
        eng = Engine(max_paths=max_paths)
        try:
            paths = eng.explore(thunk, loops=loops, explore_abandon=explore_abandon, inline=inline)
        except Unsupported as e:
            self.undecided.append(Undecided(fnkey, 'UNSUPPORTED: %s' % e))
            return None
        except RecursionError as e:
            self.undecided.append(Undecided(fnkey, 'UNSUPPORTED: recursion depth'))
            return None
        for reason in sorted(set(eng.unsupported)):
            self.undecided.append(Undecided(fnkey, 'UNSUPPORTED: %s' % reason))
        for k in sorted('/'.join(sorted(ks)) for ks in eng.loop_keys_stated if not (ks & eng.loop_keys_hit)):
            # a loop contract with clauses that no explored path ever applied: its key names no loop of the current code (or
            # the loop is unreachable from this harness) -- what it states was NOT checked, so the function is not decided
            self.undecided.append(Undecided(fnkey, 'UNSUPPORTED: CONTRACT-MAPPING loop contract %s was stated but never applied '
                                                   'on any explored path' % k))
        self.entered = getattr(self, 'entered', set()) | eng.entered
        self.path_count += len(paths)
        for pi, p in enumerate(paths):
            tag = 'p' + '.'.join(str(d) for d in p.trail) if p.trail else 'p'
            for e in p.events:
                if e.kind == 'Check':
                    self.add('%s.%s[%s]' % (short(fnkey), e.name, tag), e.hyps, e.formula, path=p, info=e.info,
                             kind='bounded' if (self.bounded_label or e.info.get('bounded')) else 'proof')
                elif e.kind == 'InvCheck':
                    self.add('%s.%s.inv-%s[%s]' % (short(fnkey), e.label.split('#')[-1], e.when, tag), e.hyps, e.formula,
                             path=p)
                elif e.kind == 'Cover':
                    self.add('%s.%s[%s]' % (short(fnkey), e.name, tag), e.hyps, None, kind='cover', path=p)
            for a in getattr(p, 'assumptions', ()):
                self.assumptions.add(a)
        if len(paths) < min_paths:
            self.undecided.append(Undecided(fnkey, 'VACUOUS: only %d paths (expected >= %d)' % (len(paths), min_paths)))
        # paths that left the modelled subset are not handed to the contract's post-passes
        return [p for p in paths if p.end != 'unsupported']


def short(fnkey):
    f, q = fnkey.split('::')
    base = f.split('/')[-1][:-3]
    return base + '.' + q


# ------------------------------------------------------------------------------------------------
# ghost operations callable from contract thunks (python-level, they act on the Interp)

def check(it, name, formula, **info):
    """obligation: under the current path condition `formula` holds"""
    if isinstance(formula, SV):
        formula = formula.t
    it.emit(Ev('Check', name=name, formula=formula, hyps=list(it.path.pc), info=info))


def interference(it):
    """ghost step: between two uses of an object the rest of the process runs -- other objects are built from the same classes,
    other functions of the same modules are called.  Every PROCESS-WIDE dict (module level or class body) that the code fills
    keeps the keys this path wrote, but each of them may meanwhile have been overwritten with an arbitrary value; a verdict
    reached through such an entry needs an invariant over that state which no contract states (undecided, never proved)."""
    from .values import ClassV
    for m in list(it.modules.values()):
        holders = [m] + [c for c in getattr(m, 'attrs', {}).values() if isinstance(c, ClassV)]
        for hld in holders:
            for name, v in list(getattr(hld, 'attrs', {}).items()):
                if isinstance(v, PyDict) and getattr(v, 'history', None) is not None:
                    for k in list(v.d):
                        if it.decide(2, lambda i: True) == 0:
                            v.d[k] = it.uncell(it.fresh('overwritten_entry', Cell))
                            it.path.info['needs_invariant'] = ('an entry of the process-wide dict %s written earlier on this path may have '
                                                               'been overwritten by other users of it' % name)


def cover(it, name):
    it.emit(Ev('Cover', name=name, hyps=list(it.path.pc)))


_orig_emit = Interp.emit


def _emit(self, ev):
    if ev.kind == 'InvCheck' and not hasattr(ev, 'hyps'):
        ev.hyps = list(self.path.pc)
    return _orig_emit(self, ev)


Interp.emit = _emit


# ------------------------------------------------------------------------------------------------
# symbolic inputs

def sym_str(it, hint):
    return SV(it.fresh(hint, StrS))


def sym_int(it, hint):
    return SV(it.fresh(hint, IntS))


def sym_bool(it, hint):
    return SV(it.fresh(hint, BoolS))


def sym_cell(it, hint):
    return SV(it.fresh(hint, Cell))


def sym_row(it, hint='row'):
    return it.fresh_row(hint)


def str_seq(it, hint):
    """opaque list of strings (z3 Seq(String))"""
    t = it.fresh(hint, StrSeq)

    def mk(it_):
        e = it_.fresh(hint + '.e', StrS)
        it_.assume(z3.Contains(t, z3.Unit(e)))
        return SV(e), e
    return SymSeq(hint, t, mk)


def str_set(it, hint):
    return SetV(it.fresh(hint, z3.ArraySort(StrS, BoolS)), StrS)


def row_stream(it, name, may_raise=False):
    def mk(it_):
        return it_.fresh_row(name + '.row')
    return Stream(name, mk, may_raise=may_raise)


def ufunc(name, result_sort=Cell, pure=True, mutates_row=None, params=None):
    """uninterpreted callable; arguments are flattened to z3 terms (rows become dom,val).
    pure=False: each call is a Call event.  mutates_row=k: the k-th argument (a Row) is replaced by a deterministic
    but unknown function of all arguments (a callback that may edit the row it is given).
    params: parameter names reported by inspect.signature."""
    def apply(it, args, kwargs):
        ts = []
        for a in list(args) + [kwargs[k] for k in sorted(kwargs)]:
            if isinstance(a, (Row, RowSnap)):
                ts += [a.dom, a.val]
            elif isinstance(a, Opaque):
                if a.term is None:
                    a.term = it.fresh('obj_' + a.name, IntS)
                ts.append(a.term)
            elif isinstance(a, ExcV):
                ts.append(a.term if a.term is not None else z3.IntVal(id(a) % 2 ** 31))
            else:
                try:
                    ts.append(term(a))
                except Unsupported:
                    ts.append(it.cell_of(a))
        f = z3.Function('%s/%s' % (name, '_'.join(str(t.sort()) for t in ts)), *[t.sort() for t in ts], result_sort)
        r = f(*ts) if ts else z3.Const(name, result_sort)
        if not pure:
            it.emit(Ev('Call', target=name, method='__call__', args=tuple(lib.snap(it, a) for a in args),
                       kwargs={k: lib.snap(it, v) for k, v in kwargs.items()}, result=r, objs=tuple(args)))
        if mutates_row is not None and isinstance(args[mutates_row], Row):
            fd = z3.Function('%s.dom/%s' % (name, '_'.join(str(t.sort()) for t in ts)), *[t.sort() for t in ts], DomS)
            fv = z3.Function('%s.val/%s' % (name, '_'.join(str(t.sort()) for t in ts)), *[t.sort() for t in ts], ValS)
            row = args[mutates_row]
            row.dom, row.val = fd(*ts), fv(*ts)
        if result_sort.eq(Cell):
            return it.uncell(r)
        return wrap(r)
    u = UFunc(name, apply, pure)
    u.params = params
    return u


# ------------------------------------------------------------------------------------------------
# spec functions: python source in the verified subset, executed by the same engine (and natively in replay)

class SpecModule:
    def __init__(self, source, name='spec'):
        self.source = source
        self.tree = ast.parse(source)
        self.name = name

    def bind(self, it, **free):
        """FuncDefV objects of the spec's functions, with `free` bound as globals"""
        m = ModuleV('spec:' + self.name)
        m.relpath = None
        m.is_pkg = False
        env = Env(None)
        env.vars = m.attrs
        m.attrs.update(free)
        m.env = env
        for st in self.tree.body:
            if isinstance(st, ast.FunctionDef):
                m.attrs[st.name] = FuncDefV(st, env, m, 'spec.' + st.name)
            elif isinstance(st, (ast.Import, ast.ImportFrom, ast.Assign)):
                fn = FuncDefV(ast.FunctionDef(name='<spec>', args=ast.arguments(posonlyargs=[], args=[], kwonlyargs=[],
                                                                               kw_defaults=[], defaults=[]),
                                              body=[], decorator_list=[]), env, m, 'spec')
                fn.is_module = True
                it.frames.append(fn)
                it.env_stack.append(env)
                try:
                    it.exec(st, env)
                finally:
                    it.frames.pop()
                    it.env_stack.pop()
        return m


def real_function(it, dotted_module, *names):
    """the real function value from the repository module (FuncDefV / ClassV), by attribute path"""
    m = it.module(dotted_module)
    v = m
    for n in names:
        v = lib.getattr_(it, v, n)
    return v


# ------------------------------------------------------------------------------------------------
# comparing traces with spec results

def yields_of(events):
    return [e for e in events if e.kind == 'Yield']


def same_row(a, b):
    """z3 formula: row contents a == b (a, b: Row or RowSnap)"""
    k = z3.Const('__rk', StrS)
    # pointwise (extensionality spelled out): as a GOAL its negation is an existential, i.e. one skolem key at which the two
    # rows differ -- the solver then returns a counter-model (`sat`) for a wrong row instead of `unknown` on an equality of
    # lambda arrays (DESIGN 2.3)
    return z3.ForAll([k], z3.And(a.dom[k] == b.dom[k], z3.Implies(a.dom[k], a.val[k] == b.val[k])))


def value_matches(it, got, want):
    """z3 Bool / python bool: yielded value `got` (snapshot) equals spec value `want`"""
    if isinstance(got, (Row, RowSnap)) and isinstance(want, (Row, RowSnap)):
        return same_row(got, want)
    if isinstance(got, (Row, RowSnap)) or isinstance(want, (Row, RowSnap)):
        return False
    if isinstance(got, GenObj) and isinstance(want, GenObj):
        if got.fn is not want.fn and getattr(got.fn, 'qualname', None) != getattr(want.fn, 'qualname', None):
            return False
        if len(got.args) != len(want.args) or set(got.kwargs) != set(want.kwargs):
            return False
        rs = [value_matches(it, x, y) for x, y in zip(got.args, want.args)]
        rs += [value_matches(it, got.kwargs[k], want.kwargs[k]) for k in got.kwargs]
        return conj(rs)
    if isinstance(got, ExcV) and isinstance(want, ExcV):
        if got is want:
            return True
        if got.cls != want.cls or got.term is None or want.term is None:
            return False
        return got.term == want.term
    if isinstance(got, tuple) and isinstance(want, tuple):
        if len(got) != len(want):
            return False
        return conj([value_matches(it, x, y) for x, y in zip(got, want)])
    if isinstance(got, (PyList, SymList)) and isinstance(want, (PyList, SymList)):
        if getattr(got, 'prefix', None) is not getattr(want, 'prefix', None) or len(got.items) != len(want.items):
            return False
        return conj([value_matches(it, x, y) for x, y in zip(got.items, want.items)])
    if isinstance(got, PyDict) and isinstance(want, PyDict):
        if set(map(_k, got.d)) != set(map(_k, want.d)):
            return False
        wd = {_k(k): v for k, v in want.d.items()}
        return conj([value_matches(it, v, wd[_k(k)]) for k, v in got.d.items()])
    if isinstance(got, lib.CompSeq) and isinstance(want, lib.CompSeq):
        return compseq_matches(it, got, want)
    try:
        return lib.values_equal(it, got, want)
    except Unsupported:
        return got is want


def _k(k):
    return k if isinstance(k, (str, int)) else str(k)


def compseq_matches(it, a, b):
    if [x.get_id() for x in a.src.bases()] != [x.get_id() for x in b.src.bases()]:
        return False
    if len(a.vars) != len(b.vars):
        return False
    sub = list(zip(b.vars, a.vars))

    def sb(t):
        return z3.substitute(t, *sub) if sub else t
    ca = z3.And(*a.conds) if a.conds else z3.BoolVal(True)
    cb = sb(z3.And(*b.conds)) if b.conds else z3.BoolVal(True)
    if isinstance(a.elem, tuple) or isinstance(b.elem, tuple):
        return False
    ea, eb = it.cell_of(a.elem), sb(it.cell_of(b.elem))
    body = z3.And(ca == cb, z3.Implies(ca, ea == eb))
    return z3.ForAll(a.vars, body) if a.vars else body


def conj(rs):
    if any(r is False for r in rs):
        return False
    rs = [r for r in rs if r is not True]
    if not rs:
        return True
    return z3.And(*[r.t if isinstance(r, SV) else r for r in rs])


def yields_match(it, events, want_list, same_object=None):
    """formula: the Yield events equal the spec's output list (PyList of values), in order"""
    ys = yields_of(events)
    if not isinstance(want_list, PyList):
        raise Unsupported('spec step must return a list, got %r' % (want_list,))
    if len(ys) != len(want_list.items):
        return False
    rs = []
    for y, w in zip(ys, want_list.items):
        rs.append(value_matches(it, y.value, w))
        if same_object is not None and isinstance(w, Obj):
            rs.append(y.obj is getattr(w, 'alias_of', None) or y.obj is w)
    return conj(rs)
