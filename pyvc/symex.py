"""pyvc.symex -- path-enumerating symbolic executor over the Python AST of the real repository source.

Exploration is by re-execution: every path is a fresh run of the entry thunk that follows a recorded prefix of
branch decisions; at a new symbolic branch the feasible alternatives are queued.  Fresh symbols are numbered
per run, so a prefix always reproduces the same symbols.

Loops over opaque iterables (Stream / SymSeq / SymList prefix) are CUT: the loop-modified state is havocked
(optionally constrained by a contract invariant), the body is executed once for an arbitrary element, and the
code after the loop is executed from a havocked state.  The trace of a path is a list of Events.
"""
import ast
import os
import time
import z3

from .values import *  # noqa
from . import smt


class PyExc(Exception):
    """a modelled Python exception propagating through the interpreted program"""

    def __init__(self, exc):
        self.exc = exc


class _Return(Exception):
    def __init__(self, v):
        self.v = v


class _Break(Exception):
    pass


class _Continue(Exception):
    pass


class PathEnd(Exception):
    """current path ends here (end of a cut-loop iteration, infeasible branch, abandonment)"""

    def __init__(self, how):
        self.how = how


# -------------------------------------------------------------------------------------------------
class Ev:
    """trace event"""

    def __init__(self, kind, **kw):
        self.kind = kind
        self.__dict__.update(kw)

    def __repr__(self):
        d = {k: v for k, v in self.__dict__.items() if k != 'kind'}
        return '%s(%s)' % (self.kind, ', '.join('%s=%r' % kv for kv in d.items()))


class Env:
    def __init__(self, parent=None, vars=None):
        self.parent = parent
        self.vars = dict(vars or {})
        self.nonlocals = set()
        self.globals = set()

    def lookup(self, name):
        e = self
        while e is not None:
            if name in e.vars and name not in e.nonlocals:
                return e.vars[name]
            e = e.parent
        raise KeyError(name)

    def find(self, name):
        e = self
        while e is not None:
            if name in e.vars and name not in e.nonlocals:
                return e
            e = e.parent
        return None

    def assign(self, name, v):
        if name in self.nonlocals or name in self.globals:
            e = self.parent.find(name) if self.parent else None
            if e is None:
                raise Unsupported('nonlocal %s not found' % name)
            e.vars[name] = v
        else:
            self.vars[name] = v


class FuncDefV:
    """function value backed by an ast.FunctionDef / ast.Lambda of the real source (or of a spec)"""

    def __init__(self, node, env, module, qualname, cls=None):
        self.node = node
        self.env = env
        self.module = module
        self.qualname = qualname
        self.cls = cls
        self.is_gen = _is_generator(node)
        self.name = getattr(node, 'name', '<lambda>')

    def __repr__(self):
        return 'FuncDefV(%s)' % self.qualname


def _is_generator(node):
    if isinstance(node, ast.Lambda):
        return False
    for n in _walk_no_nested(node.body):
        if isinstance(n, (ast.Yield, ast.YieldFrom)):
            return True
    return False


def _walk_no_nested(stmts):
    """walk statements/expressions but do not descend into nested function/class definitions/lambdas"""
    stack = list(stmts) if isinstance(stmts, list) else [stmts]
    stack = [n for n in stack if not isinstance(n, (ast.FunctionDef, ast.AsyncFunctionDef, ast.ClassDef, ast.Lambda))]
    while stack:
        n = stack.pop()
        yield n
        for c in ast.iter_child_nodes(n):
            if isinstance(c, (ast.FunctionDef, ast.AsyncFunctionDef, ast.ClassDef, ast.Lambda)):
                continue
            stack.append(c)


def param_names(node):
    a = node.args
    return [x.arg for x in a.posonlyargs + a.args] + ([a.vararg.arg] if a.vararg else []) + \
        [x.arg for x in a.kwonlyargs] + ([a.kwarg.arg] if a.kwarg else [])


# -------------------------------------------------------------------------------------------------
class DefSyms:
    """definitional uninterpreted symbols for comprehensions / folds over opaque sequences.

    sym(kind, bases, vars, bodies, sort) returns  f(bases..., free...)  where f is determined by
    (kind, canonical form of bodies with vars replaced by placeholders).  Two syntactically different but
    alpha-equivalent comprehensions get the same symbol; nothing but congruence is known about f."""

    def __init__(self):
        self.table = {}
        self.info = {}

    def free_consts(self, terms, exclude_ids):
        seen = set()
        out = {}
        stack = list(terms)
        while stack:
            t = stack.pop()
            i = t.get_id()
            if i in seen:
                continue
            seen.add(i)
            if z3.is_quantifier(t):
                stack.append(t.body())
                continue
            if z3.is_var(t):
                continue
            if z3.is_app(t):
                if t.num_args() == 0:
                    if t.decl().kind() == z3.Z3_OP_UNINTERPRETED and i not in exclude_ids:
                        out[str(t)] = t
                else:
                    stack.extend(t.children())
        return [out[k] for k in sorted(out)]

    def sym(self, kind, bases, vars, bodies, sort, tag=''):
        phs = [z3.Const('__ph%d_%s' % (n, v.sort()), v.sort()) for n, v in enumerate(vars)]
        canon = [z3.simplify(z3.substitute(b, *zip(vars, phs))) if vars else z3.simplify(b) for b in bodies]
        # constant folding of folds over an always-false / always-true body
        if kind == 'ANY' and len(canon) == 1 and z3.is_false(canon[0]):
            return z3.BoolVal(False)
        if kind == 'ALL' and len(canon) == 1 and z3.is_true(canon[0]):
            return z3.BoolVal(True)
        if kind in ('ALL', 'ANY') and len(canon) == 1:
            # a body that is valid / unsatisfiable for every element folds to a constant (e.g. a guard implied by the filter)
            sol = z3.Solver()
            sol.set('timeout', 300)
            sol.add(z3.Not(canon[0]) if kind == 'ALL' else canon[0])
            if sol.check() == z3.unsat:
                return z3.BoolVal(kind == 'ALL')
        if kind == 'COUNT' and any(z3.is_false(c) for c in canon):
            return z3.IntVal(0)
        free = self.free_consts(canon, {p.get_id() for p in phs})
        base_ids = {b.get_id() for b in bases}
        free = [f for f in free if f.get_id() not in base_ids]
        key = (kind, tag, tuple(c.get_id() for c in canon), tuple(str(b.sort()) for b in bases), str(sort))
        ent = self.table.get(key)
        if ent is None:
            n = len(self.table)
            f = z3.Function('%s!%d' % (kind, n), *[b.sort() for b in bases], *[x.sort() for x in free], sort)
            ent = (f, canon, phs)
            self.table[key] = ent
            self.info[str(f)] = dict(kind=kind, canon=[str(c) for c in canon])
        f = ent[0]
        args = list(bases) + free
        if not args:
            return z3.Const(str(f), sort) if False else f()
        return f(*args)


DEFS = DefSyms()


# -------------------------------------------------------------------------------------------------
class Path:
    """summary of one explored path"""

    def __init__(self):
        self.pc = []
        self.events = []
        self.ret = None
        self.exc = None
        self.end = 'return'      # 'return' | 'raise' | 'iter-end' | 'abandon' | 'infeasible'
        self.seg = []            # loop segment labels, e.g. [('L0','iter')]
        self.marks = {}          # loop label -> index into events where the loop segment starts
        self.env = None
        self.trail = []
        self.notes = []
        self.info = {}

    def __repr__(self):
        return 'Path(end=%s seg=%s ev=%d pc=%d)' % (self.end, self.seg, len(self.events), len(self.pc))


def smt_valid(hyps, goal):
    from . import smt
    return smt.check_valid(hyps, goal, timeout_ms=5000).status == 'unsat'


class Budget(Unsupported):
    """the whole exploration (not one path) is given up: time budget exhausted"""


class LoopSpec:
    """contract-side configuration of a cut loop: invariant (callable(interp, env) -> z3 Bool or list)"""

    def __init__(self, inv=None, modes=('iter', 'exit'), havoc_extra=(), keep=(), at_start=None, at_end=None,
                 at_exit=None, at_break=None, decreases=None, unroll=None, at_entry=None, inv_n=None, as_row=()):
        self.inv = inv
        self.as_row = as_row          # names of dict accumulators (string keys) that continue as an arbitrary finite map (Row)
        self.modes = modes
        self.havoc_extra = havoc_extra
        self.keep = keep
        self.at_start = at_start      # (interp, env, elem) -> state captured for at_end
        self.at_end = at_end          # (interp, env, captured, events_of_iteration)
        self.at_exit = at_exit        # (interp, env) after havoc in exit mode
        self.at_break = at_break
        self.decreases = decreases
        self.unroll = unroll
        self.at_entry = at_entry      # (interp, env): state on arrival at the loop, before the cut
        self.inv_n = inv_n            # (interp, env, n): invariant mentioning the ghost count n of completed iterations


class Engine:
    def __init__(self, max_paths=400):
        self.max_paths = max_paths
        self.unsupported = []
        self.entered = set()          # (module name, def line) of every real function whose body some path executed
        self.loop_keys_stated = set() # loop contracts with clauses that some path registered: frozensets of alternative keys
        self.loop_keys_hit = set()    # ... and those some path applied to a loop of the code
        self.budget_s = int(os.environ.get('PYVC_EXPLORE_BUDGET_S', '120'))
        self.deadline = time.time() + self.budget_s

    def explore(self, thunk, loops=None, explore_abandon=False, inline=None):
        """run thunk(interp) along every feasible path; returns list[Path]"""
        work = [[]]
        done = []
        while work:
            script = work.pop()
            it = Interp(self, script, loops or {}, explore_abandon, inline or set())
            p = it.path
            try:
                try:
                    try:
                        p.ret = thunk(it)
                    except (KeyError, AttributeError, IndexError, TypeError, ValueError) as e:
                        # the contract refers to a local / attribute / shape that the current source no longer has:
                        # a contract-mapping error makes the function undecided, it is never a violation
                        import traceback
                        tb = traceback.extract_tb(e.__traceback__)
                        where = '%s:%d' % (tb[-1].filename.split('/')[-1], tb[-1].lineno) if tb else '?'
                        raise Unsupported('CONTRACT-MAPPING %s: %r at %s' % (type(e).__name__, e, where))
                    p.end = 'return'
                except PyExc as e:
                    p.exc = e.exc
                    p.end = 'raise'
                except PathEnd as e:
                    p.end = e.how
                except _Return as r:
                    p.ret = r.v
                    p.end = 'return'
                except Budget:
                    raise
                except Unsupported as e:
                    # outside the modelled subset ON THIS PATH: the path is dropped (what it checked before that point
                    # stands), the other paths are still explored, and the function is reported undecided
                    p.end = 'unsupported'
                    p.unsupported = str(e)
                    self.unsupported.append(str(e))
            finally:
                pass
            p.trail = it.trail
            groups = {}
            for k, v in it.loops.items():
                if isinstance(v, LoopSpec) and (v.inv or v.at_start or v.at_end or v.at_exit or v.at_break or v.at_entry or v.inv_n):
                    # (one LoopSpec object registered under several keys = alternative shapes of the same loop)
                    groups.setdefault(id(v), set()).add(k)
            for ks in groups.values():
                self.loop_keys_stated.add(frozenset(ks))
            for alt in it.alternatives:
                work.append(alt)
            if p.end != 'infeasible':
                done.append(p)
            if len(done) + len(work) > self.max_paths:
                raise Unsupported('path explosion (> %d paths)' % self.max_paths)
        return done


MUTATORS = {'add', 'append', 'update', 'setdefault', 'pop', 'clear', 'extend', 'remove', 'insert', 'discard',
            'popitem', 'sort', 'reverse'}


class Interp:
    def __init__(self, engine, script, loops, explore_abandon, inline):
        self.engine = engine
        self.script = list(script)
        self.trail = []
        self.alternatives = []
        self.path = Path()
        self.loops = loops
        self.explore_abandon = explore_abandon
        self.inline = inline
        self.counter = {}
        self.objcells = {}        # obj id -> object stored in a Cell.obj
        self.term_mode = 0        # >0: inside a symbolic comprehension body, no forking allowed
        self.cur_exc = []
        self.map_loop_mode = False
        self.drain_may_raise = False
        self.loop_counter = {}    # function qualname -> next loop ordinal
        self.frames = []
        self.ghost = {}
        self.assumptions = set()
        self.guards = []
        self.env_stack = []
        self.modules = {}
        self.classes = {}
        self.comp_notes = []
        from . import lib, loader
        self.lib = lib
        self.loader = loader

    def lib_classes(self):
        return self.classes

    def note_comp(self, kind, src, vars, bodies):
        self.comp_notes.append((kind, src, vars, bodies))

    def module(self, dotted):
        return self.loader.load_module(self, dotted)

    # ---------------------------------------------------------------- symbols and branching
    def fresh(self, hint, sort):
        n = self.counter.get(hint, 0)
        self.counter[hint] = n + 1
        return z3.Const('%s!%d' % (hint, n), sort)

    def fresh_row(self, hint='row'):
        return Row(self.fresh(hint + '.dom', DomS), self.fresh(hint + '.val', ValS), name=hint)

    def assume(self, c):
        if isinstance(c, bool):
            if not c:
                raise PathEnd('infeasible')
            return
        if isinstance(c, SV):
            c = c.t
        c = z3.simplify(c)
        if z3.is_true(c):
            return
        if z3.is_false(c):
            raise PathEnd('infeasible')
        self.path.pc.append(c)

    def decide(self, n_options, feasible_fn):
        """generic n-way decision point; feasible_fn(i) -> bool"""
        if self.script:
            d = self.script.pop(0)
            self.trail.append(d)
            return d
        feas = [i for i in range(n_options) if feasible_fn(i)]
        if not feas:
            raise PathEnd('infeasible')
        for alt in feas[1:]:
            self.alternatives.append(self.trail + [alt])
        self.trail.append(feas[0])
        return feas[0]

    def branch(self, cond):
        """python bool for `cond` on this path (forks)"""
        if isinstance(cond, bool):
            return cond
        if isinstance(cond, SV):
            cond = cond.t
        cond = z3.simplify(cond)
        if z3.is_true(cond):
            return True
        if z3.is_false(cond):
            return False
        if self.term_mode:
            raise Unsupported('fork inside symbolic comprehension body')

        def feas(i):
            c = cond if i == 0 else z3.Not(cond)
            return smt.feasible(self.path.pc + [c])
        d = self.decide(2, feas)
        if d == 0:
            self.path.pc.append(cond)
            return True
        self.path.pc.append(z3.simplify(z3.Not(cond)))
        return False

    def emit(self, ev):
        self.path.events.append(ev)
        if ev.kind == 'Drain' and self.drain_may_raise:
            # fully consuming a generator / stream runs arbitrary upstream code: it may raise at any point
            if self.decide(2, lambda i: True) == 1:
                e = self.lib.symbolic_exception(self, 'drain_exc')
                self.path.events.append(Ev('DrainRaises', src=ev.src, exc=e))
                raise PyExc(e)
        return ev

    # ---------------------------------------------------------------- value helpers
    def cell_of(self, v):
        """z3 Cell term for a python-level value (objects are boxed by identity)"""
        if isinstance(v, SV):
            s = v.t.sort()
            if s.eq(Cell) or s.eq(BoolS) or s.eq(IntS) or s.eq(StrS) or s.eq(RealS):
                return to_cell_term(v.t)
            raise Unsupported('cell of sort %s' % s)
        if v is None or isinstance(v, (bool, int, str, float)):
            return to_cell_term(term(v))
        if isinstance(v, (Obj, tuple, RowSnap)):
            oid = id(v) if isinstance(v, tuple) else v.oid
            self.objcells[oid] = v
            return Cell.obj(z3.IntVal(oid))
        raise Unsupported('cell of %r' % (v,))

    def uncell(self, t):
        """python-level value for a Cell term (unboxes literal scalars and known objects)"""
        t = z3.simplify(t)
        if t.sort().eq(Cell) and z3.is_app(t):
            d = t.decl()
            if d.eq(Cell.none):
                return None
            if d.eq(Cell.obj) and z3.is_int_value(t.arg(0)) and t.arg(0).as_long() in self.objcells:
                return self.objcells[t.arg(0).as_long()]
            if d.eq(Cell.bool) or d.eq(Cell.int) or d.eq(Cell.str) or d.eq(Cell.real):
                return wrap(t.arg(0))
        return wrap(t)

    def truth(self, v):
        """python truthiness as python bool or z3 Bool"""
        if v is None:
            return False
        if isinstance(v, (bool, int, str, float, tuple)):
            return bool(v)
        if isinstance(v, SV):
            t = v.t
            s = t.sort()
            if s.eq(BoolS):
                return t
            if s.eq(IntS):
                return t != 0
            if s.eq(StrS):
                return z3.Length(t) > 0
            if s.eq(RealS):
                return t != 0
            if s.eq(Cell):
                return z3.And(z3.Not(Cell.is_none(t)),
                              z3.Implies(Cell.is_bool(t), Cell.b(t)),
                              z3.Implies(Cell.is_int(t), Cell.i(t) != 0),
                              z3.Implies(Cell.is_str(t), z3.Length(Cell.s(t)) > 0),
                              z3.Implies(Cell.is_real(t), Cell.r(t) != 0),
                              z3.Implies(Cell.is_obj(t), self.obj_truthy(Cell.id(t))))
            if z3.is_seq(t):
                return z3.Length(t) > 0
            raise Unsupported('truth of sort %s' % s)
        if isinstance(v, self.lib.MatchOrNone):
            return v.ok
        if isinstance(v, self.lib.CompSeq):
            n = self.lib._b_len(self, v)
            return (n > 0) if isinstance(n, int) else (n.t > 0)
        if isinstance(v, PyList):
            return len(v.items) > 0
        if isinstance(v, PyDict):
            return len(v.d) > 0
        if isinstance(v, SymList):
            if v.items:
                return True
            if v.prefix is None:
                return False
            return self.seq_len(v.prefix) > 0
        if isinstance(v, Row):
            k = z3.Const('__k', StrS)
            return z3.Exists([k], v.dom[k])
        if isinstance(v, Opaque) and v.kind in ('result', 'dictval', 'listelem', 'item', 'excattr'):
            # value returned by an unmodelled call: its truthiness is unknown (but fixed)
            if '__truth__' not in v.attrs:
                v.attrs['__truth__'] = self.fresh('truthy_' + v.kind, BoolS)
            return v.attrs['__truth__']
        if isinstance(v, (Opaque, Instance)) and '__truth__' in v.attrs:
            return v.attrs['__truth__']      # (stated by the contract that made the object, or fixed by an earlier test)
        if isinstance(v, (Opaque, Instance)):
            # an object is truthy unless its class defines __bool__ / __len__: for an object standing for an instance of a
            # class of the repository (by kind / class) that defines one of them, the truth value is unknown (but fixed)
            cls = v.cls if isinstance(v, Instance) else self.classes.get(v.kind)
            if cls is not None and isinstance(cls, ClassV):
                if self.lib.find_method(cls, '__bool__') is not None or self.lib.find_method(cls, '__len__') is not None:
                    if '__truth__' not in v.attrs:
                        v.attrs['__truth__'] = self.fresh('truthy_' + cls.name, BoolS)
                    return v.attrs['__truth__']
            return True
        if isinstance(v, (FuncDefV, UFunc, Builtin, BoundMethod, ClassV, GenObj, Stream, RegexV,
                          ExcV, ModuleV, Tree)):
            if isinstance(v, Tree):
                raise Unsupported('truthiness of descriptor node')
            return True
        if isinstance(v, SetV):
            raise Unsupported('truth of set')
        raise Unsupported('truth of %r' % (v,))

    def obj_truthy(self, idt):
        f = z3.Function('obj_truthy', IntS, BoolS)
        return f(idt)

    def seq_len(self, seq):
        if isinstance(seq, SymSeq):
            if seq.term is not None and z3.is_seq(seq.term):
                return z3.Length(seq.term)
            f = z3.Function('len_' + str(seq.term.sort()), seq.term.sort(), IntS)
            n = f(seq.term)
            self.assume(n >= 0)
            return n
        raise Unsupported('len of %r' % (seq,))

    def new_exc(self, cls, *args):
        return ExcV(cls, args)

    def raise_(self, cls, *args):
        raise PyExc(ExcV(cls, args))

    # ---------------------------------------------------------------- functions
    def call(self, fn, args, kwargs=None):
        kwargs = kwargs or {}
        if isinstance(fn, FuncDefV):
            return self.call_funcdef(fn, args, kwargs)
        if isinstance(fn, Builtin):
            return fn.fn(self, *args, **kwargs)
        if isinstance(fn, BoundMethod):
            return fn.fn(self, fn.recv, *args, **kwargs)
        if isinstance(fn, UFunc):
            return fn.apply(self, args, kwargs)
        if isinstance(fn, ClassV):
            return self.instantiate(fn, args, kwargs)
        if isinstance(fn, self.lib.TypeV) and getattr(fn, 'ctor', None) is not None:
            return fn.ctor(self, *args, **kwargs)
        if isinstance(fn, Opaque):
            return self.lib.call_opaque(self, fn, '__call__', args, kwargs)
        if isinstance(fn, Instance):
            m = self.lib.find_method(fn.cls, '__call__')
            if m is not None:
                return self.call_funcdef(m, [fn] + list(args), kwargs)
        raise Unsupported('call of %r' % (fn,))

    def bind_args(self, fn, args, kwargs):
        node = fn.node
        a = node.args
        env = Env(fn.env)
        pos = [x.arg for x in a.posonlyargs + a.args]
        defaults = a.defaults
        ndef = len(defaults)
        args = list(args)
        kwargs = dict(kwargs)
        for i, name in enumerate(pos):
            if i < len(args):
                env.vars[name] = args[i]
                if name in kwargs:
                    self.raise_('TypeError', 'multiple values for %s' % name)
            elif name in kwargs:
                env.vars[name] = kwargs.pop(name)
            else:
                di = i - (len(pos) - ndef)
                if di >= 0:
                    env.vars[name] = self.eval_default(fn, defaults[di])
                else:
                    self.raise_('TypeError', 'missing argument %s' % name)
        extra = args[len(pos):]
        if a.vararg:
            env.vars[a.vararg.arg] = tuple(extra)
        elif extra:
            self.raise_('TypeError', 'too many positional arguments')
        for x, d in zip(a.kwonlyargs, a.kw_defaults):
            if x.arg in kwargs:
                env.vars[x.arg] = kwargs.pop(x.arg)
            elif d is not None:
                env.vars[x.arg] = self.eval_default(fn, d)
            else:
                self.raise_('TypeError', 'missing kw argument %s' % x.arg)
        if a.kwarg:
            env.vars[a.kwarg.arg] = PyDict(kwargs)
        elif kwargs:
            self.raise_('TypeError', 'unexpected keyword %s' % list(kwargs))
        return env

    def eval_default(self, fn, node):
        # NOTE: Python evaluates defaults once at def time; mutable defaults are shared between calls.
        # Defaults are evaluated in the defining environment; literal mutable defaults are re-created per call,
        # which is recorded as an assumption when it matters (mutable default written to).
        # (as of round 4: evaluated on first use and then SHARED by all later calls of the same function object on this path,
        #  which is Python's behaviour for `def f(x, acc=[])` / `def __call__(self, source=DataStream())`)
        cache = fn.__dict__.setdefault('_default_cache', {})
        key = id(node)
        if key not in cache:
            cache[key] = self.eval(node, fn.env)
        return cache[key]

    def call_funcdef(self, fn, args, kwargs):
        if fn.is_gen:
            return GenObj(fn, args, kwargs)
        r = self.run_body(fn, args, kwargs)
        if isinstance(r, GenObj) and not getattr(fn, 'is_module', False):
            # provenance: a plain function that hands back the un-run generator of another one (a dispatcher) -- call-site
            # contracts that name the callee (fn_named) accept the generator as the result of calling either
            r.via = getattr(r, 'via', ()) + ((fn, tuple(args)),)
        return r

    def run_body(self, fn, args, kwargs):
        """execute the body of fn (also used for running a generator's body, yields become events)"""
        env = self.bind_args(fn, args, kwargs)
        if len(self.frames) > 40:
            raise Unsupported('call depth')
        self.frames.append(fn)
        self.env_stack.append(env)
        self.engine.entered.add((getattr(fn.module, 'name', None), getattr(fn.node, 'lineno', None)))
        saved_loops = self.loop_counter.get(fn.qualname)
        self.loop_counter[fn.qualname] = 0
        try:
            if isinstance(fn.node, ast.Lambda):
                return self.eval(fn.node.body, env)
            try:
                self.exec_block(fn.node.body, env)
            except _Return as r:
                return r.v
            return None
        finally:
            self.frames.pop()
            self.env_stack.pop()
            if saved_loops is not None:
                self.loop_counter[fn.qualname] = saved_loops
            if self.path.env is None or not self.frames:
                self.path.env = env
            self.last_env = env

    def run_generator(self, gen):
        """run a GenObj's body inline; its yields become events of the current path"""
        if not isinstance(gen, GenObj):
            raise Unsupported('run_generator of %r' % (gen,))
        return self.run_body(gen.fn, gen.args, gen.kwargs)

    def instantiate(self, cls, args, kwargs):
        if cls.node is None:
            # builtin / external class
            return self.lib.instantiate_external(self, cls, args, kwargs)
        inst = Instance(cls)
        init = self.lib.find_method(cls, '__init__')
        if init is not None:
            self.call_funcdef_forced(init, [inst] + list(args), kwargs)
        elif self.lib.is_exception_class(cls):
            pass
        if self.lib.is_exception_class(cls):
            e = ExcV(cls.name, args)
            e.attrs = inst.attrs
            e.inst = inst
            return e
        return inst

    def call_funcdef_forced(self, fn, args, kwargs):
        return self.run_body(fn, args, kwargs)

    # ---------------------------------------------------------------- statements
    def exec_block(self, stmts, env):
        for s in stmts:
            self.exec(s, env)

    def exec(self, node, env):
        if time.time() > self.engine.deadline:
            raise Budget('exploration exceeded its time budget of %d s' % self.engine.budget_s)
        m = getattr(self, 'exec_' + node.__class__.__name__, None)
        if m is None:
            raise Unsupported('statement %s' % node.__class__.__name__)
        return m(node, env)

    def exec_Expr(self, node, env):
        v = node.value
        if isinstance(v, ast.Constant):
            return  # docstring
        self.eval(v, env)

    def exec_Pass(self, node, env):
        pass

    def exec_Assign(self, node, env):
        v = self.eval(node.value, env)
        for t in node.targets:
            self.assign_target(t, v, env)

    def exec_AnnAssign(self, node, env):
        if node.value is not None:
            self.assign_target(node.target, self.eval(node.value, env), env)

    def exec_AugAssign(self, node, env):
        tgt = node.target
        if isinstance(tgt, ast.Name):
            cur = self.eval(ast.Name(id=tgt.id, ctx=ast.Load()), env)
            new = self.lib.binop(self, node.op, cur, self.eval(node.value, env), inplace=True)
            env.assign(tgt.id, new)
        elif isinstance(tgt, ast.Subscript):
            obj = self.eval(tgt.value, env)
            key = self.eval_slice(tgt.slice, env)
            cur = self.lib.getitem(self, obj, key)
            new = self.lib.binop(self, node.op, cur, self.eval(node.value, env), inplace=True)
            self.lib.setitem(self, obj, key, new)
        elif isinstance(tgt, ast.Attribute):
            obj = self.eval(tgt.value, env)
            cur = self.lib.getattr_(self, obj, tgt.attr)
            new = self.lib.binop(self, node.op, cur, self.eval(node.value, env), inplace=True)
            self.lib.setattr_(self, obj, tgt.attr, new)
        else:
            raise Unsupported('augassign target')

    def assign_target(self, t, v, env):
        if isinstance(t, ast.Name):
            env.assign(t.id, v)
        elif isinstance(t, (ast.Tuple, ast.List)):
            items = self.lib.unpack(self, v, len(t.elts))
            for tt, vv in zip(t.elts, items):
                self.assign_target(tt, vv, env)
        elif isinstance(t, ast.Subscript):
            obj = self.eval(t.value, env)
            key = self.eval_slice(t.slice, env)
            self.lib.setitem(self, obj, key, v)
        elif isinstance(t, ast.Attribute):
            obj = self.eval(t.value, env)
            self.lib.setattr_(self, obj, self.mangle(t.attr), v)
        else:
            raise Unsupported('assign target %s' % t.__class__.__name__)

    def exec_Delete(self, node, env):
        for t in node.targets:
            if isinstance(t, ast.Subscript):
                obj = self.eval(t.value, env)
                key = self.eval_slice(t.slice, env)
                self.lib.delitem(self, obj, key)
            else:
                raise Unsupported('del target')

    def exec_If(self, node, env):
        c = self.truth(self.eval(node.test, env))
        if self.term_mode and not isinstance(c, bool) and not z3.is_true(z3.simplify(c)) and not z3.is_false(z3.simplify(c)):
            # inside a symbolic comprehension body no forking is possible: a pure `if` whose two arms both return a
            # value is merged into an if-then-else term
            outs = []
            for arm, armc in ((node.body, c), (node.orelse, z3.Not(c))):
                n_ev = len(self.path.events)
                ng = len(self.guards[-1]) if self.guards else 0
                try:
                    self.exec_block(arm, Env(env))
                except _Return as r:
                    outs.append(r.v)
                else:
                    raise Unsupported('if-statement inside a symbolic comprehension body that does not return on both arms')
                if self.guards:
                    # an implicit exception inside an arm can only happen when that arm is taken
                    self.guards[-1][ng:] = [(z3.Implies(armc, g), cl) for g, cl in self.guards[-1][ng:]]
                if len(self.path.events) != n_ev:
                    raise Unsupported('side effect inside a merged if-statement')
            raise _Return(self.lib.ite(self, c, outs[0], outs[1]))
        if self.branch(c):
            self.exec_block(node.body, env)
        else:
            self.exec_block(node.orelse, env)

    def exec_Return(self, node, env):
        raise _Return(self.eval(node.value, env) if node.value is not None else None)

    def exec_Break(self, node, env):
        raise _Break()

    def exec_Continue(self, node, env):
        raise _Continue()

    def exec_Nonlocal(self, node, env):
        env.nonlocals.update(node.names)

    def exec_Global(self, node, env):
        env.globals.update(node.names)

    def exec_Import(self, node, env):
        for a in node.names:
            env.assign(a.asname or a.name.split('.')[0], self.lib.import_module(self, a.name, env))

    def exec_ImportFrom(self, node, env):
        mod = self.lib.import_from(self, node, env)
        for a in node.names:
            if a.name == '*':
                continue
            raw = mod.attrs.get(a.name) if isinstance(mod, ModuleV) else None
            if isinstance(raw, self.lib.Unresolved):
                env.assign(a.asname or a.name, raw)      # stays unresolved under the new name; an error only if used
                continue
            env.assign(a.asname or a.name, self.lib.getattr_(self, mod, a.name))

    def exec_FunctionDef(self, node, env):
        outer = self.frames[-1].qualname + '.<locals>.' if self.frames and not getattr(self.frames[-1], 'is_module', False) else ''
        f = FuncDefV(node, env, self.frames[-1].module if self.frames else None, outer + node.name)
        f.mangle_cls = getattr(self.frames[-1], 'cls', None) if self.frames else None
        if node.decorator_list:
            raise Unsupported('decorated nested function')
        env.assign(node.name, f)

    def exec_ClassDef(self, node, env):
        bases = []
        for b in node.bases:
            bv = self.eval(b, env)
            if isinstance(bv, self.lib.TypeV) and not isinstance(bv, ClassV):
                bv = ClassV(bv.name, node=None)
            bases.append(bv)
        mod = self.frames[-1].module if self.frames else None
        cls = ClassV(node.name, node=node, module=mod, bases=bases)
        cenv = Env(env)
        for st in node.body:
            if isinstance(st, ast.FunctionDef):
                f = FuncDefV(st, env, mod, node.name + '.' + st.name, cls=cls)
                for d in st.decorator_list:
                    dn = d.id if isinstance(d, ast.Name) else getattr(d, 'attr', None)
                    if dn == 'staticmethod':
                        f.is_static = True
                    elif dn == 'classmethod':
                        f.is_classmethod = True
                    elif dn == 'property':
                        f.is_property = True
                    else:
                        raise Unsupported('decorator %s' % dn)
                mname = st.name
                if mname.startswith('__') and not mname.endswith('__'):
                    mname = '_%s%s' % (node.name.lstrip('_'), mname)
                cls.methods[mname] = f
                cenv.vars[mname] = f
            elif isinstance(st, (ast.Assign, ast.AnnAssign)):
                try:
                    self.exec(st, cenv)
                except Unsupported as e:
                    for n in ast.walk(st):
                        if isinstance(n, ast.Name) and isinstance(n.ctx, ast.Store):
                            cenv.vars[n.id] = self.lib.Unresolved(str(e))
            elif isinstance(st, ast.Expr) and isinstance(st.value, ast.Constant):
                pass
            elif isinstance(st, ast.Pass):
                pass
            elif isinstance(st, ast.ClassDef):
                self.exec_ClassDef(st, cenv)
            else:
                raise Unsupported('class body statement %s' % st.__class__.__name__)
        for k, v in cenv.vars.items():
            if k not in cls.methods:
                cls.attrs[k] = v
        self.classes[node.name] = cls
        env.assign(node.name, cls)

    def exec_Assert(self, node, env):
        c = self.truth(self.eval(node.test, env))
        if not self.branch(c):
            msg = ()
            if node.msg is not None:
                try:
                    msg = (self.eval(node.msg, env),)
                except Unsupported:
                    msg = ()
            raise PyExc(ExcV('AssertionError', msg))

    def exec_Raise(self, node, env):
        if node.exc is None:
            if not self.cur_exc:
                self.raise_('RuntimeError', 'No active exception to reraise')
            raise PyExc(self.cur_exc[-1])
        v = self.eval(node.exc, env)
        if isinstance(v, ClassV):
            v = self.instantiate(v, [], {})
        if not isinstance(v, ExcV):
            raise Unsupported('raise of %r' % (v,))
        if node.cause is not None:
            v.cause = self.eval(node.cause, env)
        raise PyExc(v)

    def exec_Try(self, node, env):
        run_final = True
        try:
            try:
                self.exec_block(node.body, env)
            except PyExc as pe:
                exc = pe.exc
                for h in node.handlers:
                    if h.type is None:
                        matched = True
                    else:
                        ht = self.eval(h.type, env)
                        matched = self.branch(self.lib.exc_isinstance(self, exc, ht))
                    if matched:
                        if h.name:
                            env.assign(h.name, exc)
                        self.cur_exc.append(exc)
                        try:
                            self.exec_block(h.body, env)
                        finally:
                            self.cur_exc.pop()
                        break
                else:
                    raise
            else:
                self.exec_block(node.orelse, env)
        except PathEnd as pe:
            # the end of a cut-loop iteration / an infeasible path is an artefact of the exploration, not of the
            # program: `finally` blocks run only when the generator is abandoned (GeneratorExit)
            if pe.how != 'abandon':
                run_final = False
            raise
        except Unsupported:
            run_final = False
            raise
        finally:
            if node.finalbody and run_final:
                self.exec_block(node.finalbody, env)

    def exec_With(self, node, env):
        for item in node.items:
            cm = self.eval(item.context_expr, env)
            v = self.lib.enter_context(self, cm)
            if item.optional_vars is not None:
                self.assign_target(item.optional_vars, v, env)
        try:
            self.exec_block(node.body, env)
        finally:
            for item in node.items:
                pass
        # exit handlers of modelled context managers are effect-free in the subset

    def exec_While(self, node, env):
        label = self.next_loop_label(node)
        spec = self.find_loop_spec(label)
        if spec is None or getattr(spec, 'unroll', None):
            # concrete unrolling (bounded by spec.unroll or 64)
            bound = getattr(spec, 'unroll', 64) if spec else 64
            n = 0
            while True:
                c = self.truth(self.eval(node.test, env))
                if not self.branch(c):
                    break
                n += 1
                if n > bound:
                    raise Unsupported('while loop exceeds unroll bound %d (%s)' % (bound, label))
                try:
                    self.exec_block(node.body, env)
                except _Break:
                    return
                except _Continue:
                    continue
            self.exec_block(node.orelse, env)
            return
        self.cut_while(node, env, label, spec)

    def find_loop_spec(self, label):
        if label in self.loops:
            self.engine.loop_keys_hit.add(label)
            return self.loops[label]
        for k, v in self.loops.items():
            if label.endswith('.' + k) or label.endswith('.<locals>.' + k):
                self.engine.loop_keys_hit.add(k)
                return v
        return None

    def next_loop_label(self, node=None):
        """label of a loop = <function qualname>#L<ordinal of the loop in source order within that function>"""
        fn = self.frames[-1] if self.frames else None
        q = fn.qualname if fn else '<top>'
        if fn is not None and node is not None:
            table = getattr(fn, '_loop_ordinals', None)
            if table is None:
                body = fn.node.body if not isinstance(fn.node, ast.Lambda) else []
                loops = [n for n in _walk_no_nested(body) if isinstance(n, (ast.For, ast.While))]
                loops.sort(key=lambda n: (n.lineno, n.col_offset))
                table = {id(n): i for i, n in enumerate(loops)}
                fn._loop_ordinals = table
            # a loop contract keyed by an ordinal the function does not have (loops were moved out of it / merged): the
            # contract no longer maps onto the code -- undecided, never a verdict about some OTHER loop
            chk = getattr(fn, '_loop_keys_checked', None)
            if chk is not self.loops:
                fn._loop_keys_checked = self.loops
                for k in self.loops:
                    nm, _, o = k.partition('#L')
                    if o.isdigit() and int(o) >= len(table) and len(table) > 0 and \
                            (q == nm or q.endswith('.' + nm) or q.endswith('.<locals>.' + nm)):
                        raise Unsupported('CONTRACT-MAPPING loop contract %s: %s has only %d loop statement(s)' % (k, q, len(table)))
            if id(node) in table:
                return '%s#L%d' % (q, table[id(node)])
            if not table and self.loop_counter.get(q, 0) == 0:
                # the function has no loop statement and this is its first desugared loop (`yield from (x for x in xs)`):
                # it takes the place of loop 0, so a contract stated for `for x in xs: ... yield ...` still applies
                self.loop_counter[q] = 1
                return '%s#L0' % q
        n = self.loop_counter.get(q, 0)
        self.loop_counter[q] = n + 1
        return '%s#X%d' % (q, n)

    def exec_For(self, node, env):
        label = self.next_loop_label(node)
        it = self.eval(node.iter, env)
        kind, payload = self.lib.iterate(self, it)
        if kind == 'concrete':
            for v in payload:
                self.assign_target(node.target, v, env)
                try:
                    self.exec_block(node.body, env)
                except _Break:
                    return
                except _Continue:
                    continue
            self.exec_block(node.orelse, env)
            return
        if self.find_loop_spec(label) is None and self.try_map_loop(node, env, label, payload):
            return
        if self.find_loop_spec(label) is None and self.try_items_map_loop(node, env, label, payload):
            return
        self.cut_for(node, env, label, payload)

    def try_map_loop(self, node, env, label, src):
        """summarise `for e in S: d[e] = g(e)` (S an opaque sequence of strings, g independent of d) as a pointwise
        update  d' = lambda k. g(k) if k in S else d[k].  Returns False when the loop does not have that shape."""
        SeqSource = self.lib.SeqSource
        if not isinstance(src, SeqSource) or not z3.is_seq(src.seq.term) or node.orelse:
            return False
        if not isinstance(node.target, ast.Name):
            return False
        for n in _walk_no_nested(node.body):
            if isinstance(n, (ast.Yield, ast.YieldFrom, ast.Break, ast.Continue, ast.Return, ast.For, ast.While, ast.Try,
                              ast.Raise, ast.If)):
                return False
        names, mutated = self.modified_in(node.body)
        if names - {node.target.id} or len(mutated) != 1:
            return False
        tname = next(iter(mutated))
        if '.' in tname:
            return False
        e = env.find(tname)
        if e is None or not isinstance(e.vars[tname], Row):
            return False
        row = e.vars[tname]
        dom0, val0 = row.dom, row.val
        ev0 = len(self.path.events)
        pc0 = len(self.path.pc)
        cnt0 = dict(self.counter)
        elem = src.fresh_elem(self)
        var = src.last_vars[0]
        env2 = Env(env)
        env2.vars[node.target.id] = elem
        self.term_mode += 1
        self.map_loop_mode = True
        self.guards.append([])
        ok = True
        try:
            try:
                self.exec_block(node.body, env2)
            except Unsupported:
                ok = False
        finally:
            self.term_mode -= 1
            self.map_loop_mode = False
            guards = self.guards.pop()
        evs = self.path.events[ev0:]
        del self.path.events[ev0:]
        membership = self.path.pc[pc0:]
        del self.path.pc[pc0:]
        if not ok or env2.vars.keys() - {node.target.id} or len(evs) != 1 or evs[0].kind != 'RowWrite' or evs[0].obj is not row \
                or not z3.simplify(evs[0].key).eq(var):
            row.dom, row.val = dom0, val0
            self.counter = cnt0
            return False
        vt = self.cell_of(evs[0].value)
        if self.lib._mentions(vt, dom0) or self.lib._mentions(vt, val0):
            row.dom, row.val = dom0, val0
            self.counter = cnt0
            return False
        S = src.seq.term
        if guards:
            classes = {c for _, c in guards}
            allok = DEFS.sym('ALL', [S], [var], [g for g, _ in guards], BoolS)
            row.dom, row.val = dom0, val0
            if not self.branch(allok):
                if len(classes) != 1:
                    raise Unsupported('map loop may raise different exception classes')
                raise PyExc(ExcV(classes.pop(), ()))
        k = z3.Const('__mk', StrS)
        inS = z3.Contains(S, z3.Unit(k))
        row.dom = z3.Lambda([k], z3.Or(dom0[k], inS))
        row.val = z3.Lambda([k], z3.If(inS, z3.substitute(vt, (var, k)), val0[k]))
        self.emit(Ev('RowMapLoop', obj=row, seq=src.seq, label=label))
        env.vars.pop(node.target.id, None) if False else None
        return True

    def try_items_map_loop(self, node, env, label, src):
        """summarise   for k, v in r.items(): [if c(k, v):] r[k] = f(k, v)
        (r the very row being iterated, c and f independent of r's other cells and free of effects) as the pointwise update
            r' = { k: f(k, v) if c(k, v) else v   for k, v in r.items() }
        Sound because dict iteration visits every key exactly once when no key is inserted or deleted, and writing the
        current key is not a structural change.  Returns False when the loop does not have that shape."""
        lib = self.lib
        if not isinstance(src, lib.RowItemsSource) or src.what != 'items' or node.orelse:
            return False
        tg = node.target
        if not (isinstance(tg, ast.Tuple) and len(tg.elts) == 2 and all(isinstance(e, ast.Name) for e in tg.elts)):
            return False
        kname, vname = tg.elts[0].id, tg.elts[1].id
        if len(node.body) != 1:
            return False
        st = node.body[0]
        test = None
        if isinstance(st, ast.If) and not st.orelse and len(st.body) == 1:
            test, st = st.test, st.body[0]
        if not (isinstance(st, ast.Assign) and len(st.targets) == 1 and isinstance(st.targets[0], ast.Subscript)
                and isinstance(st.targets[0].value, ast.Name) and isinstance(st.targets[0].slice, ast.Name)
                and st.targets[0].slice.id == kname):
            return False
        row = src.row
        try:
            if self.eval(st.targets[0].value, env) is not row:
                return False
        except Unsupported:
            return False
        for sub in ([test] if test is not None else []) + [st.value]:
            for n in ast.walk(sub):
                if isinstance(n, (ast.Yield, ast.YieldFrom, ast.Await, ast.NamedExpr, ast.Lambda)):
                    return False
        dom0, val0 = row.dom, row.val
        ev0, pc0, cnt0 = len(self.path.events), len(self.path.pc), dict(self.counter)
        kvar = self.fresh('mk', StrS)
        vvar = self.fresh('mv', Cell)
        env2 = Env(env)
        env2.vars[kname] = SV(kvar)
        env2.vars[vname] = self.uncell(vvar)
        self.term_mode += 1
        self.guards.append([])
        ok = True
        ct = vt = None
        try:
            try:
                c = True if test is None else self.truth(self.eval(test, env2))
                ct = z3.BoolVal(c) if isinstance(c, bool) else c
                ng = len(self.guards[-1])
                v = self.eval(st.value, env2)
                vt = self.cell_of(v)
                # the value is computed only when the test holds
                self.guards[-1][ng:] = [(z3.Implies(ct, g), cl) for g, cl in self.guards[-1][ng:]]
            except Unsupported:
                ok = False
        finally:
            self.term_mode -= 1
            guards = self.guards.pop()
        clean = ok and len(self.path.events) == ev0 and len(self.path.pc) == pc0 and not (env2.vars.keys() - {kname, vname})
        del self.path.events[ev0:]
        del self.path.pc[pc0:]
        if clean:
            for t in (ct, vt):
                if lib._mentions(t, dom0) or lib._mentions(t, val0):
                    clean = False
        if clean:
            for g, _cl in guards:
                # no iteration may raise: each possible implicit exception must be excluded for every key of the row
                hyp = list(self.path.pc) + [dom0[kvar], vvar == val0[kvar]]
                if not smt_valid(hyp, g):
                    clean = False
                    break
        if not clean:
            self.counter = cnt0
            return False
        j = z3.Const('__mj', StrS)
        sub = [(kvar, j), (vvar, val0[j])]
        cj = z3.substitute(ct, *sub)
        vj = z3.substitute(vt, *sub)
        row.val = z3.Lambda([j], z3.If(z3.And(dom0[j], cj), vj, val0[j]))
        self.emit(Ev('RowMapLoop', obj=row, seq=None, label=label))
        return True

    # ---------------------------------------------------------------- cut loops
    def modified_in(self, stmts):
        names, mutated = set(), set()
        for n in _walk_no_nested(stmts):
            if isinstance(n, ast.Name) and isinstance(n.ctx, (ast.Store, ast.Del)):
                names.add(n.id)
            elif isinstance(n, ast.AugAssign) and isinstance(n.target, ast.Name):
                names.add(n.target.id)
            elif isinstance(n, (ast.Subscript, ast.Attribute)) and isinstance(n.ctx, (ast.Store, ast.Del)):
                mutated.add(self._access_path(n.value))
            elif isinstance(n, ast.Call) and isinstance(n.func, ast.Attribute) and n.func.attr in MUTATORS:
                mutated.add(self._access_path(n.func.value))
        mutated.discard(None)
        return names, mutated

    @staticmethod
    def _access_path(b):
        """'name' or 'name.attr.attr' for Name / Attribute chains on a Name (subscripts end the path)"""
        attrs = []
        while isinstance(b, (ast.Subscript, ast.Attribute)):
            if isinstance(b, ast.Attribute):
                attrs.append(b.attr)
            else:
                attrs = []
            b = b.value
        if isinstance(b, ast.Name):
            return '.'.join([b.id] + list(reversed(attrs)))
        return None

    def havoc_value(self, name, v):
        """fresh value of the same shape"""
        if isinstance(v, bool):
            return SV(self.fresh('hv_' + name, BoolS))
        if isinstance(v, int):
            return SV(self.fresh('hv_' + name, IntS))
        if isinstance(v, str):
            return SV(self.fresh('hv_' + name, StrS))
        if isinstance(v, SV):
            return SV(self.fresh('hv_' + name, v.t.sort()))
        if v is None:
            # unknown shape: keep None is unsound; represent as an arbitrary cell
            return SV(self.fresh('hv_' + name, Cell))
        raise Unsupported('havoc of %s = %r' % (name, v))

    def havoc_obj(self, name, v):
        """havoc the contents of a mutable object in place"""
        if isinstance(v, Row):
            v.dom = self.fresh('hv_%s.dom' % name, DomS)
            v.val = self.fresh('hv_%s.val' % name, ValS)
        elif isinstance(v, SetV):
            if v.elem_sort is None:
                v.havoc_name = str(self.fresh('hv_%s.set' % name, IntS))
            else:
                v.arr = self.fresh('hv_%s.set' % name, v.arr.sort())
        elif isinstance(v, (PyList, SymList)):
            raise Unsupported('havoc of list %s (use accumulator form)' % name)
        elif isinstance(v, PyDict):
            # dict accumulator filled inside the loop: contents become opaque
            v.d.clear()
            v.havocked = self.fresh('hv_%s.dict' % name, IntS)
        elif isinstance(v, Opaque) or isinstance(v, Stream):
            pass
        else:
            raise Unsupported('havoc of object %s = %r' % (name, v))

    def havoc_loop_state(self, body, env, spec, label):
        names, mutated = self.modified_in(body)
        keep = set(getattr(spec, 'keep', ()) or ())
        hv = {}
        for n in sorted(names | set(getattr(spec, 'havoc_extra', ()) or ())):
            if n in keep:
                continue
            e = env.find(n)
            if e is None:
                continue   # loop-local
            cur = e.vars[n]
            if isinstance(cur, Obj) and not isinstance(cur, (Opaque, Stream)):
                # rebinding of an object-valued variable inside the loop
                new = self.lib.havoc_rebound(self, n, cur)
            elif isinstance(cur, (Opaque, Stream, FuncDefV, UFunc, GenObj, RegexV)):
                new = self.lib.havoc_rebound(self, n, cur)
            else:
                new = self.havoc_value(n, cur)
            e.vars[n] = new
            hv[n] = new
        for path in sorted(mutated):
            parts = path.split('.')
            n = parts[0]
            if n in keep or n in names or path in keep:
                continue
            e = env.find(n)
            if e is None:
                continue
            cur = e.vars[n]
            if len(parts) == 1 and n in (getattr(spec, 'as_row', ()) or ()) and isinstance(cur, PyDict) and \
                    all(isinstance(k, str) for k in cur.d):
                # a dict accumulator with string keys that the loop fills from symbolic maps: after an arbitrary number of
                # iterations it is an arbitrary finite map (the contract states the per-iteration step on it)
                e.vars[n] = Row(self.fresh('hv_%s.dom' % n, DomS), self.fresh('hv_%s.val' % n, ValS), name='hv_' + n)
                continue
            holder, attr = None, None
            for a in parts[1:]:
                if isinstance(cur, (Instance, Opaque)) and a in cur.attrs:
                    holder, attr = cur, a
                    cur = cur.attrs[a]
                else:
                    break
            if isinstance(cur, (PyList, SymList)):
                # accumulator: becomes symbolic prefix ++ []
                new = self.lib.havoc_list(self, path, cur)
                if holder is not None:
                    holder.attrs[attr] = new
                else:
                    e.vars[n] = new
            elif isinstance(cur, Obj):
                self.havoc_obj(path, cur)
        return hv

    def cut_for(self, node, env, label, src):
        """src: lib.SymSource describing the opaque iterable"""
        spec = self.find_loop_spec(label)
        if spec is None:
            # a loop cut WITHOUT a loop contract: everything it may modify is havocked and nothing is known afterwards.  A
            # refutation found on such a path may be an artefact of the missing invariant (undecided, not a violation)
            self.path.info.setdefault('needs_invariant', 'loop %s is cut without a loop contract' % label.split('.')[-1])
            spec = LoopSpec()
        modes = [m for m in ('iter', 'exit') if m in spec.modes]
        if getattr(src, 'may_raise', False) and ('raise' in spec.modes or spec.modes == ('iter', 'exit')):
            modes.append('raise')
        # invariant must hold on entry
        if spec.inv is not None:
            self.emit(Ev('InvCheck', label=label, when='entry', formula=spec.inv(self, env)))
        if spec.at_entry is not None:
            spec.at_entry(self, env)
        if getattr(spec, 'inv_n', None) is not None:
            self.emit(Ev('InvCheck', label=label, when='entry-counted', formula=spec.inv_n(self, env, z3.IntVal(0))))

        def feas(i):
            return True
        d = self.decide(len(modes), feas)
        mode = modes[d]
        self.path.seg.append((label, mode))
        self.path.marks[label] = len(self.path.events)
        self.havoc_loop_state(node.body + node.orelse, env, spec, label)
        if spec.inv is not None:
            self.assume(spec.inv(self, env))
        # ghost: number of iterations completed before this point (all of them, in exit mode)
        n_done = self.fresh('n_' + label.split('.')[-1], IntS)
        self.assume(n_done >= 0)
        self.path.info['count:' + label.split('.')[-1]] = n_done
        if getattr(spec, 'inv_n', None) is not None:
            self.assume(spec.inv_n(self, env, n_done))
        seq_len = getattr(getattr(src, 'seq', None), 'length', None)
        if seq_len is not None:
            # a sequence of known (symbolic) length, e.g. range(n): n_done < n inside, n_done == n at exhaustion
            self.assume(n_done < seq_len if mode == 'iter' else n_done == seq_len)
        if mode == 'iter':
            elem = src.fresh_elem(self)
            if isinstance(src, (self.lib.EnumSource, self.lib.ZipLongestSource)):
                # enumerate() / zip_longest(): the index of this element is start + number of elements before it
                self.assume(src.index == term(src.start, IntS) + n_done)
            self.emit(Ev('Pull', src=src.name, elem=elem, label=label))
            self.assign_target(node.target, elem, env)
            captured = spec.at_start(self, env, elem) if spec.at_start else None
            mark = len(self.path.events)
            try:
                self.exec_block(node.body, env)
            except _Break:
                self.path.seg[-1] = (label, 'break')
                self.emit(Ev('Break', label=label))
                if spec.at_break:
                    spec.at_break(self, env, captured, self.path.events[mark:])
                elif spec.at_end:
                    # the contract describes this loop iteration by iteration and does not expect an early exit
                    self.emit(Ev('Check', name='%s.no-unexpected-break' % label.split('.')[-1], formula=z3.BoolVal(False),
                                 hyps=list(self.path.pc), info={}))
                return     # continue after the loop on this path
            except _Continue:
                pass
            if spec.at_end:
                spec.at_end(self, env, captured, self.path.events[mark:])
            if spec.inv is not None:
                self.emit(Ev('InvCheck', label=label, when='step', formula=spec.inv(self, env)))
            if getattr(spec, 'inv_n', None) is not None:
                self.emit(Ev('InvCheck', label=label, when='step-counted', formula=spec.inv_n(self, env, n_done + 1)))
            self.path.env = env
            raise PathEnd('iter-end')
        elif mode == 'exit':
            src.on_exhausted(self)
            self.emit(Ev('Exhausted', src=src.name, label=label))
            if spec.at_exit:
                spec.at_exit(self, env)
            self.exec_block(node.orelse, env)
            return
        else:
            e = src.fresh_exception(self)
            self.emit(Ev('PullRaises', src=src.name, exc=e, label=label))
            raise PyExc(e)

    def cut_while(self, node, env, label, spec):
        modes = ['iter', 'exit']
        if spec.inv is not None:
            self.emit(Ev('InvCheck', label=label, when='entry', formula=spec.inv(self, env)))
        d = self.decide(2, lambda i: True)
        mode = modes[d]
        self.path.seg.append((label, mode))
        self.path.marks[label] = len(self.path.events)
        self.havoc_loop_state(node.body + node.orelse, env, spec, label)
        if spec.inv is not None:
            self.assume(spec.inv(self, env))
        c = self.truth(self.eval(node.test, env))
        if mode == 'iter':
            self.assume(c if not isinstance(c, bool) else c)
            measure0 = spec.decreases(self, env) if getattr(spec, 'decreases', None) else None
            captured = spec.at_start(self, env, None) if spec.at_start else None
            mark = len(self.path.events)
            try:
                self.exec_block(node.body, env)
            except _Break:
                self.path.seg[-1] = (label, 'break')
                if spec.at_break:
                    spec.at_break(self, env, captured, self.path.events[mark:])
                return
            except _Continue:
                pass
            if spec.at_end:
                spec.at_end(self, env, captured, self.path.events[mark:])
            if spec.inv is not None:
                self.emit(Ev('InvCheck', label=label, when='step', formula=spec.inv(self, env)))
            if measure0 is not None:
                m1 = spec.decreases(self, env)
                self.emit(Ev('InvCheck', label=label, when='decreases', formula=z3.And(m1 < measure0, measure0 > 0)))
            self.path.env = env
            raise PathEnd('iter-end')
        else:
            self.assume(z3.Not(c) if not isinstance(c, bool) else (not c))
            if spec.at_exit:
                spec.at_exit(self, env)
            self.exec_block(node.orelse, env)

    # ---------------------------------------------------------------- expressions
    def eval(self, node, env):
        m = getattr(self, 'eval_' + node.__class__.__name__, None)
        if m is None:
            raise Unsupported('expression %s' % node.__class__.__name__)
        return m(node, env)

    def eval_Constant(self, node, env):
        v = node.value
        if v is None or isinstance(v, (bool, int, str, float)):
            return v
        if v is Ellipsis:
            raise Unsupported('Ellipsis')
        if isinstance(v, bytes):
            return self.lib.BytesV(v)
        return v

    def eval_Name(self, node, env):
        try:
            return env.lookup(node.id)
        except KeyError:
            pass
        b = self.lib.builtin(self, node.id)
        if b is not None:
            return b
        # a local of the running function that is read before it was assigned (e.g. after an `except` that swallowed the
        # failure of the statement that binds it): Python raises UnboundLocalError
        fn = self.frames[-1] if self.frames else None
        fnode = getattr(fn, 'node', None)
        if fnode is not None and not getattr(fn, 'is_module', False) and not isinstance(fnode, ast.Lambda):
            for n in _walk_no_nested(fnode.body):
                if isinstance(n, ast.Name) and n.id == node.id and isinstance(n.ctx, ast.Store):
                    self.lib.EXC_PARENT.setdefault('UnboundLocalError', 'NameError')
                    self.lib.EXC_PARENT.setdefault('NameError', 'Exception')
                    raise PyExc(ExcV('UnboundLocalError', ("local variable '%s' referenced before assignment" % node.id,)))
        raise Unsupported('unbound name %s' % node.id)

    def mangle(self, name):
        """Python's private-name mangling inside class bodies: __x -> _Class__x"""
        if name.startswith('__') and not name.endswith('__'):
            for fn in reversed(self.frames):
                c = getattr(fn, 'cls', None) or getattr(fn, 'mangle_cls', None)
                if c is not None:
                    return '_%s%s' % (c.name.lstrip('_'), name)
                if getattr(fn, 'is_module', False):
                    break
        return name

    def eval_Attribute(self, node, env):
        obj = self.eval(node.value, env)
        return self.lib.getattr_(self, obj, self.mangle(node.attr))

    def eval_slice(self, s, env):
        if isinstance(s, ast.Slice):
            lo = self.eval(s.lower, env) if s.lower is not None else None
            hi = self.eval(s.upper, env) if s.upper is not None else None
            st = self.eval(s.step, env) if s.step is not None else None
            return slice(lo, hi, st)
        if isinstance(s, ast.Tuple):
            return tuple(self.eval(e, env) for e in s.elts)
        return self.eval(s, env)

    def eval_Subscript(self, node, env):
        obj = self.eval(node.value, env)
        key = self.eval_slice(node.slice, env)
        return self.lib.getitem(self, obj, key)

    def eval_Tuple(self, node, env):
        out = []
        for e in node.elts:
            if isinstance(e, ast.Starred):
                kind, items = self.lib.iterate(self, self.eval(e.value, env))
                if kind != 'concrete':
                    raise Unsupported('starred symbolic')
                out.extend(items)
            else:
                out.append(self.eval(e, env))
        return tuple(out)

    def eval_List(self, node, env):
        return PyList(list(self.eval_Tuple(node, env)))

    def eval_Set(self, node, env):
        return self.lib.make_set(self, [self.eval(e, env) for e in node.elts])

    def eval_Dict(self, node, env):
        d = PyDict()
        for k, v in zip(node.keys, node.values):
            if k is None:
                src = self.eval(v, env)
                d = self.lib.dict_merge(self, d, src)
            else:
                d = self.lib.dict_set(self, d, self.eval(k, env), self.eval(v, env))
        return d

    def eval_Lambda(self, node, env):
        outer = self.frames[-1].qualname + '.<locals>.' if self.frames and not getattr(self.frames[-1], 'is_module', False) else ''
        return FuncDefV(node, env, self.frames[-1].module if self.frames else None, outer + '<lambda>')

    def eval_IfExp(self, node, env):
        c = self.truth(self.eval(node.test, env))
        if isinstance(c, bool):
            return self.eval(node.body if c else node.orelse, env)
        if self.term_mode:
            a = self.eval(node.body, env)
            b = self.eval(node.orelse, env)
            return self.lib.ite(self, c, a, b)
        if self.branch(c):
            return self.eval(node.body, env)
        return self.eval(node.orelse, env)

    def eval_BoolOp(self, node, env):
        is_and = isinstance(node.op, ast.And)
        vals = node.values
        if self.term_mode:
            # no forking inside a term: all operands are evaluated, but an implicit exception of operand i can only happen
            # when the operands before it did not short-circuit -- its guard is weakened accordingly
            ts = []
            for v in vals:
                ng = len(self.guards[-1]) if self.guards else 0
                t = self.truth(self.eval(v, env))
                t = z3.BoolVal(t) if isinstance(t, bool) else t
                if self.guards and ts and len(self.guards[-1]) > ng:
                    pre = z3.And(*ts) if is_and else z3.Not(z3.Or(*ts))
                    self.guards[-1][ng:] = [(z3.Implies(pre, g), cl) for g, cl in self.guards[-1][ng:]]
                ts.append(t)
            return wrap(z3.And(*ts) if is_and else z3.Or(*ts))
        cur = None
        for i, v in enumerate(vals):
            cur = self.eval(v, env)
            if i == len(vals) - 1:
                return cur
            t = self.truth(cur)
            b = self.branch(t)
            if is_and and not b:
                return cur
            if (not is_and) and b:
                return cur
        return cur

    def eval_UnaryOp(self, node, env):
        v = self.eval(node.operand, env)
        if isinstance(node.op, ast.Not):
            t = self.truth(v)
            return (not t) if isinstance(t, bool) else wrap(z3.Not(t))
        if isinstance(node.op, ast.USub):
            if isinstance(v, (int, float)) and not isinstance(v, bool):
                return -v
            if isinstance(v, SV) and (v.t.sort().eq(IntS) or v.t.sort().eq(RealS)):
                return wrap(-v.t)
        raise Unsupported('unary op')

    def eval_BinOp(self, node, env):
        return self.lib.binop(self, node.op, self.eval(node.left, env), self.eval(node.right, env))

    def eval_Compare(self, node, env):
        left = self.eval(node.left, env)
        result = None
        for op, rn in zip(node.ops, node.comparators):
            right = self.eval(rn, env)
            r = self.lib.compare(self, op, left, right)
            if result is None:
                result = r
            else:
                a = z3.BoolVal(result) if isinstance(result, bool) else term(result)
                b = z3.BoolVal(r) if isinstance(r, bool) else term(r)
                result = wrap(z3.And(a, b))
            left = right
        return result

    def eval_Call(self, node, env):
        fn = self.eval(node.func, env)
        args = []
        for a in node.args:
            if isinstance(a, ast.Starred):
                kind, items = self.lib.iterate(self, self.eval(a.value, env))
                if kind != 'concrete':
                    raise Unsupported('starred symbolic arg')
                args.extend(items)
            else:
                args.append(self.eval(a, env))
        kwargs = {}
        for k in node.keywords:
            v = self.eval(k.value, env)
            if k.arg is None:
                kwargs.update(self.lib.kwargs_of(self, v))
            else:
                kwargs[k.arg] = v
        return self.call(fn, args, kwargs)

    def eval_JoinedStr(self, node, env):
        parts = []
        for v in node.values:
            if isinstance(v, ast.Constant):
                parts.append(v.value)
            elif isinstance(v, ast.FormattedValue):
                x = self.eval(v.value, env)
                spec = ''
                if v.format_spec is not None:
                    spec = self.eval(v.format_spec, env)
                    if not isinstance(spec, str):
                        raise Unsupported('symbolic format spec')
                parts.append(self.lib.format_value(self, x, spec, v.conversion))
        return self.lib.str_concat(self, parts)

    def eval_FormattedValue(self, node, env):
        raise Unsupported('bare FormattedValue')

    def eval_GeneratorExp(self, node, env):
        # Python evaluates the FIRST iterable of a generator expression immediately (in the enclosing scope) and binds it
        # to the hidden argument `.0`; everything else is evaluated lazily.  (Matters when the name is rebound afterwards.)
        first = self.eval(node.generators[0].iter, env)
        g0 = node.generators[0]
        cache = getattr(node, '_pyvc_eager', None)
        if cache is None:
            n2 = ast.GeneratorExp(elt=node.elt, generators=[ast.comprehension(
                target=g0.target, iter=ast.Name(id='.0', ctx=ast.Load()), ifs=g0.ifs, is_async=0)] + list(node.generators[1:]))
            ast.copy_location(n2, node)
            ast.fix_missing_locations(n2)
            node._pyvc_eager = n2
            cache = n2
        e2 = Env(env)
        e2.vars['.0'] = first
        return self.lib.GenExp(cache, e2, 'gen')

    def eval_ListComp(self, node, env):
        return self.lib.consume_comp(self, self.lib.GenExp(node, env, 'list'), 'list')

    def eval_SetComp(self, node, env):
        return self.lib.consume_comp(self, self.lib.GenExp(node, env, 'set'), 'set')

    def eval_DictComp(self, node, env):
        return self.lib.consume_comp(self, self.lib.GenExp(node, env, 'dict'), 'dict')

    def eval_Yield(self, node, env):
        v = self.eval(node.value, env) if node.value is not None else None
        self.do_yield(v)
        return None

    def do_yield(self, v):
        snap = v.snapshot() if isinstance(v, Row) else v
        self.emit(Ev('Yield', value=snap, obj=v))
        if self.explore_abandon:
            d = self.decide(2, lambda i: True)
            if d == 1:
                self.emit(Ev('Abandon'))
                raise PathEnd('abandon')
        # adversarial consumer (R7): it may mutate the yielded object before resuming us
        if isinstance(v, Row):
            v.dom = self.fresh('cons.dom', DomS)
            v.val = self.fresh('cons.val', ValS)
            self.emit(Ev('ConsumerMayMutate', obj=v))

    def eval_YieldFrom(self, node, env):
        v = self.eval(node.value, env)
        return self.lib.yield_from(self, v)

    def eval_Starred(self, node, env):
        raise Unsupported('starred expression')

    def eval_NamedExpr(self, node, env):
        v = self.eval(node.value, env)
        env.assign(node.target.id, v)
        return v
