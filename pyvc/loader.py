"""pyvc.loader -- reads the real repository source (ast.parse on every run), resolves imports between repo
modules, provides stubs of standard-library / third-party modules, and records what was read.

What reading drops: comments, docstrings, annotations, print/logging/warnings calls (no-ops), decorators other
than staticmethod/classmethod/property.  Module top-level statements are executed symbolically; a statement
outside the subset leaves the names it binds Unresolved (an error only if they are used).
"""
import ast
import hashlib
import os
import z3

from .values import *  # noqa
from .symex import FuncDefV, Env, PyExc, Ev
from . import lib

REPO = os.environ.get('PYVC_REPO', '/repo')

_src_cache = {}
READ_LOG = {}      # relpath -> sha256 of file


def read_source(relpath):
    p = os.path.join(REPO, relpath)
    st = os.stat(p)
    key = (p, st.st_mtime_ns, st.st_size)
    if key not in _src_cache:
        with open(p, encoding='utf-8') as f:
            src = f.read()
        _src_cache[key] = (src, ast.parse(src, filename=p))
        READ_LOG[relpath] = hashlib.sha256(src.encode()).hexdigest()
    return _src_cache[key]


def function_segment(relpath, qualpath):
    """(source text, first line, last line, sha256) of the function located by names, e.g. ['filter_rows','func']"""
    src, tree = read_source(relpath)
    node = tree
    for name in qualpath:
        found = None
        body = node.body
        for n in ast.walk(node) if False else _defs_in(body):
            if n.name == name:
                found = n
                break
        if found is None:
            raise KeyError('%s::%s not found (at %s)' % (relpath, '.'.join(qualpath), name))
        node = found
    seg = ast.get_source_segment(src, node)
    return seg, node.lineno, node.end_lineno, hashlib.sha256(seg.encode()).hexdigest()


def _defs_in(stmts):
    """function/class definitions reachable without entering another definition"""
    out = []
    stack = list(stmts)
    while stack:
        n = stack.pop(0)
        if isinstance(n, (ast.FunctionDef, ast.ClassDef)):
            out.append(n)
            continue
        for c in ast.iter_child_nodes(n):
            if isinstance(c, ast.stmt):
                stack.append(c)
            elif isinstance(c, (ast.ExceptHandler,)):
                stack.extend(c.body)
    return out


def relpath_of_module(dotted):
    """'dataflows.helpers.resource_matcher' -> file path relative to the repo, or None"""
    parts = dotted.split('.')
    base = os.path.join(*parts)
    for cand in (base + '.py', os.path.join(base, '__init__.py')):
        if os.path.exists(os.path.join(REPO, cand)):
            return cand
    return None


def dotted_of_relpath(relpath):
    p = relpath[:-3] if relpath.endswith('.py') else relpath
    parts = p.split(os.sep)
    if parts[-1] == '__init__':
        parts = parts[:-1]
    return '.'.join(parts)


def load_module(it, dotted):
    mods = it.modules
    if dotted in mods:
        return mods[dotted]
    rel = relpath_of_module(dotted)
    if rel is None:
        m = external_module(it, dotted)
        mods[dotted] = m
        return m
    # Python imports the parent packages (their __init__) before a submodule
    parts = dotted.split('.')
    for i in range(1, len(parts)):
        parent = '.'.join(parts[:i])
        if parent not in mods and relpath_of_module(parent):
            load_module(it, parent)
    if dotted in mods:
        return mods[dotted]
    src, tree = read_source(rel)
    m = ModuleV(dotted)
    m.relpath = rel
    m.is_pkg = rel.endswith('__init__.py')
    mods[dotted] = m
    env = Env(None, m.attrs)
    env.vars = m.attrs   # module namespace is the env's dict
    m.env = env
    fn = FuncDefV(ast.FunctionDef(name='<module %s>' % dotted, args=ast.arguments(
        posonlyargs=[], args=[], kwonlyargs=[], kw_defaults=[], defaults=[]), body=[], decorator_list=[]),
        env, m, dotted)
    fn.is_module = True
    it.frames.append(fn)
    it.env_stack.append(env)
    saved_pc = len(it.path.pc)
    n_events0 = len(it.path.events)
    try:
        for st in tree.body:
            try:
                n_ev = len(it.path.events)
                it.exec(st, env)
            except Unsupported as e:
                for name in _bound_names(st):
                    if name not in m.attrs:
                        m.attrs[name] = lib.Unresolved(str(e))
            except PyExc as e:
                for name in _bound_names(st):
                    m.attrs[name] = lib.Unresolved('raised %r' % (e.exc,))
    finally:
        it.frames.pop()
        it.env_stack.pop()
        # import-time effects are not part of any function's trace (module import-time execution is dropped, DESIGN 2.4)
        del it.path.events[n_events0:]
    _module_state_history(it, m, tree)
    return m


_MUTATORS = {'setdefault', 'update', 'pop', 'popitem', 'clear', 'append', 'extend', 'insert', 'add', 'remove', 'discard'}


def _module_state_history(it, m, tree):
    """process-wide state: a module-level dict that FUNCTIONS of the module fill (a cache, a registry) holds, when a function is
    called, whatever arbitrary earlier calls left in it.  Its contents are unknown to a contract that is stated for one call: a
    lookup may hit (arbitrary value) or miss, and a verdict reached through a hit needs an invariant over the cache that the
    contract does not state (-> undecided, never 'proved' on the strength of an empty cache)"""
    from .values import PyDict, IntS
    names = set()
    for fn in ast.walk(tree):
        if not isinstance(fn, (ast.FunctionDef, ast.AsyncFunctionDef, ast.Lambda)):
            continue
        for n in ast.walk(fn):
            t = None
            if isinstance(n, ast.Subscript) and isinstance(n.ctx, (ast.Store, ast.Del)):
                t = n.value
            elif isinstance(n, ast.Call) and isinstance(n.func, ast.Attribute) and n.func.attr in _MUTATORS:
                t = n.func.value
            if isinstance(t, ast.Name):
                names.add(t.id)
    for name in sorted(names):
        v = m.attrs.get(name)
        if isinstance(v, PyDict) and not v.d and getattr(v, 'history', None) is None:
            # (only if the name is bound at module level to an empty dict literal: local variables of the same name shadow it)
            bound_here = any(isinstance(st, ast.Assign) and any(isinstance(t, ast.Name) and t.id == name for t in st.targets)
                             for st in tree.body)
            if bound_here:
                v.history = it.fresh('module_state_' + name, IntS)
    # class-level state: a dict bound in a class body (shared by all instances, and by everything built from the class during the
    # life of the process) that methods fill through `self.X[...] = ..` / `cls.X[...]` / `Class.X[...]` or a mutator call
    attr_names = set()
    for fn in ast.walk(tree):
        if not isinstance(fn, (ast.FunctionDef, ast.AsyncFunctionDef, ast.Lambda)):
            continue
        for n in ast.walk(fn):
            t = None
            if isinstance(n, ast.Subscript) and isinstance(n.ctx, (ast.Store, ast.Del)):
                t = n.value
            elif isinstance(n, ast.Call) and isinstance(n.func, ast.Attribute) and n.func.attr in _MUTATORS:
                t = n.func.value
            if isinstance(t, ast.Attribute):
                attr_names.add(t.attr)
    for cd in ast.walk(tree):
        if not isinstance(cd, ast.ClassDef):
            continue
        cls = m.attrs.get(cd.name)
        if not isinstance(cls, ClassV):
            continue
        for st in cd.body:
            if isinstance(st, ast.Assign) and isinstance(st.value, ast.Dict) and not st.value.keys:
                for t in st.targets:
                    if isinstance(t, ast.Name) and t.id in attr_names:
                        v = cls.attrs.get(t.id)
                        if isinstance(v, PyDict) and not v.d and getattr(v, 'history', None) is None:
                            v.history = it.fresh('class_state_%s_%s' % (cd.name, t.id), IntS)


def _bound_names(st):
    out = []
    for n in ast.walk(st):
        if isinstance(n, ast.Name) and isinstance(n.ctx, ast.Store):
            out.append(n.id)
        elif isinstance(n, (ast.FunctionDef, ast.ClassDef)):
            out.append(n.name)
        elif isinstance(n, ast.alias):
            out.append(n.asname or n.name.split('.')[0])
    return out


def resolve_relative(cur_mod, level, module):
    """dotted name of `from <level dots><module> import ..` seen inside module cur_mod"""
    if level == 0:
        return module
    parts = cur_mod.name.split('.')
    if not getattr(cur_mod, 'is_pkg', False):
        parts = parts[:-1]
    if level > 1:
        parts = parts[:-(level - 1)]
    if module:
        parts = parts + module.split('.')
    return '.'.join(parts)


def import_from(it, node, env):
    cur = it.frames[-1].module if it.frames else None
    while cur is not None and not isinstance(cur, ModuleV):
        cur = getattr(cur, 'module', None)
    dotted = resolve_relative(cur, node.level, node.module) if node.level else node.module
    m = load_module(it, dotted)
    # `from pkg import submodule`
    for a in node.names:
        if a.name == '*':
            continue
        if a.name not in m.attrs and relpath_of_module(dotted + '.' + a.name):
            m.attrs[a.name] = load_module(it, dotted + '.' + a.name)
    if any(a.name == '*' for a in node.names):
        for k, v in list(m.attrs.items()):
            if not k.startswith('_'):
                env.assign(k, v)
        node = ast.ImportFrom(module=node.module, names=[a for a in node.names if a.name != '*'], level=node.level)
    return m


def import_module(it, name, env):
    top = name.split('.')[0]
    m = load_module(it, name)
    if '.' in name:
        t = load_module(it, top)
        cur = t
        parts = name.split('.')
        for i in range(1, len(parts)):
            sub = load_module(it, '.'.join(parts[:i + 1]))
            cur.attrs[parts[i]] = sub
            cur = sub
        return t
    return m


lib.import_from = import_from
lib.import_module = import_module


# ------------------------------------------------------------------------------------------------
# external module stubs

def _uf_str(name, nargs):
    f = z3.Function(name, *[StrS] * nargs, StrS)

    def call(it, *a):
        if all(isinstance(x, str) for x in a) and name in _CONCRETE:
            return _CONCRETE[name](*a)
        return wrap(f(*[term(x, StrS) for x in a]))
    return Builtin(name, call)


def _splitext():
    root_f = z3.Function('os.path.splitext.root', StrS, StrS)
    ext_f = z3.Function('os.path.splitext.ext', StrS, StrS)

    def call(it, p):
        # (root, ext): concrete for a concrete path; otherwise two uninterpreted functions of the path with root ++ ext == path
        if isinstance(p, str):
            return os.path.splitext(p)
        t = term(p, StrS)
        it.assume(z3.Concat(root_f(t), ext_f(t)) == t)
        return (wrap(root_f(t)), wrap(ext_f(t)))
    return Builtin('os.path.splitext', call)


_CONCRETE = {
    'os.path.join': os.path.join, 'os.path.dirname': os.path.dirname, 'os.path.basename': os.path.basename,
}


def _deepcopy(it, v, memo=None):
    memo = {} if memo is None else memo
    if v is None or isinstance(v, (bool, int, str, float, SV)):
        return v
    if id(v) in memo:
        return memo[id(v)]
    if isinstance(v, tuple):
        return tuple(_deepcopy(it, x, memo) for x in v)
    if isinstance(v, PyList):
        r = PyList()
        memo[id(v)] = r
        r.items = [_deepcopy(it, x, memo) for x in v.items]
        return r
    if isinstance(v, PyDict):
        r = PyDict()
        memo[id(v)] = r
        r.d = {k: _deepcopy(it, x, memo) for k, x in v.d.items()}
        return r
    if isinstance(v, Row):
        r = Row(v.dom, v.val, name=(v.name or 'row') + '_dc')
        r.deep_copy_of = v       # (T3: equal and DISJOINT, nested values included -- which dict(row) / row.copy() do not give)
        it.assumptions.add('deepcopy of a row copies scalar cells; nested objects in cells are treated as immutable')
        return r
    if isinstance(v, Tree):
        r = Tree(v.name + '_dc')
        memo[id(v)] = r
        r.schema = getattr(v, 'schema', {})
        r.subschema = getattr(v, 'subschema', {})
        r.copy_of = v
        # lazily mirrored: reading r[k] reads v[k] at copy time -- only sound if v is not written afterwards;
        # we snapshot what is known now and forward the rest
        for k in list(v.has):
            r.has[k] = v.has[k]
            r.init_has[k] = v.has[k]
        for k, c in v.children.items():
            r.children[k] = _deepcopy(it, c, memo)
            r.init_children[k] = r.children[k]
        r.lazy_src = v
        return r
    if isinstance(v, SymList):
        r = SymList(v.prefix, [_deepcopy(it, x, memo) for x in v.items])
        return r
    if isinstance(v, Opaque):
        r = Opaque(v.kind, v.name + '_dc', term=v.term)
        r.attrs = dict(v.attrs)
        r.copy_of = v
        return r
    raise Unsupported('deepcopy of %r' % (v,))


def _re_compile(it, p, *flags):
    if flags:
        raise Unsupported('re flags')
    return RegexV(p)


def _re_fn(name):
    def f(it, p, *a):
        r = RegexV(p)
        return lib.REGEX_METHODS[name](it, r, *a)
    return f


def _re_escape(it, s):
    return wrap(lib.RE_ESCAPE(term(s, StrS)))


def _deque(it, src=None, maxlen=None):
    if src is None and maxlen is None:
        # an unbounded empty deque used as a FIFO (append / popleft): a list
        q = PyList()
        q.is_deque = True
        return q
    if isinstance(maxlen, int) and not isinstance(maxlen, bool) and maxlen >= 0 and src is not None:
        # deque(iterable, maxlen=k) consumes the whole iterable whatever k is (it keeps the last k items, opaque here)
        if isinstance(src, Stream):
            it.emit(Ev('Drain', src=src, how='deque'))
            src.drained = True
            return Opaque('deque', 'deque')
        if isinstance(src, GenObj):
            if src.fn.qualname in it.inline or '*' in it.inline:
                # run it; its yields are consumed (dropped)
                n0 = len(it.path.events)
                it.run_generator(src)
                for e in it.path.events[n0:]:
                    if e.kind == 'Yield':
                        e.kind = 'YieldDropped'
                return Opaque('deque', 'deque')
            it.emit(Ev('Drain', src=src, how='deque'))
            return Opaque('deque', 'deque')
        if isinstance(src, Opaque):
            it.emit(Ev('Drain', src=src, how='deque'))
            return Opaque('deque', 'deque')
        if isinstance(src, (PyList, tuple)):
            # a concrete sequence (of iterators, ...): walking it to its end pulls nothing from its elements
            it.emit(Ev('Drain', src=src, how='deque'))
            return Opaque('deque', 'deque')
    raise Unsupported('collections.deque(%r, maxlen=%r)' % (src, maxlen))


def _chain(it, *srcs):
    return ChainV(list(srcs))


class ChainV(Obj):
    def __init__(self, parts):
        super().__init__()
        self.parts = parts


def _islice(it, src, *a):
    return IsliceV(src, a)


class IsliceV(Obj):
    def __init__(self, src, args):
        super().__init__()
        self.src, self.args = src, args


def _namedtuple(it, name, fields):
    kind, items = lib.iterate(it, fields)
    names = list(items)
    cls = ClassV(name, node=None)
    cls.nt_fields = names

    def make(it_, *a, **k):
        inst = Instance(cls)
        vals = list(a)
        for i, n in enumerate(names):
            inst.attrs[n] = vals[i] if i < len(vals) else k[n]
        return inst
    return Builtin(name, make)


def _noop(it, *a, **k):
    return None


FS_EXISTS = z3.Function('fs_exists', StrS, z3.BoolSort())


def fs_note_created(it, path):
    """ghost file-system state of a path: something now exists at `path` (a file being written, a directory made)"""
    it.path.info.setdefault('fs_created', []).append(term(path, StrS))


def _fs_exists(it, path):
    """os.path.exists: a read of the file-system state, recorded in the trace.  The state is the initial one (an
    uninterpreted predicate) plus whatever this very execution created (ghost list filled by contracts' stubs)."""
    r = FS_EXISTS(term(path, StrS))
    made = it.path.info.get('fs_created') or []
    if made:
        r = z3.Or(r, *[term(path, StrS) == q for q in made])
    it.emit(Ev('Call', target='os.path.exists', method='__call__', args=(path,), kwargs={}, result=r, objs=(path,)))
    return wrap(r)


FS_ISDIR = z3.Function('fs_isdir', StrS, z3.BoolSort())


def _fs_isdir(it, path):
    """os.path.isdir: a read of the file-system state, recorded in the trace"""
    r = FS_ISDIR(term(path, StrS))
    it.emit(Ev('Call', target='os.path.isdir', method='__call__', args=(path,), kwargs={}, result=r, objs=(path,)))
    return wrap(r)


def _json_dumps(it, obj, **kw):
    """json.dumps: an uninterpreted injective-on-JSON-values text (assumption T8); options are part of the symbol"""
    opts = ','.join('%s=%s' % (k, kw[k] if isinstance(kw[k], (bool, int, str, type(None))) else getattr(kw[k], 'name', '?'))
                    for k in sorted(kw))
    if isinstance(obj, (Row, RowSnap)):
        f = z3.Function('json_dumps_row[%s]' % opts, DomS, ValS, StrS)
        return wrap(f(obj.dom, obj.val))
    f = z3.Function('json_dumps[%s]' % opts, Cell, StrS)
    return wrap(f(it.cell_of(obj)))


def _reduce(it, fn, src, *init):
    if isinstance(src, lib.GenExp):
        src = lib.consume_comp(it, src, 'list')
    if isinstance(src, lib.CompSeq):
        if init:
            raise Unsupported('reduce with initial value over symbolic sequence')
        if not it.branch(lib._comp_count(it, src) > 0):
            it.raise_('TypeError', 'reduce() of empty sequence with no initial value')
        x, y = it.fresh('rx', Cell), it.fresh('ry', Cell)
        it.term_mode += 1
        it.guards.append([])
        try:
            body = it.cell_of(it.call(fn, [SV(x), SV(y)]))
        finally:
            it.term_mode -= 1
            it.guards.pop()
        # canonical placeholders for the two lambda parameters
        body = z3.substitute(body, (x, z3.Const('__rx', Cell)), (y, z3.Const('__ry', Cell)))
        return it.uncell(lib._comp_fold(it, 'REDUCE', src, extra=[body]))
    kind, items = lib.iterate(it, src)
    if kind != 'concrete':
        raise Unsupported('reduce over symbolic iterable')
    items = list(init) + list(items)
    if not items:
        it.raise_('TypeError', 'reduce() of empty sequence with no initial value')
    cur = items[0]
    for v in items[1:]:
        cur = it.call(fn, [cur, v])
    return cur


def external_module(it, dotted):
    m = ModuleV(dotted)
    a = m.attrs
    T = lib.TypeV
    if dotted == 're':
        a.update(compile=Builtin('re.compile', _re_compile), escape=Builtin('re.escape', _re_escape),
                 sub=Builtin('re.sub', lambda it, p, r, s: wrap(lib.RE_SUB(term(p, StrS), term(r, StrS), term(s, StrS)))),
                 match=Builtin('re.match', _re_fn('match')), fullmatch=Builtin('re.fullmatch', _re_fn('fullmatch')),
                 search=Builtin('re.search', _re_fn('search')),
                 findall=Builtin('re.findall', _re_fn('findall')))
    elif dotted == 'copy':
        a.update(deepcopy=Builtin('copy.deepcopy', _deepcopy))
    elif dotted == 'os':
        p = ModuleV('os.path')
        p.attrs.update(join=_uf_join(), dirname=_uf_str('os.path.dirname', 1), basename=_uf_str('os.path.basename', 1), splitext=_splitext(),
                       exists=Builtin('os.path.exists', _fs_exists), isdir=Builtin('os.path.isdir', _fs_isdir))
        a['path'] = p
        a['cpu_count'] = Builtin('os.cpu_count', lambda it: 8)
        a['getpid'] = Builtin('os.getpid', lambda it: 4242)
    elif dotted == 'os.path':
        a.update(join=_uf_join(), dirname=_uf_str('os.path.dirname', 1), basename=_uf_str('os.path.basename', 1), splitext=_splitext(),
                 exists=Builtin('os.path.exists', _fs_exists), isdir=Builtin('os.path.isdir', _fs_isdir))
    elif dotted == 'queue':
        lib.EXC_PARENT.setdefault('Empty', 'Exception')
        lib.EXC_PARENT.setdefault('Full', 'Exception')
        a['Empty'] = lib.exc_class('Empty')
        a['Full'] = lib.exc_class('Full')
    elif dotted == 'sys':
        a['stdout'] = Opaque('file', 'sys.stdout')
        a['stdin'] = Opaque('file', 'sys.stdin')
    elif dotted == 'json':
        a['dumps'] = Builtin('json.dumps', _json_dumps)
        a['JSONEncoder'] = ClassV('JSONEncoder', node=None)
        a['JSONDecoder'] = ClassV('JSONDecoder', node=None)
    elif dotted == 'collections':
        a.update(deque=Builtin('collections.deque', _deque), namedtuple=Builtin('namedtuple', _namedtuple),
                 OrderedDict=Builtin('collections.OrderedDict', lambda it, *args: lib._b_dict(it, *args)))
        abc = ModuleV('collections.abc')
        for _n in ('Iterable', 'Sized', 'Collection', 'Sequence', 'Mapping', 'Iterator', 'Generator'):
            abc.attrs[_n] = T(_n)
        a['abc'] = abc
    elif dotted == 'collections.abc':
        for _n in ('Iterable', 'Sized', 'Collection', 'Sequence', 'Mapping', 'Iterator', 'Generator'):
            a[_n] = T(_n)
    elif dotted == 'itertools':
        a.update(chain=Builtin('itertools.chain', _chain), islice=Builtin('itertools.islice', _islice),
                 zip_longest=Builtin('itertools.zip_longest', lambda it, *srcs: lib.ZipLongestSource(it, list(srcs))))
    elif dotted == 'functools':
        a['reduce'] = Builtin('functools.reduce', _reduce)
        def _partial(it, f, *pa, **pk):
            # functools.partial(f, *pa, **pk): a callable that calls f with the frozen arguments first
            p = Builtin('partial', lambda it2, *x, **k: it2.call(f, list(pa) + list(x), dict(pk, **k)))
            p.partial_of = (f, pa, pk)
            return p
        a['partial'] = Builtin('functools.partial', _partial)
    elif dotted == 'logging':
        for n in ('error', 'info', 'warning', 'exception', 'debug'):
            a[n] = Builtin('logging.' + n, _noop)
    elif dotted == 'warnings':
        a['warn'] = Builtin('warnings.warn', _noop)
    elif dotted == 'inspect':
        a['isfunction'] = Builtin('inspect.isfunction', _isfunction)
        a['signature'] = Builtin('inspect.signature', _signature)
        a['Parameter'] = PARAM_CLS
    elif dotted == 'decimal':
        a['Decimal'] = T('Decimal')
        a['InvalidOperation'] = lib.exc_class('InvalidOperation')
    elif dotted == 'datetime':
        for n in ('datetime', 'date', 'time', 'timedelta', 'timezone'):
            a[n] = T(n)

        def _unbound_strftime(it_, obj, *fa, **fk):
            # datetime.<type>.strftime(obj, format) / (obj, format=...): the bound call on obj
            fa = list(fa) + ([fk.pop('format')] if 'format' in fk else [])
            return it_.call(lib.getattr_(it_, obj, 'strftime'), fa, fk)
        for n in ('datetime', 'date', 'time'):
            a[n].attrs_static = {'strftime': Builtin(n + '.strftime', _unbound_strftime)}

        def date_ctor(it_, *args):
            # only what a module-level platform probe needs: datetime.date(1, 1, 1).strftime('%04Y').  The answer is that
            # of glibc ('0001'; other C libraries give '4Y' or raise ValueError) -- platform assumption, listed as trusted.
            if not all(isinstance(x, int) for x in args):
                raise Unsupported('datetime.date(...) with symbolic arguments')
            d = lib.Opaque('date', 'date%r' % (args,))

            def strftime(it2, o, a2, k2):
                if tuple(args) == (1, 1, 1) and list(a2) == ['%04Y']:
                    it2.assumptions.add("platform probe datetime.date(1,1,1).strftime('%04Y') answers '0001' (glibc)")
                    return '0001'
                raise Unsupported('strftime on a concrete date')
            d.attrs['call:strftime'] = strftime
            return d
        a['date'].ctor = date_ctor
    elif dotted == 'tableschema.exceptions':
        a['CastError'] = lib.exc_class('CastError')
        a['UniqueKeyError'] = lib.exc_class('UniqueKeyError')
        a['ValidationError'] = lib.exc_class('TSValidationError')
    elif dotted == 'datapackage':
        a['Package'] = T('Package')
        a['Resource'] = T('Resource')

        def _mk_ext(kind):
            def ctor(it_, *args, **kw):
                # constructing a datapackage object: an opaque object of that kind that remembers what it was built from
                o = lib.Opaque(kind, 'new_' + kind)
                o.attrs['__ctor_args__'] = (args, kw)
                if 'descriptor' in kw:
                    o.attrs['descriptor'] = kw['descriptor']
                elif args:
                    o.attrs['descriptor'] = args[0]
                return o
            return ctor
        a['Package'].ctor = _mk_ext('Package')
        a['Resource'].ctor = _mk_ext('Resource')
    elif dotted == 'tableschema':
        a['Schema'] = T('Schema')
    elif dotted == 'typing':
        a['Dict'] = PyDict()
    return m


def _uf_join():
    def call(it, *a):
        if all(isinstance(x, str) for x in a):
            return os.path.join(*a)
        f = z3.Function('os.path.join%d' % len(a), *[StrS] * len(a), StrS)
        return wrap(f(*[term(x, StrS) for x in a]))
    return Builtin('os.path.join', call)


def _isfunction(it, v):
    if isinstance(v, FuncDefV):
        return True
    if isinstance(v, Opaque):
        c = v.attrs.get('__isfunction__')
        if c is not None:
            return c
    if isinstance(v, (Instance, ClassV, Builtin, BoundMethod, PyList, PyDict, Row, tuple, str, int, type(None),
                      SymList, Stream, GenObj, SetV)):
        return False
    raise Unsupported('isfunction(%r)' % (v,))


class SignatureV:
    def __init__(self, params):
        self.parameters = params


PARAM_CLS = ClassV('Parameter')
PARAM_EMPTY = Opaque('empty', 'inspect.Parameter.empty')
for _k in ('POSITIONAL_ONLY', 'POSITIONAL_OR_KEYWORD', 'VAR_POSITIONAL', 'KEYWORD_ONLY', 'VAR_KEYWORD'):
    PARAM_CLS.attrs[_k] = 'inspect.' + _k
PARAM_CLS.attrs['empty'] = PARAM_EMPTY


def _param(name, kind='POSITIONAL_OR_KEYWORD', default=PARAM_EMPTY):
    """inspect.Parameter: name, kind, default (Parameter.empty when there is none; the VALUE of a default is not modelled --
    an opaque object that is not `empty`)"""
    o = Instance(PARAM_CLS)
    o.attrs.update(name=name, kind='inspect.' + kind, default=default)
    return o


def _params_of_node(node, skip_first=False):
    a = node.args
    out = []
    pos = [(x, 'POSITIONAL_ONLY') for x in a.posonlyargs] + [(x, 'POSITIONAL_OR_KEYWORD') for x in a.args]
    ndef = len(a.defaults)
    for i, (x, kind) in enumerate(pos):
        has_default = i >= len(pos) - ndef
        out.append(_param(x.arg, kind, Opaque('default', 'default of ' + x.arg) if has_default else PARAM_EMPTY))
    if skip_first and out:
        out = out[1:]
    if a.vararg:
        out.append(_param(a.vararg.arg, 'VAR_POSITIONAL'))
    for x, d in zip(a.kwonlyargs, a.kw_defaults):
        out.append(_param(x.arg, 'KEYWORD_ONLY', Opaque('default', 'default of ' + x.arg) if d is not None else PARAM_EMPTY))
    if a.kwarg:
        out.append(_param(a.kwarg.arg, 'VAR_KEYWORD'))
    return out


def _signature_of(params):
    o = Instance(ClassV('Signature', node=None))
    o.attrs['parameters'] = PyDict({p.attrs['name']: p for p in params})
    return o


def _signature(it, v):
    if isinstance(v, FuncDefV):
        return _signature_of(_params_of_node(v.node))
    if isinstance(v, BoundMethod) and isinstance(v.recv, Instance):
        m = lib.find_method(v.recv.cls, v.name)
        return _signature_of(_params_of_node(m.node, skip_first=True))
    if isinstance(v, UFunc) and getattr(v, 'params', None) is not None:
        # ('name=' : a parameter with a default value)
        return _signature_of([_param(n[:-1], default=Opaque('default', 'default of ' + n)) if n.endswith('=') else _param(n)
                              for n in v.params])
    if isinstance(v, Opaque) and '__signature__' in v.attrs:
        d = v.attrs['__signature__']
        return _signature_of([x if isinstance(x, Instance) else _param(n) for n, x in d.d.items()])
    raise Unsupported('signature(%r)' % (v,))
