"""pyvc.values -- symbolic value domain of the VC generator.

Python values seen by the symbolic executor are one of
  * concrete Python constants: None, bool, int, str, float, tuple (of values)
  * SV(term)      immutable symbolic scalar; z3 sort Int / Bool / String / Real / Cell / Seq(..)
  * Row           mutable finite map String -> Cell  (a data row or any str-keyed dict of scalars)
  * PyDict        mutable dict with a concrete key set and arbitrary values (descriptors, configs)
  * PyList        mutable list with a concrete spine
  * SymList       mutable list = opaque symbolic prefix ++ concrete items appended since
  * SetV          mutable set as characteristic array
  * Opaque        object of an abstract kind with lazily created, memoised attributes
  * Stream        opaque finite iterable (the thing a cut `for` loop ranges over)
  * Tree          lazily explored mutable JSON-like tree (descriptor nodes) with a write log
  * Closure / FuncDefV / Builtin / UFunc / BoundMethod  callables
  * GenObj        un-run generator object  (modular: call of a generator function)
  * ExcV          exception value
Everything else raises Unsupported, which makes the function *undecided*, never a violation.
"""
import z3

BoolS = z3.BoolSort()
IntS = z3.IntSort()
StrS = z3.StringSort()
RealS = z3.RealSort()

_C = z3.Datatype('Cell')
_C.declare('none')
_C.declare('bool', ('b', BoolS))
_C.declare('int', ('i', IntS))
_C.declare('str', ('s', StrS))
_C.declare('real', ('r', RealS))
_C.declare('obj', ('id', IntS))
Cell = _C.create()
DomS = z3.ArraySort(StrS, BoolS)
ValS = z3.ArraySort(StrS, Cell)
CellSeq = z3.SeqSort(Cell)
StrSeq = z3.SeqSort(StrS)


class Unsupported(Exception):
    """construct / value outside the verified subset -> function undecided"""


class SV:
    __slots__ = ('t',)

    def __init__(self, t):
        assert isinstance(t, z3.ExprRef), t
        self.t = t

    def sort(self):
        return self.t.sort()

    def __repr__(self):
        return 'SV(%s)' % (self.t,)


_oid = [0]


def new_oid():
    _oid[0] += 1
    return _oid[0]


class Obj:
    """base of mutable, identity-carrying values"""

    def __init__(self):
        self.oid = new_oid()


class Row(Obj):
    def __init__(self, dom, val, name=None):
        super().__init__()
        self.dom = dom
        self.val = val
        self.name = name

    def snapshot(self):
        return RowSnap(self.dom, self.val, self.oid)

    def __repr__(self):
        return 'Row#%d' % self.oid


class RowSnap:
    """immutable copy of a row's contents at some moment (events, yields)"""
    __slots__ = ('dom', 'val', 'oid')

    def __init__(self, dom, val, oid):
        self.dom, self.val, self.oid = dom, val, oid

    def __repr__(self):
        return 'RowSnap#%d' % self.oid


class PyDict(Obj):
    def __init__(self, d=None):
        super().__init__()
        self.d = dict(d or {})

    def __repr__(self):
        return 'PyDict(%r)' % (self.d,)


class PyList(Obj):
    def __init__(self, items=None):
        super().__init__()
        self.items = list(items or [])

    def __repr__(self):
        return 'PyList(%r)' % (self.items,)


class SymSeq:
    """immutable opaque sequence value: a named base (z3 Seq const or abstract id) with element maker.
    `elem(i_name)` builds the symbolic element value for a fresh element; `term` is a z3 term identifying the
    sequence (used as argument of definitional symbols)."""

    def __init__(self, name, term, mk_elem, elem_term=None):
        self.name = name
        self.term = term          # z3 const (any sort) naming the sequence
        self.mk_elem = mk_elem    # (interp, hint) -> (value, z3 var or None)
        self.elem_term = elem_term

    def __repr__(self):
        return 'SymSeq(%s)' % self.name


class SymList(Obj):
    """mutable list: symbolic prefix (SymSeq or None) followed by concrete items"""

    def __init__(self, prefix=None, items=None):
        super().__init__()
        self.prefix = prefix
        self.items = list(items or [])

    def __repr__(self):
        return 'SymList(%r ++ %r)' % (self.prefix, self.items)


class SetV(Obj):
    def __init__(self, arr, elem_sort):
        super().__init__()
        self.arr = arr
        self.elem_sort = elem_sort


class Opaque(Obj):
    """abstract object; attributes are created lazily by `kind` schema and memoised"""

    def __init__(self, kind, name, attrs=None, term=None):
        super().__init__()
        self.kind = kind
        self.name = name
        self.attrs = dict(attrs or {})
        self.term = term  # optional z3 const identifying the object

    def __repr__(self):
        return 'Opaque(%s:%s)' % (self.kind, self.name)


class Stream(Obj):
    """opaque finite iterable of elements; `mk_elem(interp)` creates a fresh element"""

    def __init__(self, name, mk_elem, may_raise=False, owner=None):
        super().__init__()
        self.name = name
        self.mk_elem = mk_elem
        self.may_raise = may_raise
        self.owner = owner     # Opaque the stream belongs to (e.g. ResourceWrapper)
        self.drained = False

    def __repr__(self):
        return 'Stream(%s)' % self.name


class Tree(Obj):
    """lazily explored JSON-like dict node. children: key -> value (Tree/PyList/SymList/SV/const).
    has: key -> z3 Bool or python bool (presence).  writes: log of (key, value) in order."""

    def __init__(self, name, interp=None):
        super().__init__()
        self.name = name
        self.children = {}
        self.has = {}
        self.writes = []
        self.init_children = {}
        self.init_has = {}

    def __repr__(self):
        return 'Tree(%s)' % self.name


class ExcV:
    def __init__(self, cls, args=(), term=None, cause=None):
        self.cls = cls          # concrete class name, or None when symbolic (term identifies it)
        self.args = tuple(args)
        self.term = term        # z3 Int const naming a symbolic exception object
        self.cause = cause
        self.attrs = {}

    def __repr__(self):
        return 'ExcV(%s%s)' % (self.cls or ('?' + str(self.term)), self.args if self.args else '')


class GenObj(Obj):
    """generator object that has not been run: call of generator function `fn` with `args`"""

    def __init__(self, fn, args, kwargs=None):
        super().__init__()
        self.fn = fn
        self.args = tuple(args)
        self.kwargs = dict(kwargs or {})

    def __repr__(self):
        return 'GenObj(%s%r)' % (getattr(self.fn, 'qualname', self.fn), self.args)


class UFunc:
    """uninterpreted callable. `apply(interp, args, kwargs)` builds result."""

    def __init__(self, name, apply, pure=True):
        self.name = name
        self.apply = apply
        self.pure = pure

    def __repr__(self):
        return 'UFunc(%s)' % self.name


class Builtin:
    def __init__(self, name, fn):
        self.name = name
        self.fn = fn

    def __repr__(self):
        return 'Builtin(%s)' % self.name


class BoundMethod:
    def __init__(self, recv, name, fn):
        self.recv, self.name, self.fn = recv, name, fn


class ClassV:
    """class from a repo module (ast.ClassDef) or a builtin exception class"""

    def __init__(self, name, node=None, module=None, bases=()):
        self.name = name
        self.node = node
        self.module = module
        self.bases = tuple(bases)
        self.methods = {}
        self.attrs = {}

    def __repr__(self):
        return 'ClassV(%s)' % self.name


class Instance(Obj):
    def __init__(self, cls):
        super().__init__()
        self.cls = cls
        self.attrs = {}

    def __repr__(self):
        return 'Instance(%s)' % self.cls.name


class ModuleV:
    def __init__(self, name, attrs=None):
        self.name = name
        self.attrs = dict(attrs or {})

    def __repr__(self):
        return 'ModuleV(%s)' % self.name


class RegexV:
    """compiled regular expression: pattern is a str or SV(String)"""

    def __init__(self, pattern):
        self.pattern = pattern


# ---------------------------------------------------------------------------------------------
# helpers on scalars

def is_sym(v):
    return isinstance(v, SV)


def sort_of(v):
    if isinstance(v, SV):
        return v.t.sort()
    if isinstance(v, bool):
        return BoolS
    if isinstance(v, int):
        return IntS
    if isinstance(v, str):
        return StrS
    return None


def term(v, sort=None):
    """z3 term of scalar v, optionally coerced to `sort`"""
    if isinstance(v, SV):
        t = v.t
    elif isinstance(v, bool):
        t = z3.BoolVal(v)
    elif isinstance(v, int):
        t = z3.IntVal(v)
    elif isinstance(v, str):
        t = z3.StringVal(v)
    elif v is None:
        t = Cell.none
    elif isinstance(v, float):
        from fractions import Fraction
        fr = Fraction(v)
        t = z3.RealVal(fr.numerator) / z3.RealVal(fr.denominator)
    else:
        raise Unsupported('no scalar term for %r' % (v,))
    if sort is not None and not t.sort().eq(sort):
        if sort.eq(Cell):
            return to_cell_term(t)
        if sort.eq(RealS) and t.sort().eq(IntS):
            return z3.ToReal(t)
        if sort.eq(IntS) and t.sort().eq(Cell):
            return Cell.i(t)
        if sort.eq(StrS) and t.sort().eq(Cell):
            # a cell used where a string is required (dict key, pattern): its string payload.
            # Assumption recorded by callers: such cells are strings.
            return Cell.s(t)
        raise Unsupported('cannot coerce %s to %s' % (t.sort(), sort))
    return t


def to_cell_term(t):
    s = t.sort()
    if s.eq(Cell):
        return t
    if s.eq(BoolS):
        return Cell.bool(t)
    if s.eq(IntS):
        return Cell.int(t)
    if s.eq(StrS):
        return Cell.str(t)
    if s.eq(RealS):
        return Cell.real(t)
    raise Unsupported('no cell for sort %s' % s)


def simp(t):
    return z3.simplify(t)


def as_const(t):
    """python constant if z3 term is a literal, else None (returns (True, value) / (False, None))"""
    if z3.is_fp(t):
        return False, None
    t = z3.simplify(t)
    if z3.is_true(t):
        return True, True
    if z3.is_false(t):
        return True, False
    if z3.is_int_value(t):
        return True, t.as_long()
    if z3.is_string_value(t):
        return True, t.as_string()
    if t.sort().eq(Cell) and t.decl().eq(Cell.none):
        return True, None
    return False, None


def wrap(t):
    """SV or python constant for z3 term t (constants are folded)"""
    ok, c = as_const(t)
    if ok:
        return c
    return SV(z3.simplify(t))
