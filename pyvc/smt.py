"""pyvc.smt -- solver front end: validity / satisfiability queries with z3 (primary) and cvc5 (second opinion).

check_valid(hyps, goal) -> Verdict
   'unsat'   : hyps /\\ not goal unsatisfiable  -> obligation discharged
   'sat'     : counter-model found              -> model attached
   'unknown' : neither (timeout / incomplete)   -> undecided
"""
import os
import subprocess
import tempfile
import time
import z3

Z3_TIMEOUT_MS = int(os.environ.get('PYVC_Z3_TIMEOUT_MS', '10000'))
CVC5_TIMEOUT_S = int(os.environ.get('PYVC_CVC5_TIMEOUT_S', '20'))
CVC5 = '/usr/bin/cvc5'

STATS = {'z3_calls': 0, 'z3_ms': 0.0, 'cvc5_calls': 0, 'cvc5_ms': 0.0, 'feas_calls': 0, 'feas_ms': 0.0}


class Verdict:
    def __init__(self, status, backend, ms, model=None, reason=None, smt2=None):
        self.status = status
        self.backend = backend
        self.ms = ms
        self.model = model
        self.reason = reason
        self.smt2 = smt2

    def __repr__(self):
        return 'Verdict(%s,%s,%.1fms)' % (self.status, self.backend, self.ms)


def _solver(timeout_ms):
    s = z3.Solver()
    s.set('timeout', timeout_ms)
    seed = os.environ.get('VERIF_SEED')
    if seed and os.environ.get('PYVC_USE_SEED'):
        s.set('random_seed', int(seed) % (2 ** 30))
    return s


def feasible(constraints, timeout_ms=2000):
    """True unless the conjunction is proved unsatisfiable"""
    t0 = time.time()
    s = _solver(timeout_ms)
    for c in constraints:
        s.add(c)
    r = s.check()
    STATS['feas_calls'] += 1
    STATS['feas_ms'] += (time.time() - t0) * 1000
    return r != z3.unsat


def check_sat(constraints, timeout_ms=None):
    t0 = time.time()
    s = _solver(timeout_ms or Z3_TIMEOUT_MS)
    for c in constraints:
        s.add(c)
    r = s.check()
    ms = (time.time() - t0) * 1000
    STATS['z3_calls'] += 1
    STATS['z3_ms'] += ms
    if r == z3.sat:
        return Verdict('sat', 'z3', ms, model=s.model())
    if r == z3.unsat:
        return Verdict('unsat', 'z3', ms)
    return Verdict('unknown', 'z3', ms, reason=s.reason_unknown())


def _cvc5_check(smt2, timeout_s):
    t0 = time.time()
    with tempfile.NamedTemporaryFile('w', suffix='.smt2', delete=False) as f:
        f.write('(set-logic ALL)\n')
        f.write(smt2)
        f.write('\n(check-sat)\n')
        name = f.name
    try:
        p = subprocess.run([CVC5, '--strings-exp', '--tlimit=%d' % (timeout_s * 1000), name],
                           capture_output=True, text=True, timeout=timeout_s + 5)
        out = p.stdout.strip().splitlines()
        res = out[0].strip() if out else 'unknown'
    except Exception as e:  # timeout, missing binary
        res = 'unknown'
    finally:
        os.unlink(name)
    ms = (time.time() - t0) * 1000
    STATS['cvc5_calls'] += 1
    STATS['cvc5_ms'] += ms
    return res, ms


def check_valid(hyps, goal, use_cvc5=True, timeout_ms=None, both=False):
    """is (/\\ hyps) -> goal valid?"""
    cs = list(hyps) + [z3.Not(goal)]
    v = check_sat(cs, timeout_ms)
    if v.status == 'unknown' and use_cvc5 or (both and v.status == 'unsat'):
        s = z3.Solver()
        for c in cs:
            s.add(c)
        try:
            smt2 = s.to_smt2()
            # to_smt2 appends (check-sat); strip it, we add our own
            smt2 = smt2.replace('(check-sat)', '')
            res, ms = _cvc5_check(smt2, CVC5_TIMEOUT_S)
        except Exception as e:
            res, ms = 'unknown', 0.0
        if v.status == 'unknown':
            if res == 'unsat':
                return Verdict('unsat', 'cvc5', v.ms + ms)
            if res == 'sat':
                # cvc5 found a model but we cannot import it; report sat without model
                return Verdict('sat', 'cvc5', v.ms + ms, model=None, reason='cvc5 sat (no model import)')
            return Verdict('unknown', 'z3+cvc5', v.ms + ms, reason=v.reason)
        else:
            if res == 'sat':
                return Verdict('unknown', 'z3/cvc5-disagree', v.ms + ms, reason='z3 unsat but cvc5 sat')
            v.backend = 'z3+cvc5' if res == 'unsat' else 'z3'
            v.ms += ms
    return v


def check_sat_both(constraints):
    """satisfiability with cvc5 as second opinion when z3 answers unknown (status only)"""
    v = check_sat(constraints)
    if v.status != 'unknown':
        return v
    sol = z3.Solver()
    for c in constraints:
        sol.add(c)
    try:
        smt2 = sol.to_smt2().replace('(check-sat)', '')
        res, ms = _cvc5_check(smt2, CVC5_TIMEOUT_S)
    except Exception:
        res, ms = 'unknown', 0.0
    if res in ('sat', 'unsat'):
        return Verdict(res, 'cvc5', v.ms + ms)
    return Verdict('unknown', 'z3+cvc5', v.ms + ms, reason=v.reason)
