"""contracts/replayers.py -- native side of counterexample replay: building real Python inputs from the concretised counter-model
of a failed obligation (pyvc.cex.extract) so that the REAL function can be run on them under /venv/bin/python.

The counter-model is a dict  symbol name -> value  (rows already merged into dicts, see pyvc/cex.py) plus '__functions__': the
finite graphs the solver chose for uninterpreted callables (user conditions, handlers, casts).  Nothing is guessed: a value that
has no Python counterpart (abstract objects in argument position of a typed operation, lambda arrays) makes the replayer
return 'not-concretisable', and the violation is then reported with the obligation and the solver's model only."""
import decimal
import fractions
import re


class AbstractObject:
    """Cell.obj(n): an object of which the model fixes only identity and truthiness"""

    def __init__(self, n, truthy=True):
        self.n, self.truthy = n, truthy

    def __bool__(self):
        return self.truthy

    def __eq__(self, other):
        return isinstance(other, AbstractObject) and other.n == self.n

    def __hash__(self):
        return hash(('obj', self.n))

    def __repr__(self):
        return '<object #%s%s>' % (self.n, '' if self.truthy else ' falsy')


def val(cex, x):
    """python value of a concretised cell"""
    if isinstance(x, dict):
        if set(x) == {'obj'}:
            g = (cex.get('__functions__') or {}).get('obj_truthy')
            truthy = True
            if g:
                truthy = g.get('else', True)
                for args, v in g.get('entries', []):
                    if args and args[0] == x['obj']:
                        truthy = v
            return AbstractObject(x['obj'], bool(truthy))
        if set(x) == {'real'}:
            return decimal.Decimal(fractions.Fraction(x['real']).numerator) / decimal.Decimal(fractions.Fraction(x['real']).denominator)
        if 'map' in x or 'z3' in x or 'array-default' in x:
            raise ValueError('not a scalar: %r' % (x,))
        return {k: val(cex, v) for k, v in x.items()}
    if isinstance(x, list):
        return [val(cex, v) for v in x]
    return x


def row(cex, r):
    return {k: val(cex, v) for k, v in r.items()}


def rows(cex, prefix):
    """the rows named '<prefix>!<n>' in index order"""
    out = []
    for name, v in cex.items():
        m = re.fullmatch(re.escape(prefix) + r'!(\d+)', name)
        if m and isinstance(v, dict) and not ({'map', 'z3'} & set(v)):
            out.append((int(m.group(1)), row(cex, v)))
    return [r for _, r in sorted(out, key=lambda t: t[0])]


def scalar(cex, name, default=None):
    for k, v in cex.items():
        if k == name or re.fullmatch(re.escape(name) + r'!\d+', k):
            return val(cex, v)
    return default


def _row_of_arrays(cex, dom, vals):
    d = {}
    vv = {repr(k): v for k, v in vals.get('map', [])}
    for k, b in dom.get('map', []):
        if b is True and isinstance(k, str):
            d[k] = val(cex, vv.get(repr(k), vals.get('default')))
    return d


def func(cex, name, arity_rows=1):
    """python callable for the uninterpreted function whose z3 name starts with `name` ('condition/Array..'): looks the argument
    rows up in the finite graph of the model, else-value otherwise.  Row arguments are compared by content."""
    g = None
    for k, v in (cex.get('__functions__') or {}).items():
        if k == name or k.startswith(name + '/'):
            g = v
    if g is None:
        const = scalar(cex, name)
        return (lambda *a, **k: const), {'constant': const}
    table = []
    for args, v in g.get('entries', []):
        conc, i = [], 0
        while i < len(args):
            a = args[i]
            if isinstance(a, dict) and 'map' in a and i + 1 < len(args) and isinstance(args[i + 1], dict) and 'map' in args[i + 1]:
                conc.append(_row_of_arrays(cex, a, args[i + 1]))
                i += 2
            else:
                conc.append(val(cex, a))
                i += 1
        table.append((conc, val(cex, v)))
    default = val(cex, g.get('else'))

    def f(*a, **kw):
        actual = [dict(x) if isinstance(x, dict) else x for x in list(a) + [kw[k] for k in sorted(kw)]]
        for conc, v in table:
            if conc == actual:
                return v
        return default
    return f, {'graph': [(c, v) for c, v in table], 'else': default}
