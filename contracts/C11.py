"""C11  join computes the relational join with the documented aggregates.

  KeyCalc                    : a field list renders as ':'.join of the cell texts; a format string as written; '#' is the row
                               number; a missing key field raises KeyError
  AGGREGATORS[a].func        : one fold step of aggregate a, for an arbitrary accumulated state and an arbitrary non-null value,
                               against the fold spec below; .finaliser against the documented result (null / [] on the empty state)
  indexer                    : per source row: key rendered with the 1-based row number; the stored state of every field is
                               func(old state, value) for a non-null value (count: every row), unchanged otherwise; the usage
                               flag of the key is False; the row is re-yielded (same object, untouched) AFTER the index was
                               written; full-outer mode also stores the raw key values
  process_target             : per target row (in order, same object): matched -> extended by the finalised aggregates and the
                               key marked used; unmatched -> dropped (inner) / extended by its own values or nulls (outer);
                               full-outer: afterwards one row per key whose flag is still False; deduplication: one row per key
  new_resource_iterator      : source indexed (drained when source_delete), target processed after the index exists, every
                               other stream passes as the same object
"""
from contracts import findings_natives as KF
from contracts.common import fn_named
from contracts.common import havoc_mutable_scalars, same_stream, Item, mk_resource, mk_package2, run_spec, ghost_row, expect_no_raise_or_same, _b
from contracts.streams import calls, effect_names

P = 'dataflows/processors/'
TRUSTED = ['T1 pyvc model of Python (DESIGN 3)', 'T6 kvfile.KVFile is a map (get raises KeyError for an absent key; set then get '
           'returns the value; items() enumerates every stored pair once, in key order)', 'T16 z3 / cvc5']
ASSUMPTIONS = ['cell arithmetic (+, /, max, min) is uninterpreted and identical on the code and spec side',
               'median (sorting) and counters (collections.Counter) are covered by the bounded differential only',
               'the on-disk spill of the index beyond 10240 keys is kvfile\'s (T6), exercised by one >10240-key run per check (more in the thorough tier)']

AGGS = ['sum', 'avg', 'median', 'max', 'min', 'first', 'last', 'count', 'any', 'set', 'array']

SPEC = '''
def fold_step(agg, curr, new):
    # one step of the documented fold; curr is None on the empty state; new is a non-null value ('' for count)
    if agg == 'sum':
        return curr + new if curr is not None else new       # in order of appearance (strings: concatenation)
    if agg == 'avg':
        return (curr[0] + 1, new + curr[1]) if curr is not None else (1, new)
    if agg in ('median', 'array'):
        return curr + [new] if curr is not None else [new]
    if agg == 'max':
        return max(new, curr) if curr is not None else new
    if agg == 'min':
        return min(new, curr) if curr is not None else new
    if agg == 'first':
        return curr if curr is not None else new
    if agg in ('last', 'any'):
        return new
    if agg == 'count':
        return curr + 1 if curr is not None else 1
    if agg == 'set':
        return curr.union({new}) if curr is not None else {new}
    raise KeyError(agg)


def render_list(row, keys, n):
    return ':'.join([str(row[k]) for k in keys])
'''


def agg_states(it, agg):
    """symbolic accumulated states of aggregate `agg`: the empty state and an arbitrary non-empty one"""
    import z3
    from pyvc.api import sym_cell, sym_int, SV, Cell, SymList, SymSeq, IntS
    from pyvc import lib
    out = [('empty', None)]
    if agg in ('sum', 'max', 'min', 'first', 'last', 'any'):
        c = sym_cell(it, 'curr')
        it.assume(z3.Not(Cell.is_none(c.t)))
        out.append(('some', c))
    elif agg == 'count':
        n = sym_int(it, 'currcount')
        it.assume(n.t >= 1)
        out.append(('some', n))
    elif agg == 'avg':
        n = sym_int(it, 'n')
        it.assume(n.t >= 1)
        out.append(('some', (n, sym_cell(it, 'total'))))
    elif agg in ('median', 'array'):
        out.append(('some', lib.havoc_list(it, 'acc', lib.PyList())))
    elif agg == 'set':
        out.append(('some', lib.SetV(it.fresh('accset', z3.ArraySort(Cell, z3.BoolSort())), Cell)))
    return out


def same_state(it, a, b):
    import z3
    from pyvc.api import value_matches, conj
    from pyvc import lib
    if isinstance(a, lib.SetV) and isinstance(b, lib.SetV):
        return a.arr == b.arr
    if isinstance(a, lib.SymList) and isinstance(b, lib.SymList):
        return conj([a.prefix is b.prefix, len(a.items) == len(b.items)] + [value_matches(it, x, y) for x, y in zip(a.items, b.items)])
    return value_matches(it, a, b)


def sym_aggregators(vc):
    import z3
    from pyvc.api import SpecModule, real_function, check, cover, sym_cell, Cell
    from pyvc.symex import PyExc
    fk = vc.under_contract(P + 'join.py', ['identity'])
    spec = SpecModule(SPEC)
    for agg in AGGS:
        for which in (0, 1):
            def thunk(it, agg=agg, which=which):
                m = it.module('dataflows.processors.join')
                A = m.attrs['AGGREGATORS']
                a = it.lib.getitem(it, A, agg)
                sp = spec.bind(it)
                name, curr = agg_states(it, agg)[which]
                new = sym_cell(it, 'new')
                it.assume(z3.Not(Cell.is_none(new.t)))
                want = run_spec(it, sp.attrs['fold_step'], [agg, curr, new])
                got = it.call(a.attrs['func'], [curr, new])
                check(it, 'fold-step[%s,%s]' % (agg, name), _b(same_state(it, got, want.value)))
                # finaliser on the state just produced and on the empty state
                fin = a.attrs['finaliser']
                if agg in ('sum', 'max', 'min', 'first', 'last', 'any', 'count'):
                    r = it.call(fin, [got])
                    check(it, 'finaliser-is-identity[%s,%s]' % (agg, name), _b(same_state(it, r, got)))
                    check(it, 'finaliser-of-empty-is-null[%s]' % agg, it.call(fin, [None]) is None)
                elif agg == 'avg':
                    n, tot = got
                    r = it.call(fin, [got])
                    from pyvc import lib
                    want_avg = lib.binop(it, __import__('ast').Div(), tot, n)
                    check(it, 'avg-is-total-over-count[%s]' % name, _b(same_state(it, r, want_avg)))
                    check(it, 'avg-of-empty-is-null', it.call(fin, [None]) is None)
                elif agg == 'array':
                    check(it, 'array-finaliser-returns-the-list[%s]' % name, it.call(fin, [got]) is got)
                    e = it.call(fin, [None])
                    check(it, 'array-of-empty-is-empty-list', isinstance(e, it.lib.PyList) and not e.items)
                elif agg == 'set':
                    e = it.call(fin, [None])
                    check(it, 'set-of-empty-is-empty-list', isinstance(e, it.lib.PyList) and not e.items)
                    r = it.call(fin, [got])
                    check(it, 'set-finalised-to-a-list-of-its-elements', isinstance(r, it.lib.ListOfSet) and r.s is got)
                cover(it, 'reachable[%s,%s]' % (agg, name))
            paths = vc.explore(fk, thunk)
            expect_no_raise_or_same(vc, fk, paths)
    # (median and update_counter are NOT under contract: sorting / Counter arithmetic are outside the prover's reach; they are
    #  exercised by the bounded differential only -- see nat_join / nat_aggregators_fixed)


def replay_aggregators(h, cex, obligation):
    """the solver's counterexample of a failed fold-step obligation: an accumulated state and a new value -- run the REAL
    AGGREGATORS[agg].func on them and compare with the documented fold"""
    import re as _re
    from contracts import replayers as R
    from dataflows.processors.join import AGGREGATORS
    m = _re.search(r'fold-step\[(\w+),(empty|some)\]', obligation)
    if not m:
        return 'not-concretisable'
    agg, which = m.groups()
    new = R.scalar(cex, 'new')
    if which == 'empty':
        curr = None
    elif agg == 'count':
        curr = R.scalar(cex, 'currcount')
    elif agg == 'avg':
        curr = (R.scalar(cex, 'n'), R.scalar(cex, 'total'))
    elif agg in ('sum', 'max', 'min', 'first', 'last', 'any'):
        curr = R.scalar(cex, 'curr')
    else:
        return 'not-concretisable'       # list / set states are abstract sequences in the model
    sp = h.spec(SPEC)
    want = h.run(lambda: sp['fold_step'](agg, curr, new))
    got = h.run(lambda: AGGREGATORS[agg].func(curr, new))
    if want[0] != 'ok':
        return 'not-concretisable'       # the model's values do not support the operation (abstract objects, mixed types)
    h.check(got[0] == 'ok' and got[1] == want[1] and type(got[1]) is type(want[1]), P + 'join.py::AGGREGATORS',
            dict(aggregate=agg, state=curr, value=new), want[1], got[:2])


def replay_keycalc(h, cex, obligation):
    """the solver's counterexample of a failed key-rendering obligation: a row and a row number for KeyCalc(['a','b']) / '{#}-{a}'"""
    from contracts import replayers as R
    from dataflows.processors.join import KeyCalc
    if 'list-spec-becomes' in obligation or 'format-spec-kept' in obligation:
        # a ground obligation (no symbolic input): the real constructor on the literal of the contract
        a, b = KeyCalc(['a', 'b']), KeyCalc('{#}-{a}')
        h.check((a.key_spec, a.key_list, b.key_spec, b.key_list) == ('{a}:{b}', ['a', 'b'], '{#}-{a}', ['#', 'a']),
                P + 'join.py::KeyCalc.__init__', "KeyCalc(['a', 'b']), KeyCalc('{#}-{a}')", ('{a}:{b}', ['a', 'b'], '{#}-{a}', ['#', 'a']),
                (a.key_spec, a.key_list, b.key_spec, b.key_list))
        return
    rows = R.rows(cex, 'row')
    if not rows:
        return 'not-concretisable'
    row, n = rows[0], R.scalar(cex, 'rownum', 0)
    if any(isinstance(v, R.AbstractObject) for v in row.values()):
        return 'not-concretisable'
    if 'hash-renders' in obligation:
        kc, want = KeyCalc('{#}-{a}'), (lambda: '%s-%s' % (n, row['a']))
    else:
        kc, want = KeyCalc(['a', 'b']), (lambda: '%s:%s' % (row['a'], row['b']))
    w, g = h.run(want), h.run(lambda: kc(row, n))
    ok = (w[0] == g[0] == 'ok' and w[1] == g[1]) or (w[0] == g[0] == 'exc' and w[1] == g[1] == 'KeyError')
    h.check(ok, P + 'join.py::KeyCalc.__call__', dict(row=row, row_number=n), w[:2], g[:2])


def sym_keycalc(vc):
    import z3
    from pyvc.api import real_function, check, cover, sym_row, sym_int, PyList, term, StrS, SpecModule, Cell
    from pyvc.symex import PyExc
    from pyvc import lib
    fk = vc.under_contract(P + 'join.py', ['KeyCalc', '__call__'])
    vc.under_contract(P + 'join.py', ['KeyCalc', '__init__'])

    def thunk(it):
        KC = real_function(it, 'dataflows.processors.join', 'KeyCalc')
        kc = it.call(KC, [PyList(['a', 'b'])])
        havoc_mutable_scalars(it, kc, containers=True)      # the same KeyCalc object renders every row: any earlier history
        check(it, 'list-spec-becomes-colon-joined-format', it.lib.getattr_(it, kc, 'key_spec') == '{a}:{b}' and
              it.lib.getattr_(it, kc, 'key_list').items == ['a', 'b'])
        row = sym_row(it, 'row')
        n = sym_int(it, 'rownum')
        try:
            k = it.call(kc, [row, n])
        except PyExc as pe:
            check(it, 'missing-key-field-raises-keyerror', z3.And(_b(pe.exc.cls == 'KeyError'),
                                                                 z3.Not(z3.And(row.dom[z3.StringVal('a')], row.dom[z3.StringVal('b')]))))
            return
        a, b = row.val[z3.StringVal('a')], row.val[z3.StringVal('b')]
        S = lambda c: z3.If(Cell.is_str(c), Cell.s(c), lib.TOSTR(c))
        ks = term(k, StrS)
        want = z3.Concat(lib.term(lib.format_value(it, it.uncell(a), ''), StrS), z3.StringVal(':'),
                         lib.term(lib.format_value(it, it.uncell(b), ''), StrS))
        check(it, 'key-is-the-colon-joined-cell-texts', ks == want)
        cover(it, 'reachable')
    paths = vc.explore(fk, thunk, min_paths=2)

    def thunk2(it):
        KC = real_function(it, 'dataflows.processors.join', 'KeyCalc')
        kc = it.call(KC, ['{#}-{a}'])
        havoc_mutable_scalars(it, kc, containers=True)
        check(it, 'format-spec-kept-and-fields-extracted', it.lib.getattr_(it, kc, 'key_spec') == '{#}-{a}' and
              it.lib.getattr_(it, kc, 'key_list').items == ['#', 'a'])
        row = sym_row(it, 'row')
        it.assume(row.dom[z3.StringVal('a')])
        n = sym_int(it, 'rownum')
        k = it.call(kc, [row, n])
        want = z3.Concat(lib.term(lib.format_value(it, n, ''), StrS), z3.StringVal('-'),
                         lib.term(lib.format_value(it, it.uncell(row.val[z3.StringVal('a')]), ''), StrS))
        check(it, 'hash-renders-the-row-number', term(k, StrS) == want)
    vc.explore(fk, thunk2)


def mk_join(it, mode='half-outer', source_delete=True, agg='sum', target_key=True, fields=None, key_names=('k', 'k')):
    """call the real join(...) with KVFile replaced by map stubs; returns (func, dbs dict)"""
    from pyvc.api import real_function, Opaque, UFunc, PyDict, PyList
    m = it.module('dataflows.processors.join')
    dbs = []

    def KV(it_, a, k):
        db = Opaque('KVFile', 'db%d' % len(dbs))
        db.ctor_args = (tuple(a), dict(k))
        dbs.append(db)
        from pyvc.symex import Ev
        it_.emit(Ev('Call', target='KVFile', method='__call__', args=(), kwargs={}, result=db, objs=()))
        return db
    m.attrs['KVFile'] = UFunc('KVFile', KV, False)
    func_dbs = dbs
    j = m.attrs['join']
    if fields is None:
        fields = PyDict({'x': PyDict({'name': 'v', 'aggregate': agg})})
    def shape(v):
        return ('d', tuple((k, shape(x)) for k, x in v.d.items())) if isinstance(v, PyDict) else \
            ('l', tuple(shape(x) for x in v.items)) if isinstance(v, PyList) else ('v', id(v) if not isinstance(v, (str, int, bool, type(None))) else v)
    given = shape(fields)
    func = it.call(j, ['src', PyList([key_names[0]]), 'tgt', PyList([key_names[1]]) if target_key else None],
                   dict(fields=fields, mode=mode, source_delete=source_delete))
    from pyvc.api import check
    # the caller's field specification is read, never completed in place: the same spec given to a second join reads the same
    check(it, 'callers-field-specification-left-as-given', shape(fields) == given)
    # the key index and the field mapping belong to ONE run: nothing is opened when the step is built, and the REAL prologue of
    # func (run here with the two phases stubbed out) gives the run its own two stores and its own copy of the specified mapping
    check(it, 'no-index-store-is-opened-before-a-run-starts', not dbs)
    real_pd, real_nri = func.env.vars.get('process_datapackage'), func.env.vars.get('new_resource_iterator')
    func.env.vars['process_datapackage'] = UFunc('process_datapackage', lambda it_, a, k: None, False)
    func.env.vars['new_resource_iterator'] = UFunc('new_resource_iterator', lambda it_, a, k: PyList([]), False)
    pkgw = Opaque('PackageWrapper', 'prologue_package')
    pkgw.attrs['pkg'] = Opaque('Package', 'prologue_pkg')
    pkgw.attrs['pkg'].attrs['descriptor'] = Opaque('descriptor', 'prologue_descriptor')
    n0 = len(it.path.events)
    it.run_generator(it.call(func, [pkgw]))
    del it.path.events[n0:]            # (the trace of the stubbed phases is not part of what the stage contracts look at)
    func.env.vars['process_datapackage'], func.env.vars['new_resource_iterator'] = real_pd, real_nri
    check(it, 'a-run-opens-exactly-its-two-index-stores', len(dbs) == 2 and func.env.lookup('db_keys_usage') is dbs[0] and
          func.env.lookup('db') is dbs[1])
    if len(dbs) != 2:
        from pyvc.api import Unsupported
        raise Unsupported('CONTRACT-MAPPING join: the run prologue opened %d stores' % len(dbs))
    usage, db = dbs[0], dbs[1]
    func.stores_opened = dbs
    func.mapping_of_the_prologue_run = func.env.lookup('fields')
    check(it, 'callers-field-specification-left-as-given-by-a-run-too', shape(fields) == given)
    # T6 is assumed for the store AS THE LIBRARY CREATES IT BY DEFAULT (values pickled: what is read back is equal to what was stored,
    # whatever its type -- dates with microseconds, Decimals, tuples, non-string keys).  Another serializer is another contract.
    check(it, 'index-stores-are-created-with-the-default-lossless-serializer', all(d.ctor_args == ((), {}) for d in dbs))
    return func, usage, db


def _numbered_from_one(it, n, tag):
    """the row number that '#' stands for is the row's position in its resource, the first row being number 1 -- in the source
    and in the target ALIKE (a join on ['#'] pairs the k-th rows)"""
    from pyvc.api import check, term, IntS
    en = getattr(it, 'last_enum', None)
    check(it, 'rows-are-numbered-by-position-from-one[%s]' % tag, en is not None and term(n, IntS) == en.pos + 1 if en is not None else False)


def sym_indexer(vc):
    import z3
    from pyvc.api import (SpecModule, LoopSpec, check, cover, yields_of, same_row, sym_cell, PyDict, term, StrS, Cell, SV, IntS)
    from pyvc.symex import PyExc, Ev
    from pyvc import lib
    fk = vc.under_contract(P + 'join.py', ['join_aux', 'indexer'])
    spec = SpecModule(SPEC)
    # count: "count the number of occurrences of a specific key ... In case [name] is specified, count will count the number of
    # non-null values for that source field" (PROCESSORS.md): 'count' names the source field, 'count-rows' gives no name
    for agg in ('sum', 'count', 'count-rows', 'count-same-name', 'first', 'array', 'avg'):
        for mode in ('half-outer', 'full-outer'):
            for which in (0, 1, 2):          # key absent | key present, field state empty (None) | field has a state
                def thunk(it, agg=agg, mode=mode, which=which):
                    unnamed = agg == 'count-rows'
                    # a count that NAMES its source field counts that field's non-null values -- also when the source field has the
                    # same name as the target field ({'x': {'name': 'x', 'aggregate': 'count'}}, the spelling the README uses)
                    same_name = agg == 'count-same-name'
                    sfn = 'x' if same_name else 'v'
                    agg = 'count' if (unnamed or same_name) else agg
                    from pyvc.api import PyDict as _PD
                    func, usage, db = mk_join(it, mode=mode, agg=agg, fields=_PD({'x': _PD({'aggregate': 'count'})}) if unnamed else (
                        _PD({'x': _PD({'name': 'x', 'aggregate': 'count'})}) if same_name else None))
                    indexer = func.env.lookup('indexer')
                    sp = spec.bind(it)
                    states = agg_states(it, agg)
                    stored = {}
                    if which == 0:
                        def get(it_, o, a, k):
                            it_.emit(Ev('Call', target=o, method='get', args=(a[0],), kwargs={}, result=None, objs=tuple(a)))
                            raise PyExc(lib.ExcV('KeyError', (a[0],)))
                        curr = None
                    else:
                        curr = states[1][1] if which == 2 and len(states) > 1 else None
                        cur_dict = PyDict({'x': curr})

                        def get(it_, o, a, k):
                            it_.emit(Ev('Call', target=o, method='get', args=(a[0],), kwargs={}, result=cur_dict, objs=tuple(a)))
                            return cur_dict
                    db.attrs['call:get'] = get
                    r = mk_resource(it, 'source')
                    tag = '[%s,%s,%d]' % ('count-rows' if unnamed else ('count-same-name' if same_name else agg), mode, which)

                    def at_start(it, env, elem):
                        n, row = elem
                        _numbered_from_one(it, n, 'source' + tag)
                        return n, row, row.snapshot()

                    def at_end(it, env, cap, events):
                        n, row, snap = cap
                        names = effect_names(events)
                        check(it, 'index-written-before-the-row-is-yielded' + tag,
                              names == ['db1.get', 'db1.set', 'db0.set', 'Yield'])
                        ys = yields_of(events)
                        if len(ys) == 1:
                            check(it, 'row-re-yielded-same-object-untouched' + tag,
                                  same_row(ys[0].value, snap))
                        st = calls(events, method='set')
                        if len(st) == 2:
                            key = st[0].objs[0]
                            vt = it.uncell(snap.val[z3.StringVal('k')])
                            check(it, 'key-is-the-rendered-source-key' + tag, term(key, StrS) == lib.term(lib.format_value(it, vt, ''), StrS))
                            check(it, 'usage-flag-reset-for-this-key' + tag, st[1].objs[1] is False and
                                  _b(term(st[1].objs[0], StrS) == term(key, StrS)))
                            cur2 = st[0].objs[1]
                            v = it.uncell(z3.If(snap.dom[z3.StringVal(sfn)], snap.val[z3.StringVal(sfn)], Cell.none))
                            isnull = Cell.is_none(it.cell_of(v))
                            got_state = cur2.d.get('x')
                            if unnamed:
                                want = run_spec(it, sp.attrs['fold_step'], [agg, curr, '']).value
                                check(it, 'count-without-a-name-counts-every-row' + tag, _b(same_state(it, got_state, want)))
                            else:
                                if it.branch(isnull):
                                    check(it, 'null-value-leaves-the-state-unchanged' + tag, got_state is curr or
                                          (got_state is None and curr is None))
                                    # ... and the entry still HAS the field (a null placeholder): the key of an all-null group is in the
                                    # index, its target rows are matched and get a null aggregate -- they are not "unmatched"
                                    check(it, 'all-null-group-keeps-a-null-placeholder-for-the-field' + tag, 'x' in cur2.d)
                                else:
                                    want = run_spec(it, sp.attrs['fold_step'], [agg, curr, v]).value
                                    check(it, 'non-null-value-folded-into-the-state' + tag, _b(same_state(it, got_state, want)))
                            if mode == 'full-outer':
                                kv = cur2.d.get('__key__')
                                check(it, 'full-outer-stores-the-raw-key-values' + tag, isinstance(kv, lib.PyList) and len(kv.items) == 1
                                      and _b(it.cell_of(kv.items[0]) == it.cell_of(it.uncell(z3.If(snap.dom[z3.StringVal('k')],
                                                                                                     snap.val[z3.StringVal('k')], Cell.none)))))
                            else:
                                check(it, 'no-raw-key-outside-full-outer' + tag, '__key__' not in cur2.d)
                        cover(it, 'iter-reachable' + tag)
                    it.loops['indexer#L0'] = LoopSpec(at_start=at_start, at_end=at_end, modes=('iter',))
                    it.path.info['allowed_exc'] = {'KeyError': z3.BoolVal(True)}
                    it.run_generator(it.call(indexer, [r]))
                paths = vc.explore(fk, thunk, min_paths=1)
                expect_no_raise_or_same(vc, fk, paths)


def sym_process_target(vc):
    import z3
    from pyvc.api import (LoopSpec, check, cover, yields_of, same_row, PyDict, term, StrS, Cell, SV, IntS, Row, Stream)
    from pyvc.symex import PyExc, Ev
    from pyvc import lib
    fk = vc.under_contract(P + 'join.py', ['join_aux', 'process_target'])
    vc.under_contract_if_present(P + 'join.py', ['join_aux', 'create_extra_by_key'])
    for mode in ('inner', 'half-outer', 'full-outer', 'inner/no-fields', 'half-outer/no-fields'):
        for matched in (True, False):
            def thunk(it, mode=mode, matched=matched):
                # the key field is named differently on the two sides: rows emitted into the target resource use the TARGET's name
                nofields = mode.endswith('/no-fields')       # join used as a filter: nothing is copied, index entries are empty
                mode = mode.split('/')[0]
                func, usage, db = mk_join(it, mode=mode, agg='first', key_names=('sk', 'tk'), fields=PyDict({}) if nofields else None)
                process_target = func.env.lookup('process_target')
                raw_key = it.fresh('raw_source_key', Cell)
                state = it.fresh('stored_state', Cell)
                stored = PyDict({'x': SV(state)} if not nofields else {})
                if mode == 'full-outer':
                    # what the indexer's contract establishes for every entry in this mode (full-outer-stores-the-raw-key-values)
                    stored.d['__key__'] = lib.PyList([SV(raw_key)])

                def get(it_, o, a, k):
                    it_.emit(Ev('Call', target=o, method='get', args=(a[0],), kwargs={}, result=None, objs=tuple(a)))
                    if not matched:
                        if 'default' in k:
                            return k['default']       # KVFile.get(key, default=..) answers with the default instead of raising (T6)
                        raise PyExc(lib.ExcV('KeyError', (a[0],)))
                    return PyDict(dict(stored.d))
                db.attrs['call:get'] = get
                usage.attrs['call:items'] = lambda it_, o, a, k: Stream('usage.items', lambda it2: (SV(it2.fresh('ukey', StrS)),
                                                                                                   SV(it2.fresh('uflag', z3.BoolSort()))))
                r = mk_resource(it, 'target')
                tag = '[%s%s,%s]' % (mode, '/no-fields' if nofields else '', 'matched' if matched else 'unmatched')

                def at_start(it, env, elem):
                    n, row = elem
                    _numbered_from_one(it, n, 'target' + tag)
                    return n, row, row.snapshot()

                def at_end(it, env, cap, events):
                    n, row, snap = cap
                    ys = yields_of(events)
                    sets = calls(events, method='set')
                    if nofields:
                        # a join that copies nothing is a (semi-)join filter: a matched row passes as it is -- an EMPTY index entry
                        # is still a match --, an unmatched one is dropped in inner mode and passes in outer mode
                        keep = matched or mode != 'inner'
                        check(it, 'no-fields-join-keeps-exactly-the-rows-the-mode-keeps' + tag, len(ys) == (1 if keep else 0))
                        if len(ys) == 1:
                            check(it, 'no-fields-join-leaves-the-row-as-it-is' + tag, same_row(ys[0].value, snap))
                        cover(it, 'iter-reachable' + tag)
                        return
                    if matched:
                        check(it, 'matched-row-emitted-once' + tag, len(ys) == 1)
                        check(it, 'matched-key-marked-used' + tag, len(sets) == 1 and sets[0].objs[1] is True)
                        if len(ys) == 1:
                            out = ys[0].value
                            k = z3.Const('kk', StrS)
                            check(it, 'row-extended-by-the-finalised-aggregate' + tag, z3.And(
                                out.dom[z3.StringVal('x')], out.val[z3.StringVal('x')] == state,
                                z3.ForAll([k], z3.Implies(k != z3.StringVal('x'), z3.And(out.dom[k] == snap.dom[k],
                                                                                        z3.Implies(snap.dom[k], out.val[k] == snap.val[k]))))))
                    elif mode == 'inner':
                        check(it, 'unmatched-row-dropped-in-inner-mode' + tag, len(ys) == 0 and len(sets) == 0)
                    else:
                        check(it, 'unmatched-row-kept-in-outer-modes' + tag, len(ys) == 1 and len(sets) == 0)
                        if len(ys) == 1:
                            out = ys[0].value
                            k = z3.Const('kk', StrS)
                            x = z3.StringVal('x')
                            check(it, 'unmatched-row-gets-its-own-value-or-null' + tag, z3.And(
                                out.dom[x], out.val[x] == z3.If(snap.dom[x], snap.val[x], Cell.none),
                                z3.ForAll([k], z3.Implies(k != x, z3.And(out.dom[k] == snap.dom[k],
                                                                        z3.Implies(snap.dom[k], out.val[k] == snap.val[k]))))))
                    cover(it, 'iter-reachable' + tag)

                def u_end(it, env, cap, events):
                    key, flag = cap
                    ys = yields_of(events)
                    isfalse = lib.identical(it, flag, False)
                    if matched:
                        check(it, 'unused-source-key-emitted-once' + tag,
                              z3.And(z3.Implies(_b(isfalse), _b(len(ys) == 1)), z3.Implies(z3.Not(_b(isfalse)), _b(len(ys) == 0))))
                        if len(ys) == 1 and isinstance(ys[0].value, PyDict):
                            # the extra row goes into the TARGET resource: the stored raw key values under the target's key
                            # field names (the only key fields its schema declares), the finalised aggregate, nothing else
                            d = ys[0].value.d
                            check(it, 'extra-row-carries-the-key-under-the-target-field-names' + tag, z3.Implies(_b(isfalse), z3.And(
                                _b(set(d) == {'x', 'tk'}), _b(lib.values_equal(it, d.get("tk"), SV(raw_key))), _b(lib.values_equal(it, d.get("x"), SV(state))))))
                        elif len(ys) == 1:
                            check(it, 'extra-row-carries-the-key-under-the-target-field-names' + tag, z3.Not(_b(isfalse)))
                    cover(it, 'usage-iter-reachable' + tag)
                it.loops['process_target#L1'] = LoopSpec(at_start=at_start, at_end=at_end)
                if mode == 'full-outer':
                    # (the loop over the unused source keys exists in this mode only)
                    it.loops['process_target#L2'] = LoopSpec(at_start=lambda it, env, e: e, at_end=u_end)
                it.path.info['allowed_exc'] = {'KeyError': z3.BoolVal(True)}
                it.run_generator(it.call(process_target, [r]))
                evs = it.path.events
                if mode != 'full-outer':
                    check(it, 'no-extra-rows-outside-full-outer' + tag, not calls(evs, method='items'))
            paths = vc.explore(fk, thunk, min_paths=2)
            expect_no_raise_or_same(vc, fk, paths)


def sym_join_process_datapackage(vc):
    """join_aux.process_datapackage (the descriptor phase; the stream phase is new_resource_iterator, same cases in the same order):
       every other resource keeps its position and is the same object; the source descriptor stays iff source_delete is off; in
       deduplication mode (no target key) a NEW target descriptor {name: target, path: data/<target>.csv} with the aggregated fields
       follows at the source's position; otherwise the target descriptor is extended in place at its own position; a missing source
       or target, or a target listed before its source, is an AssertionError and the package is left as it was"""
    import z3
    from pyvc.api import check, cover, PyDict, PyList
    from pyvc.symex import PyExc
    fk = vc.under_contract(P + 'join.py', ['join_aux', 'process_datapackage'])

    def mk_pkg(order):
        rs = {}
        for n in order:
            fields = [PyDict({'name': 'k', 'type': 'string'})] + ([PyDict({'name': 'v', 'type': 'integer'})] if n == 'src' else [])
            rs[n] = PyDict({'name': n, 'path': n + '.csv', 'schema': PyDict({'fields': PyList(fields)})})
        lst = PyList([rs[n] for n in order])
        return PyDict({'name': 'pkg', 'resources': lst}), rs, lst
    for source_delete in (True, False):
        for dedup in (False, True):
            for order in (('a', 'src', 'b', 'tgt', 'c'), ('src', 'tgt'), ('a', 'src') if dedup else ('a', 'tgt', 'src'), ('a', 'tgt'), ('a', 'src')):
                def thunk(it, source_delete=source_delete, dedup=dedup, order=order):
                    func, usage, db = mk_join(it, mode='half-outer', source_delete=source_delete, agg='sum', target_key=not dedup)
                    pd = func.env.lookup('process_datapackage')
                    dp, rs, lst0 = mk_pkg(order)
                    tag = '[delete=%s,dedup=%s,%s]' % (source_delete, dedup, '-'.join(order))
                    has_src, has_tgt = 'src' in order, 'tgt' in order
                    bad = (not has_src) or (not has_tgt) or (not dedup and order.index('tgt') < order.index('src'))
                    if dedup and has_src and not has_tgt:
                        bad = True          # the target NAME has to be in the package in every mode (asserted up front)
                    try:
                        it.call(pd, [dp])
                    except PyExc as pe:
                        check(it, 'malformed-package-rejected-with-an-assertion' + tag, bad and pe.exc.cls == 'AssertionError')
                        check(it, 'rejected-package-left-as-it-was' + tag, dp.d['resources'] is lst0 and lst0.items == [rs[n] for n in order])
                        cover(it, 'rejection-reachable' + tag)
                        return
                    check(it, 'well-formed-package-accepted' + tag, not bad)
                    out = dp.d['resources'].items
                    want = []
                    for n in order:
                        if n == 'src':
                            if not source_delete:
                                want.append(('same', rs[n]))
                            if dedup:
                                want.append(('new-target', None))
                        elif n == 'tgt':
                            want.append(('same', rs[n]) if not dedup else ('same', rs[n]))
                        else:
                            want.append(('same', rs[n]))
                    ok = len(out) == len(want)
                    for got, (kind, obj) in zip(out, want):
                        if kind == 'same':
                            ok = ok and got is obj
                        else:
                            ok = ok and isinstance(got, PyDict) and got is not rs.get('tgt') and got.d.get('name') == 'tgt' and \
                                got.d.get('path') == 'data/tgt.csv' and list(got.d) == ['name', 'path', 'schema'] and \
                                [f.d.get('name') for f in got.d['schema'].d['fields'].items] == ['x']
                    check(it, 'descriptor-list-as-the-mode-prescribes' + tag, ok)
                    if not dedup:
                        names = [f.d.get('name') for f in rs['tgt'].d['schema'].d['fields'].items]
                        check(it, 'target-descriptor-extended-in-place-by-the-aggregated-fields' + tag, names == ['k', 'x'])
                    for n in order:
                        if n not in ('src', 'tgt'):
                            check(it, 'other-resources-untouched' + tag + '[%s]' % n, list(rs[n].d) == ['name', 'path', 'schema'] and
                                  [f.d.get('name') for f in rs[n].d['schema'].d['fields'].items] == ['k'])
                    cover(it, 'reachable' + tag)
                vc.explore(fk, thunk)


def sym_join_field_order(vc):
    """descriptor phase, field handling: the '*' wildcard is expanded against the SOURCE schema and the joined fields are added in
    source-schema order (then the remaining ones by name), whatever the order of the `fields` argument"""
    from pyvc.api import check, cover, PyDict, PyList
    fk = vc.under_contract(P + 'join.py', ['join_aux', 'process_datapackage'])
    for shape in ('explicit', 'wildcard'):
        def thunk(it, shape=shape):
            if shape == 'explicit':
                fields = PyDict({'zz': PyDict({'name': 'v', 'aggregate': 'max'}), 'v': PyDict({'aggregate': 'sum'}), 'k': PyDict({})})
                want = ['k', 'v', 'zz']
            else:
                fields = PyDict({'*': PyDict({'aggregate': 'last'})})
                want = ['k', 'v']
            func, usage, db = mk_join(it, mode='half-outer', agg='sum', target_key=False, fields=fields)
            pd = func.env.lookup('process_datapackage')
            src = PyDict({'name': 'src', 'path': 'src.csv', 'schema': PyDict({'fields': PyList([
                PyDict({'name': 'k', 'type': 'string'}), PyDict({'name': 'v', 'type': 'integer'})])})})
            tgt = PyDict({'name': 'tgt', 'path': 'tgt.csv', 'schema': PyDict({'fields': PyList([])})})
            dp = PyDict({'name': 'pkg', 'resources': PyList([src, tgt])})
            it.call(pd, [dp])
            new = [r for r in dp.d['resources'].items if r is not src and r is not tgt]
            check(it, 'joined-fields-in-source-schema-order-then-by-name[%s]' % shape, len(new) == 1 and
                  [f.d.get('name') for f in new[0].d['schema'].d['fields'].items] == want)
        vc.explore(fk, thunk)


def _parts(v, acc=None):
    from pyvc.api import PyDict, PyList
    acc = [] if acc is None else acc
    if isinstance(v, (PyDict, PyList)):
        acc.append(v)
        for x in (v.d.values() if isinstance(v, PyDict) else v.items):
            _parts(x, acc)
    return acc


def sym_join_func(vc):
    """join_aux.func(package): descriptor phase on the package's own descriptor FIRST, then the package, then exactly the streams of
    new_resource_iterator(package), and only after the last of them both key-value stores are closed"""
    from pyvc.api import check, cover, UFunc, Opaque, Stream, yields_of
    from pyvc.symex import Ev
    fk = vc.under_contract(P + 'join.py', ['join_aux', 'func'])

    def thunk(it):
        func, usage, db = mk_join(it, mode='half-outer', agg='sum')
        log = []
        streams = Stream('new_resources', lambda it_: Opaque('stream', 'joined_stream'))

        def pd(it_, a, k):
            it_.emit(Ev('Call', target='process_datapackage', method='__call__', args=(), kwargs={}, result=None, objs=tuple(a)))
            return None

        def nri(it_, a, k):
            it_.emit(Ev('Call', target='new_resource_iterator', method='__call__', args=(), kwargs={}, result=None, objs=tuple(a)))
            return streams
        func.env.vars['process_datapackage'] = UFunc('process_datapackage', pd, False)
        func.env.vars['new_resource_iterator'] = UFunc('new_resource_iterator', nri, False)
        package = mk_package2(it)
        n0 = len(it.path.events)
        it.run_generator(it.call(func, [package]))
        evs = it.path.events[n0:]
        names = [x for x in effect_names(evs) if x not in ('Exhausted',)]
        # (this is the second run of the step object in this harness: it opens ITS OWN two stores, before anything else, and closes
        # those -- not the ones of the run before)
        check(it, 'own-stores-opened-then-descriptor-phase-then-package-then-the-joined-streams-then-both-stores-closed',
              names == ['KVFile', 'KVFile', 'process_datapackage', 'Yield', 'new_resource_iterator', 'YieldFrom', 'db3.close', 'db2.close']
              and len(func.stores_opened) == 4)
        # ... and its own copy of the field mapping as specified: what the run before made of it (a '*' expanded for ITS package)
        # is not what this run works on
        m1, m2 = func.mapping_of_the_prologue_run, func.env.lookup('fields')
        check(it, 'every-run-works-on-its-own-copy-of-the-specified-mapping', m2 is not m1 and m2 is not None and
              not (set(map(id, _parts(m1))) & set(map(id, _parts(m2)))))
        c = [e for e in evs if e.kind == 'Call' and e.target == 'process_datapackage']
        check(it, 'descriptor-phase-gets-the-packages-own-descriptor', len(c) == 1 and c[0].objs[0] is package.attrs['pkg'].attrs['descriptor'])
        ys = yields_of(evs)
        check(it, 'first-yield-is-the-package', len(ys) == 1 and ys[0].obj is package.attrs['pkg'])
        yf = [e for e in evs if e.kind == 'YieldFrom']
        n = [e for e in evs if e.kind == 'Call' and e.target == 'new_resource_iterator']
        check(it, 'streams-are-those-of-new_resource_iterator-over-the-package', len(yf) == 1 and yf[0].src is streams and len(n) == 1 and
              n[0].objs[0] is package)
    vc.explore(fk, thunk)


def sym_new_resource_iterator(vc):
    import z3
    from pyvc.api import LoopSpec, check, cover, yields_of, GenObj, Stream
    from pyvc.api import term as _t, BoolS as _B
    lib_term = lambda v: _t(v, _B)
    fk = vc.under_contract(P + 'join.py', ['join_aux', 'new_resource_iterator'])
    for source_delete in (True, False):
        for which in ('source', 'target', 'other'):
            def thunk(it, source_delete=source_delete, which=which):
                func, usage, db = mk_join(it, source_delete=source_delete)
                nri = func.env.lookup('new_resource_iterator')
                resources = Stream('resources', lambda it_: mk_resource(it_, 'r'))
                tag = '[delete=%s,%s]' % (source_delete, which)

                def at_start(it, env, r):
                    nm = r.attrs['res'].attrs['name'].t
                    it.assume({'source': nm == z3.StringVal('src'), 'target': nm == z3.StringVal('tgt'),
                               'other': z3.And(nm != z3.StringVal('src'), nm != z3.StringVal('tgt'))}[which])
                    hi = env.lookup('has_index')
                    hit = z3.BoolVal(hi) if isinstance(hi, bool) else lib_term(hi)
                    it.path.info['has_index_before'] = hit
                    # a target that comes before its source is rejected loudly, and only then
                    it.path.info['allowed_exc'] = {'AssertionError': z3.Not(hit)} if which == 'target' else {}
                    return r

                def at_end(it, env, r, events):
                    ys = yields_of(events)
                    dr = [e for e in events if e.kind == 'Drain']
                    if which == 'other':
                        check(it, 'other-stream-same-object' + tag, len(ys) == 1 and same_stream(it, ys[0].obj, r) and not dr)
                    elif which == 'source':
                        if source_delete:
                            ok = len(ys) == 0 and len(dr) == 1 and isinstance(dr[0].src, GenObj) and fn_named(dr[0].src, 'indexer') \
                                and dr[0].src.args[0] is r
                            check(it, 'deleted-source-is-indexed-by-draining-it' + tag, ok)
                        else:
                            ok = len(ys) == 1 and isinstance(ys[0].obj, GenObj) and fn_named(ys[0].obj, 'indexer') and \
                                ys[0].obj.args[0] is r and not dr
                            check(it, 'kept-source-is-indexed-while-it-streams' + tag, ok)
                    else:
                        ok = len(ys) == 1 and isinstance(ys[0].obj, GenObj) and fn_named(ys[0].obj, 'process_target') and \
                            ys[0].obj.args[0] is r
                        check(it, 'target-is-joined' + tag, ok)
                        check(it, 'target-joined-only-after-the-source-was-indexed' + tag, it.path.info['has_index_before'])
                    if which == 'source':
                        hi1 = env.lookup('has_index')
                        check(it, 'source-seen-is-remembered' + tag, hi1 if isinstance(hi1, bool) else lib_term(hi1))
                    cover(it, 'iter-reachable' + tag)

                def at_entry(it, env):
                    check(it, 'no-source-seen-before-the-first-resource' + tag, env.lookup('has_index') is False)
                it.loops['new_resource_iterator#L0'] = LoopSpec(at_start=at_start, at_end=at_end, at_entry=at_entry)
                it.run_generator(it.call(nri, [resources]))
            paths = vc.explore(fk, thunk, min_paths=2)
            expect_no_raise_or_same(vc, fk, paths)


def nat_join(h):
    """bounded differential against an independent relational reference"""
    import statistics, collections
    from dataflows import Flow, join, join_with_self

    def ref_agg(agg, vals, nrows):
        nn = [v for v in vals if v is not None]
        if agg == 'count':
            # the aggregate names the source field v: the number of its non-null values (no value at all: null, like the others)
            return len(nn) if nn else None
        if agg in ('set',):
            return sorted(set(nn), key=repr)
        if agg == 'array':
            return nn
        if agg == 'counters':
            return sorted(collections.Counter(nn).most_common(), key=repr)
        if not nn:
            return None
        return {'sum': lambda: sum(nn), 'avg': lambda: sum(nn) / len(nn), 'median': lambda: statistics.median(nn),
                'max': lambda: max(nn), 'min': lambda: min(nn), 'first': lambda: nn[0], 'last': lambda: nn[-1],
                'any': lambda: nn[-1]}[agg]()
    aggs = ['sum', 'avg', 'median', 'max', 'min', 'first', 'last', 'count', 'set', 'array', 'counters']
    for case in range(h.n(60, 600)):
        ns = h.rng.randint(0, 12) if h.tier == 'quick' or h.rng.random() < 0.95 else 10400
        nt = h.rng.randint(0, 8)
        if case == 0:
            ns, nt = 10400, 8      # one run per check with more distinct keys than the index keeps in memory (10240)
        keys = ['a', 'b', 'c', None] if ns < 100 else ['k%d' % i for i in range(ns)]
        if ns < 100 and h.rng.random() < 0.3:
            # values that compare equal in Python but render differently are different keys
            import decimal
            keys = [1, True, 1.0, decimal.Decimal('1.10'), decimal.Decimal('1.1'), '1', 0, False]
        src = [{'k': (h.rng.choice(keys) if ns < 100 else keys[i]), 'v': h.rng.choice([None, 0, 1, 2, 5, -3, False, 0])}
               for i in range(ns)]
        tgt = [{'k': h.rng.choice(keys[:6] + ['z']), 't': i} for i in range(nt)]
        agg = h.rng.choice(aggs)
        mode = h.rng.choice(['inner', 'half-outer', 'full-outer'])
        keyform = h.rng.choice(['list', 'format'])
        sk = ['k'] if keyform == 'list' else '{k}'
        sd = h.rng.random() < 0.5
        render = lambda r: '{k}'.format(**r)
        groups = collections.OrderedDict()
        for r in src:
            groups.setdefault(render(r), []).append(r)
        cfg = (agg, mode, keyform, sd, src if ns < 100 else ns, tgt)
        got = h.run(lambda: Flow([dict(r) for r in src], [dict(r) for r in tgt],
                                 join('res_1', sk, 'res_2', sk, fields={'x': {'name': 'v', 'aggregate': agg}}, mode=mode,
                                      source_delete=sd)).results(on_error=None))
        if ns == 0 or nt == 0:
            continue         # empty iterables get no schema; outside this check
        if not h.check(got[0] == 'ok', P + 'join.py::join', cfg, 'ok', got[:2]):
            continue
        res = got[1][0]
        out = res[-1]
        want = []
        used = set()
        for t in tgt:
            k = render(t)
            if k in groups:
                used.add(k)
                want.append(dict(t, x=ref_agg(agg, [r['v'] for r in groups[k]], len(groups[k]))))
            elif mode != 'inner':
                want.append(dict(t, x=None))
        # (key cells are compared by their rendering, which is what join matches on)
        # formerly: in full-outer mode a matched row's key fields are refreshed from the
        # source's raw key values, which render identically
        def norm(rows):
            return [dict(r, k='{}'.format(r.get('k')),
                         x=(sorted(r['x'], key=repr) if isinstance(r.get('x'), list) and agg in ('set', 'counters') else r.get('x')))
                    for r in rows]
        want = norm(want)
        body = norm(out[:len(want)])
        ok = body == want and all(type(a.get('x')) is type(b.get('x')) or isinstance(a.get('x'), (int, float)) for a, b in zip(body, want))
        if mode == 'full-outer':
            extra = out[len(want):]
            exp_extra = sorted([k for k in groups if k not in used])
            ok = ok and sorted(str(r.get('k')) for r in extra) == exp_extra and \
                all(norm([r])[0].get('x') == ref_agg(agg, [s['v'] for s in groups[str(r.get('k'))]], len(groups[str(r.get('k'))]))
                    for r in extra)
        else:
            ok = ok and len(out) == len(want)
        if not sd:
            ok = ok and res[0] == src
        h.check(ok, P + 'join.py::join', cfg, want, out if ns < 100 else len(out))
        # deduplication mode: one row per distinct key
        if ns < 100 and h.rng.random() < 0.3:
            got2 = h.run(lambda: Flow([dict(r) for r in src], join_with_self('res_1', sk, {'k': None, 'x': {'name': 'v', 'aggregate': agg}})
                                      ).results(on_error=None)[0])
            ok2 = got2[0] == 'ok' and sorted(str(r['k']) for r in got2[1][-1]) == sorted(groups)
            h.check(ok2, P + 'join.py::join_with_self', cfg, sorted(groups), got2[:2])



def nat_join_row_numbers(h):
    """bounded: a join on the row number ('#'): the k-th target row gets the values of the k-th source row, for every mode and
    differing lengths; '{#}' inside a format-string key numbers the rows the same way on both sides"""
    from dataflows import Flow, join
    for ns, nt in ((3, 3), (2, 4), (4, 2), (1, 1)):
        for mode in ('inner', 'half-outer', 'full-outer'):
            for form in ('list', 'format'):
                src = [{'s': 'src%d' % i} for i in range(ns)]
                tgt = [{'t': 'tgt%d' % i} for i in range(nt)]
                key = ['#'] if form == 'list' else 'row-{#}'
                got = h.run(lambda: Flow([dict(r) for r in src], [dict(r) for r in tgt],
                                         join('res_1', key, 'res_2', key, fields={'s': {}}, mode=mode)).results()[0])
                want = [{'t': 'tgt%d' % i, 's': ('src%d' % i if i < ns else None)} for i in range(nt) if i < ns or mode != 'inner']
                if mode == 'full-outer':
                    want += [{'t': None, 's': 'src%d' % i} for i in range(nt, ns)]
                ok = got[0] == 'ok' and len(got[1]) == 1 and [{'t': r.get('t'), 's': r.get('s')} for r in got[1][0]] == want
                h.check(ok, P + 'join.py::join_aux.process_target', ('row-number keys', ns, nt, mode, form), want, got[1] if got[0] == 'ok' else got[:2])


def nat_join_filter(h):
    """bounded: join that copies no field (fields={}) is a filter on the target: inner keeps exactly the target rows whose key occurs
    in the source, half-outer keeps all target rows, untouched, in order"""
    from dataflows import Flow, join
    for _ in range(h.n(20, 200)):
        src = [{'k': h.rng.randint(0, 4), 'v': i} for i in range(h.rng.randint(0, 5))]
        tgt = [{'k': h.rng.randint(0, 6), 'w': 'w%d' % i} for i in range(h.rng.randint(1, 6))]
        keys = {r['k'] for r in src}
        for mode in ('inner', 'half-outer'):
            want = [r for r in tgt if r['k'] in keys] if mode == 'inner' else tgt
            got = h.run(lambda: Flow([dict(r) for r in src] or [{'k': -1, 'v': 0}], [dict(r) for r in tgt],
                                     join('res_1', ['k'], 'res_2', ['k'], fields={}, mode=mode)).results(on_error=None)[0])
            h.check(got[0] == 'ok' and len(got[1]) == 1 and got[1][0] == want, P + 'join.py::join_aux.process_target', (mode, src, tgt), want,
                    got[1] if got[0] == 'ok' else got[:2])



def nat_full_outer_untyped_columns(h):
    """bounded: full-outer join into a target whose other columns are typed `any` (values of several kinds, or null throughout): every
    emitted row -- the rows made for unmatched source keys included -- carries every field the joined schema declares"""
    from dataflows import Flow, join
    src = [{'id': 1, 'p': 8}, {'id': 2, 'p': 2}, {'id': 2, 'p': 5}, {'id': 4, 'p': 3}, {'id': 7, 'p': 1}]
    tgt = [{'id': 1, 'city': 'london', 'note': 'capital', 'checked': None}, {'id': 2, 'city': 'paris', 'note': 75, 'checked': None},
           {'id': 3, 'city': 'rome', 'note': None, 'checked': None}]
    for api in ('results', 'results-unvalidated'):
        got = h.run(lambda: Flow([dict(r) for r in src], [dict(r) for r in tgt],
                                 join('res_1', ['id'], 'res_2', ['id'], {'p': {'aggregate': 'sum'}}, mode='full-outer')).results(
            **({} if api == 'results' else {'on_error': None})))
        if not h.check(got[0] == 'ok', P + 'join.py::join_aux.process_target', api, 'runs', got[:2]):
            continue
        res, dp, _ = got[1]
        names = [f['name'] for f in dp.descriptor['resources'][0]['schema']['fields']]
        sums = {1: 8, 2: 7, 4: 3, 7: 1}
        want = [dict(r, p=sums.get(r['id'])) for r in tgt] + [dict(id=k, city=None, note=None, checked=None, p=sums[k]) for k in (4, 7)]
        rows = res[0]
        if api == 'results':
            ok = names == ['id', 'city', 'note', 'checked', 'p'] and rows == want
        else:
            # unvalidated rows may omit nulls; what they carry must be right
            ok = len(rows) == len(want) and all(all(r.get(k) == w[k] for k in w) for r, w in zip(rows, want))
        h.check(ok, P + 'join.py::join_aux.process_target', api, want, rows)


# ------------------------------------------------------------------------------------------------ field mapping helpers (bounded)

FIELDS_SPEC = '''
def fixed(fields):
    out = {}
    for k in fields:
        spec = fields[k]
        name = k
        agg = 'any'
        if spec is not None:
            if 'name' in spec:
                name = spec['name']
            if 'aggregate' in spec:
                agg = spec['aggregate']
        out[k] = (name, agg)
    return out
'''


def nat_aggregators_fixed(h):
    """every aggregator on fixed groups with unsorted values, odd and even sizes, nulls, a single value and an all-null group:
    the result equals the definition of the aggregate over the matching non-null source values"""
    import statistics, collections
    from dataflows import Flow, join
    groups = collections.OrderedDict([('a', [5, 0, 1, -3]), ('b', [2, 9, 4]), ('c', [None]), ('d', [7]), ('e', [3, None, 1, 3, 2])])
    src = [{'k': k, 'v': v} for k, vs in groups.items() for v in vs]
    h.rng.shuffle(src)
    per_key = collections.OrderedDict()
    for r in src:
        per_key.setdefault(r['k'], []).append(r['v'])
    tgt = [{'k': k, 't': i} for i, k in enumerate(['b', 'a', 'zz', 'e', 'c', 'd', 'a'])]

    def ref(agg, vals):
        nn = [v for v in vals if v is not None]
        if agg == 'count':
            return len(nn) if nn else None
        if agg == 'set':
            return sorted(set(nn))
        if agg == 'array':
            return nn
        if agg == 'counters':
            return sorted(collections.Counter(nn).most_common())
        if not nn:
            return None
        return {'sum': sum(nn), 'avg': sum(nn) / len(nn), 'median': statistics.median(nn), 'max': max(nn), 'min': min(nn),
                'first': nn[0], 'last': nn[-1], 'any': nn[-1]}[agg]
    for agg in ['sum', 'avg', 'median', 'max', 'min', 'first', 'last', 'count', 'set', 'array', 'counters', 'any']:
        for mode in ('half-outer', 'inner'):
            got = h.run(lambda: Flow([dict(r) for r in src], [dict(r) for r in tgt],
                                     join('res_1', ['k'], 'res_2', ['k'], fields={'x': {'name': 'v', 'aggregate': agg}}, mode=mode)
                                     ).results(on_error=None)[0][-1])
            want = []
            for t in tgt:
                if t['k'] in per_key:
                    want.append(dict(t, x=ref(agg, per_key[t['k']])))
                elif mode != 'inner':
                    want.append(dict(t, x=None))

            def norm(rows):
                out = []
                for r in rows:
                    x = r.get('x')
                    if agg in ('set', 'counters') and isinstance(x, list):
                        x = sorted([tuple(y) if isinstance(y, (list, tuple)) else y for y in x])
                    if isinstance(x, (int, float)) and not isinstance(x, bool):
                        x = float(x)
                    out.append(dict(r, x=x))
                return out
            ok = got[0] == 'ok' and norm(got[1]) == norm(want)
            h.check(ok, P + 'join.py::AGGREGATORS', (agg, mode, dict(per_key)), norm(want), norm(got[1]) if got[0] == 'ok' else got[:2])
    # count: occurrences of the key without a name, non-null values of the named source field with one (PROCESSORS.md)
    csrc = [{'k': 'a', 'v': 'x'}, {'k': 'a', 'v': None}, {'k': 'a', 'v': None}, {'k': 'b', 'v': None}]
    got = h.run(lambda: Flow([dict(r) for r in csrc], [{'k': 'a'}, {'k': 'b'}, {'k': 'c'}],
                             join('res_1', ['k'], 'res_2', ['k'], fields={'n_rows': {'aggregate': 'count'}, 'n_v': {'name': 'v', 'aggregate': 'count'}})
                             ).results(on_error=None)[0][-1])
    wantc = [{'k': 'a', 'n_rows': 3, 'n_v': 1}, {'k': 'b', 'n_rows': 1, 'n_v': None}, {'k': 'c', 'n_rows': None, 'n_v': None}]
    h.check(got[0] == 'ok' and [dict(r, n_v=r['n_v'] or None) for r in got[1]] == wantc, P + 'join.py::join_aux.indexer', 'count with and without a name',
            wantc, got[1] if got[0] == 'ok' else got[:2])
    # sum over text = concatenation in order of appearance
    ssrc = [{'k': 'a', 's': 'x'}, {'k': 'b', 's': 'p'}, {'k': 'a', 's': 'y'}, {'k': 'a', 's': 'z'}]
    got = h.run(lambda: Flow([dict(r) for r in ssrc], [{'k': 'a'}, {'k': 'b'}],
                             join('res_1', ['k'], 'res_2', ['k'], fields={'cat': {'name': 's', 'aggregate': 'sum'}})).results(on_error=None)[0][-1])
    h.check(got[0] == 'ok' and got[1] == [{'k': 'a', 'cat': 'xyz'}, {'k': 'b', 'cat': 'p'}], P + 'join.py::AGGREGATORS', 'sum of strings',
            [{'k': 'a', 'cat': 'xyz'}, {'k': 'b', 'cat': 'p'}], got[1] if got[0] == 'ok' else got[:2])
    # keys that render equal from different raw values: a matched target row keeps its own key cells in every mode
    hs = [{'house': 'Lannister', 'age': 34}, {'house': 'Stark', 'age': 17}, {'house': 'Nowhere', 'age': 50}]
    ht = [{'house': 'House of Lannister'}, {'house': 'House of Stark'}, {'house': 'House of Tyrell'}]
    for mode in ('inner', 'half-outer', 'full-outer'):
        got = h.run(lambda: Flow([dict(r) for r in hs], [dict(r) for r in ht],
                                 join('res_1', 'House of {house}', 'res_2', '{house}', fields={'max_age': {'name': 'age', 'aggregate': 'max'}},
                                      mode=mode)).results(on_error=None)[0][-1])
        want = [{'house': 'House of Lannister', 'max_age': 34}, {'house': 'House of Stark', 'max_age': 17}]
        if mode != 'inner':
            want.append({'house': 'House of Tyrell', 'max_age': None})
        h.check(got[0] == 'ok' and got[1][:len(want)] == want and (len(got[1]) == len(want) + (1 if mode == 'full-outer' else 0)),
                P + 'join.py::join_aux.process_target', ('format keys', mode), want, got[1] if got[0] == 'ok' else got[:2])


    # two-field format keys whose field names sort differently on the two sides, and a repeated field: the row emitted for an
    # unmatched source key carries the source's key values under the corresponding target fields, position by position
    cs = [{'city': 'Paris', 'country': 'FR', 'pop': 2}, {'city': 'Lyon', 'country': 'FR', 'pop': 1}, {'city': 'Bonn', 'country': 'DE', 'pop': 3}]
    ct = [{'name': 'Paris', 'cc': 'FR'}, {'name': 'Rome', 'cc': 'IT'}]
    for skey, tkey, extra in (('{city} ({country})', '{name} ({cc})', [{'name': 'Lyon', 'cc': 'FR', 'pop': 1}, {'name': 'Bonn', 'cc': 'DE', 'pop': 3}]),
                              ('{country}/{city}', '{cc}/{name}', [{'name': 'Lyon', 'cc': 'FR', 'pop': 1}, {'name': 'Bonn', 'cc': 'DE', 'pop': 3}])):
        got = h.run(lambda: Flow([dict(r) for r in cs], [dict(r) for r in ct],
                                 join('res_1', skey, 'res_2', tkey, fields={'pop': {}}, mode='full-outer')).results(on_error=None)[0][-1])
        want = [{'name': 'Paris', 'cc': 'FR', 'pop': 2}, {'name': 'Rome', 'cc': 'IT', 'pop': None}]
        srt = lambda rows: sorted(rows, key=lambda r: r.get('name') or '')
        h.check(got[0] == 'ok' and got[1][:2] == want and srt(got[1][2:]) == srt(extra), P + 'join.py::KeyCalc.__init__',
                ('two-field format keys, full-outer', skey, tkey), want + extra, got[1] if got[0] == 'ok' else got[:2])


def sym_field_helpers(vc):
    """fix_fields / expand_fields / order_fields -- BOUNDED (structure unrolled: <= 2 explicit target fields plus the '*'
    wildcard, <= 3 source schema fields with pairwise distinct symbolic names):
       fix_fields   : every spec gets name (default: its key) and aggregate (default 'any'); nothing else changes
       expand_fields: '*' is replaced by one entry per source field whose NAME is not already the source name of an explicit
                      entry, keyed and named by that field, with a copy of the wildcard's spec; without '*' nothing changes
       order_fields : entries whose key is a source schema field come first in schema order, then the others; the set of
                      entries and their specs are unchanged"""
    import z3
    from pyvc.api import real_function, check, cover, sym_str, PyDict, PyList, term, StrS, SV
    from pyvc import lib
    fk = vc.under_contract(P + 'join.py', ['fix_fields'])
    vc.under_contract(P + 'join.py', ['expand_fields'])
    vc.under_contract(P + 'join.py', ['order_fields'])
    vc.bounded_label = 'join field helpers'
    vc.bounded_notes.append('join.fix_fields / expand_fields / order_fields: 0..2 explicit target fields (literal keys) with optional '
                            'symbolic source names, with / without the * wildcard, 0..3 source schema fields with pairwise distinct '
                            'symbolic names')
    try:
        # ---- fix_fields
        for shape in ([], [None], [{}], [{'name': 1}], [{'aggregate': 1}], [{'name': 1, 'aggregate': 1}, None]):
            def thunk(it, shape=shape):
                f = real_function(it, 'dataflows.processors.join', 'fix_fields')
                d = PyDict()
                want = {}
                for j, sp in enumerate(shape):
                    key = 'f%d' % j
                    if sp is None:
                        d.d[key] = None
                        want[key] = (key, 'any')
                    else:
                        s = PyDict()
                        nm, ag = key, 'any'
                        if 'name' in sp:
                            nm = sym_str(it, 'src%d' % j)
                            s.d['name'] = nm
                        if 'aggregate' in sp:
                            ag = sym_str(it, 'agg%d' % j)
                            s.d['aggregate'] = ag
                        s.d['other'] = 'kept'
                        d.d[key] = s
                        want[key] = (nm, ag)
                r = it.call(f, [d])
                check(it, 'returns-the-same-dict-with-the-same-keys', r is d and list(d.d) == ['f%d' % j for j in range(len(shape))])
                for key, (nm, ag) in want.items():
                    s = d.d[key]
                    ok = isinstance(s, PyDict) and 'name' in s.d and 'aggregate' in s.d
                    check(it, 'spec-completed[%s]' % key, ok and _b(lib.values_equal(it, s.d['name'], nm)) is not False
                          and _b(lib.values_equal(it, s.d['aggregate'], ag)) is not False)
                    if ok:
                        check(it, 'name-default-is-the-key-else-kept[%s]' % key, _b(lib.values_equal(it, s.d['name'], nm)))
                        check(it, 'aggregate-default-is-any-else-kept[%s]' % key, _b(lib.values_equal(it, s.d['aggregate'], ag)))
                        check(it, 'other-spec-entries-kept[%s]' % key, shape[int(key[1:])] is None or s.d.get('other') == 'kept')
                cover(it, 'reachable')
            vc.explore(fk, thunk)
        # ---- expand_fields
        for nexp in (0, 1, 2):
            for star in (False, True):
                for nsf in (0, 1, 2, 3):
                    def thunk2(it, nexp=nexp, star=star, nsf=nsf):
                        f = real_function(it, 'dataflows.processors.join', 'expand_fields')
                        d = PyDict()
                        srcs = []
                        for j in range(nexp):
                            nm = sym_str(it, 'src%d' % j)
                            srcs.append(nm)
                            d.d['t%d' % j] = PyDict({'name': nm, 'aggregate': 'sum'})
                        star_spec = PyDict({'name': '*', 'aggregate': 'last'})
                        if star:
                            d.d['*'] = star_spec
                        sfs = [PyDict({'name': sym_str(it, 'sf%d' % j), 'type': 'string'}) for j in range(nsf)]
                        for a in range(nsf):
                            it.assume(sfs[a].d['name'].t != z3.StringVal('*'))
                            for b in range(a + 1, nsf):
                                it.assume(sfs[a].d['name'].t != sfs[b].d['name'].t)
                            for j in range(nexp):
                                # a schema field called like an explicit TARGET key would overwrite that entry: not in scope here
                                it.assume(sfs[a].d['name'].t != z3.StringVal('t%d' % j))
                        before = dict(d.d)
                        it.call(f, [d, PyList(sfs)])
                        tag = '[%d,%s,%d]' % (nexp, star, nsf)
                        if not star:
                            check(it, 'no-wildcard-nothing-changes' + tag, d.d == before)
                            return
                        check(it, 'wildcard-entry-removed' + tag, '*' not in d.d)
                        check(it, 'explicit-entries-kept' + tag, all(d.d.get('t%d' % j) is before['t%d' % j] for j in range(nexp)))
                        added = [(k, v) for k, v in d.d.items() if k not in before]
                        # which schema fields must have been added: those whose name is no explicit entry's source name
                        for sf in sfs:
                            nm = sf.d['name']
                            claimed = z3.Or(*[nm.t == s.t for s in srcs]) if srcs else z3.BoolVal(False)
                            hits = [(k, v) for k, v in added if isinstance(k, SV) and k.t.eq(nm.t)]
                            check(it, 'unclaimed-source-field-gets-an-entry-claimed-one-does-not' + tag,
                                  z3.If(claimed, z3.BoolVal(len(hits) == 0), z3.BoolVal(len(hits) == 1)))
                            for k, v in hits:
                                check(it, 'added-entry-is-a-copy-of-the-wildcard-spec-named-by-the-field' + tag,
                                      isinstance(v, PyDict) and v is not star_spec and v.d.get('aggregate') == 'last'
                                      and isinstance(v.d.get('name'), SV) and v.d['name'].t.eq(nm.t))
                        check(it, 'nothing-else-added' + tag, all(any(isinstance(k, SV) and k.t.eq(sf.d['name'].t) for sf in sfs) for k, v in added))
                        cover(it, 'reachable' + tag)
                    vc.explore(fk, thunk2)
        # ---- order_fields
        for nexp in (0, 1, 2, 3):
            for nsf in (0, 1, 2):
                def thunk3(it, nexp=nexp, nsf=nsf):
                    f = real_function(it, 'dataflows.processors.join', 'order_fields')
                    keys = ['kc', 'ka', 'kb'][:nexp]
                    d = PyDict({k: PyDict({'name': k, 'aggregate': 'any'}) for k in keys})
                    specs = dict(d.d)
                    # the source schema lists some of the keys (in an order of its own) and a field that is no key
                    sf_names = (['kb', 'zz', 'kc'])[:nsf]
                    sfs = PyList([PyDict({'name': n}) for n in sf_names])
                    r = it.call(f, [d, sfs])
                    got = list(r.d) if isinstance(r, PyDict) else None
                    first = [n for n in sf_names if n in keys]
                    # (the order among the entries that are no source schema field is not part of the property)
                    check(it, 'schema-fields-first-in-schema-order-then-the-other-keys[%d,%d]' % (nexp, nsf),
                          got is not None and got[:len(first)] == first and sorted(got) == sorted(keys))
                    check(it, 'same-entries-same-specs[%d,%d]' % (nexp, nsf), got is not None and all(r.d[k] is specs[k] for k in got)
                          and len(got) == len(keys))
                    cover(it, 'reachable[%d,%d]' % (nexp, nsf))
                vc.explore(fk, thunk3)
    finally:
        vc.bounded_label = None


from contracts.common import lazy_sym, lazy_nat   # noqa: E402

ITEMS = [
    Item('aggregators', sym_aggregators, [('differential', nat_join), ('fixed-groups', nat_aggregators_fixed)], P + 'join.py::AGGREGATORS',
         replay=replay_aggregators),
    Item('field-helpers', sym_field_helpers, [], P + 'join.py::fix_fields'),
    Item('KeyCalc', sym_keycalc, [], P + 'join.py::KeyCalc.__call__', replay=replay_keycalc),
    Item('indexer', sym_indexer, [], P + 'join.py::join_aux.indexer'),
    Item('process_target', sym_process_target, [('no-fields', nat_join_filter), ('full-outer-untyped-columns', nat_full_outer_untyped_columns), ('row-numbers', nat_join_row_numbers)],
         P + 'join.py::join_aux.process_target'),
    Item('new_resource_iterator', sym_new_resource_iterator, [], P + 'join.py::join_aux.new_resource_iterator'),
    Item('join.field-order', sym_join_field_order, [], P + 'join.py::join_aux.process_datapackage'),
    Item('join.func', sym_join_func, [], P + 'join.py::join_aux.func'),
    Item('join.process_datapackage', sym_join_process_datapackage, [], P + 'join.py::join_aux.process_datapackage'),
    Item('recorded-findings', None, [('bounded', KF.nat_findings_c11)], 'dataflows/processors/join.py::KeyCalc.__init__'),
    # the caster that runs over the joined rows (results(), dumpers): every declared field is cast and materialised, null when absent
    Item('schema_validator', lazy_sym('C14', 'sym_schema_validator'), [], 'dataflows/base/schema_validator.py::schema_validator'),
]

from contracts import reuse as _REUSE   # noqa: E402
ITEMS.append(Item('second-use', None, [('catalogue', _REUSE.nat_second_use_for('C11'))], 'dataflows/processors/join.py::join_aux'))
