"""contracts/dumpers.py -- contracts of the dumper effect protocol (C05, C09, C19, C04):
DumperBase.process_resources / row_counter / get_attr / set_attr / inc_attr / insert_hash_in_path,
FileDumper.rows_processor / handle_datapackage, PathDumper.write_file_to_output.
"""
from contracts.common import fn_named
from contracts.common import (Item, mk_resource, mk_package2, resource_desc, run_spec, ghost_row, expect_no_raise_or_same, _b)
from contracts.streams import calls, effect_names, check_no_commit_on_incomplete, tname

D = 'dataflows/processors/dumpers/'


def mk_counter_tree(it, hint):
    """a descriptor tree in which counter properties, when present, are integers / strings"""
    from pyvc.api import Tree, SV, IntS, StrS

    def mk_int(it_, node, key):
        v = it_.fresh('%s.%s' % (hint, key), IntS)
        it_.assume(v >= 0)
        return SV(v)
    t = Tree(hint)
    t.schema = {'count_of_rows': mk_int, 'bytes': mk_int,
                'hash': lambda it_, n, k: SV(it_.fresh('%s.hash' % hint, StrS)),
                'name': lambda it_, n, k: SV(it_.fresh('%s.name' % hint, StrS))}
    return t


def mk_dumper(it, cls_name='PathDumper', options=None, stub=()):
    """a real PathDumper instance (its __init__ chain is executed) with a symbolic datapackage attached.
    `stub`: method names replaced by effect stubs (modular: they have their own contracts)"""
    from pyvc.api import real_function, Opaque, ufunc, PyDict, sym_str
    mod = {'PathDumper': 'dataflows.processors.dumpers.to_path', 'ZipDumper': 'dataflows.processors.dumpers.to_zip'}[cls_name]
    C = real_function(it, mod, cls_name)
    n0 = len(it.path.events)
    out = sym_str(it, 'out_path')
    d = it.call(C, [out], dict(options or {}))
    init_events = it.path.events[n0:]
    del it.path.events[n0:]
    dp = Opaque('Package', 'datapackage')
    dp.attrs['descriptor'] = mk_counter_tree(it, 'dpdesc')
    d.attrs['datapackage'] = dp
    for m in stub:
        d.attrs[m] = ufunc(m, pure=False)
    from contracts.common import havoc_mutable_scalars
    d.havocked = havoc_mutable_scalars(it, d, containers=True)
    d.out = out
    d.init_events = init_events
    return d


def mk_dumped_resource(it, hint='resource'):
    rw = mk_resource(it, hint, may_raise=False)
    return rw


# ------------------------------------------------------------------------------------------------ FileDumper: which format, which file

def sym_file_dumper_dispatch(vc):
    """FileDumper.process_datapackage: per resource, in order, the format is the forced one (force_format, the default) or the
    extension of the resource's path; a custom formatter for that format wins over the built-in table (csv, json, geojson, excel,
    xlsx); a resource with a formatter gets prepare_resource exactly once, is committed, and ITS descriptor replaces the i-th entry
    of the package descriptor; a resource without one is left exactly as it was and is not registered.
       FileDumper.process_resource: a registered resource gets exactly one temporary file (text mode with newline='' / binary as the
    format says, never deleted on close) and a writer of its registered format built on that file and the resource's schema;
    the result is the lazy rows_processor over (resource, writer, file) -- no row is pulled; an unregistered resource is returned
    as the same object"""
    import z3
    from pyvc.api import real_function, check, cover, Opaque, PyDict, PyList, UFunc, GenObj, sym_str, term, StrS, LoopSpec
    from pyvc.symex import Ev
    fk = vc.under_contract(D + 'file_dumper.py', ['FileDumper', 'process_datapackage'])
    vc.under_contract(D + 'file_dumper.py', ['FileDumper', '__init__'])
    for forced, custom in ((True, False), (True, True), (False, False)):
        def thunk(it, forced=forced, custom=custom):
            m = it.module('dataflows.processors.dumpers.file_dumper')
            mine = Opaque('formatter', 'custom_csv_formatter')
            prepared = []

            def fmt(name):
                o = Opaque('formatter', name)
                o.attrs['call:prepare_resource'] = lambda it_, ob, a, k: prepared.append((name, a[0]))
                return o
            table = {n: fmt(n) for n in ('CSVFormat', 'JSONFormat', 'GeoJSONFormat', 'ExcelFormat')}
            mine.attrs['call:prepare_resource'] = lambda it_, ob, a, k: prepared.append(('custom', a[0]))
            for n, o in table.items():
                m.attrs[n] = o
            opts = {} if forced else {'force_format': False}
            if custom:
                opts['file_formatters'] = PyDict({'csv': mine})
            d = mk_dumper(it, options=opts)
            exts = ['.json', '.tsv', '.csv', '.xlsx', '.geojson', '.excel', '']
            ress = []
            descs = []
            for i, ext in enumerate(exts):
                r = Opaque('Resource', 'res%d' % i)
                r.attrs['name'] = 'r%d' % i
                r.attrs['source'] = 'data/file%d%s' % (i, ext)
                r.attrs['descriptor'] = PyDict({'name': 'r%d' % i, 'path': r.attrs['source']})
                r.commits = 0

                def commit(it_, ob, a, k, r=r):
                    r.commits += 1
                    # commit() re-reads the descriptor: a fresh object with the edited content
                    r.attrs['descriptor'] = PyDict(dict(r.attrs['descriptor'].d, committed=True))
                r.attrs['call:commit'] = commit
                ress.append(r)
                descs.append(r.attrs['descriptor'])
            dp = Opaque('Package', 'incoming')
            dp.attrs['resources'] = PyList(ress)
            dp.attrs['descriptor'] = PyDict({'resources': PyList(list(descs))})
            # the base class step is under its own contract (copies counters config, keeps the package)
            base = it.module('dataflows.processors.dumpers.dumper_base').attrs['DumperBase']
            base_calls = []
            base.methods['process_datapackage'] = UFunc('DumperBase.process_datapackage', lambda it_, a, k: (base_calls.append(a[1]), a[1])[1], False)
            out = it.call(it.lib.getattr_(it, d, 'process_datapackage'), [dp])
            check(it, 'base-class-step-runs-once-on-the-package' + '[forced=%s,custom=%s]' % (forced, custom), base_calls == [dp])
            tag = '[forced=%s,custom=%s]' % (forced, custom)
            ff = d.attrs.get('file_formatters')
            want = {}
            for i, ext in enumerate(exts):
                f = 'csv' if forced else ext[1:]
                o = (mine if custom and f == 'csv' else {'csv': table['CSVFormat'], 'json': table['JSONFormat'], 'geojson': table['GeoJSONFormat'],
                                                          'excel': table['ExcelFormat'], 'xlsx': table['ExcelFormat']}.get(f))
                if o is not None:
                    want['r%d' % i] = o
            check(it, 'returns-the-package-it-was-given' + tag, out is dp)
            check(it, 'formatter-by-forced-format-or-by-extension-custom-first' + tag, isinstance(ff, PyDict) and set(ff.d) == set(want) and
                  all(ff.d[k] is v for k, v in want.items()))
            check(it, 'each-registered-resource-prepared-once-in-order' + tag,
                  [r for _n, r in prepared] == [ress[i] for i in range(len(exts)) if 'r%d' % i in want])
            for i, r in enumerate(ress):
                entry = dp.attrs['descriptor'].d['resources'].items[i]
                if 'r%d' % i in want:
                    check(it, 'registered-resource-committed-and-its-descriptor-installed' + tag + '[%d]' % i,
                          r.commits == 1 and entry is r.attrs['descriptor'])
                else:
                    check(it, 'resource-of-an-unknown-format-left-as-it-was' + tag + '[%d]' % i, r.commits == 0 and entry is descs[i])
            cover(it, 'reachable' + tag)
        paths = vc.explore(fk, thunk)
        expect_no_raise_or_same(vc, fk, paths)
    fk2 = vc.under_contract(D + 'file_dumper.py', ['FileDumper', 'process_resource'])
    for registered, mode, titles in ((True, 'w+', False), (True, 'w+b', False), (True, 'w+', True), (False, None, False)):
        def thunk2(it, registered=registered, mode=mode, titles=titles):
            m = it.module('dataflows.processors.dumpers.file_dumper')
            files = []

            def tmp(it_, a, k):
                f = Opaque('tempfile', 'temp_file%d' % len(files))
                files.append((f, dict(k), list(a)))
                return f
            m.attrs['UmaskNamedTemporaryFile'] = UFunc('UmaskNamedTemporaryFile', tmp, False)
            made = []
            formatter = Opaque('formatter', 'registered_formatter')
            formatter.attrs['FILE_MODE'] = mode
            formatter.attrs['__callable__'] = True

            def mk_writer(it_, ob, a, k):
                w = Opaque('writer', 'writer%d' % len(made))
                made.append((w, list(a), dict(k)))
                return w
            formatter.attrs['call:__call__'] = mk_writer
            d = mk_dumper(it, options=dict({'temporal_format_property': 'outputFormat'}, **({'use_titles': True} if titles else {})),
                          stub=('rows_processor',))
            r = mk_dumped_resource(it, 'resource')
            schema = Opaque('Schema', 'schema_of_the_resource')
            r.attrs['res'].attrs['schema'] = schema
            name = r.attrs['res'].attrs['name']
            d.attrs['file_formatters'] = PyDict({name: formatter} if registered else {})
            n0 = len(it.path.events)
            out = it.call(it.lib.getattr_(it, d, 'process_resource'), [r])
            evs = it.path.events[n0:]
            tag = '[registered=%s,mode=%s,titles=%s]' % (registered, mode, titles)
            if not registered:
                check(it, 'unregistered-resource-returned-as-it-is' + tag, out is r and not files and not made and not calls(evs, target='rows_processor'))
                return
            check(it, 'exactly-one-temporary-file-never-deleted-on-close' + tag, len(files) == 1 and files[0][1].get('delete') is False and
                  files[0][1].get('mode') == mode)
            if len(files) == 1:
                nl = files[0][1].get('newline')
                check(it, 'text-files-written-without-newline-translation-binary-files-as-they-are' + tag,
                      (nl == '' if 'b' not in mode else nl is None))
            ok = len(made) == 1 and len(files) == 1 and made[0][1][:2] == [files[0][0], schema]
            check(it, 'one-writer-of-the-registered-format-on-that-file-and-schema' + tag, ok)
            if ok:
                kw = made[0][2]
                check(it, 'writer-gets-the-temporal-format-property-and-the-resource' + tag,
                      kw.get('temporal_format_property') == 'outputFormat' and kw.get('resource') is r.attrs['res'])
                check(it, 'titles-as-headers-iff-asked-for' + tag, (kw.get('use_titles') is True) == titles)
            rp = calls(evs, target='rows_processor')
            check(it, 'result-is-the-rows-processor-over-resource-writer-file' + tag, len(rp) == 1 and len(made) == 1 and len(files) == 1 and
                  list(rp[0].objs) == [r, made[0][0], files[0][0]] and it.cell_of(out) == rp[0].result)
            check(it, 'no-row-pulled-by-the-dispatcher' + tag, r.stream.drained is False and not [e for e in evs if e.kind in ('Pull', 'Drain')])
            cover(it, 'reachable' + tag)
        paths = vc.explore(fk2, thunk2)
        expect_no_raise_or_same(vc, fk2, paths)


# ------------------------------------------------------------------------------------------------ process_resources

def sym_process_resources(vc):
    """DumperBase.process_resources:
        per resource: yield row_counter(resource, process_resource(ResourceWrapper(res, schema_validator(res, resource))))
        after the LAST resource stream is exhausted, in this order: [package hash] . handle_datapackage . finalize
        on every incomplete path (abandoned at a yield, upstream raised): neither handle_datapackage nor finalize"""
    import z3
    from pyvc.api import real_function, LoopSpec, check, cover, yields_of, Stream, GenObj, Instance, Opaque
    fk = vc.under_contract(D + 'dumper_base.py', ['DumperBase', 'process_resources'])
    for hash_on in (True, False):
        def thunk(it, hash_on=hash_on):
            opts = {} if hash_on else {'counters': __import__('pyvc.api').api.PyDict({'datapackage-hash': None})}
            d = mk_dumper(it, options=opts, stub=('initialize', 'process_resource', 'row_counter', 'handle_datapackage', 'finalize'))
            hl = it.module('hashlib')
            resources = Stream('resources', lambda it_: mk_dumped_resource(it_, 'r'), may_raise=True)
            tag = '[hash=%s]' % hash_on

            def at_end(it, env, r, events):
                ys = yields_of(events)
                names = effect_names(events)
                check(it, 'per-resource-trace' + tag, names == ['process_resource', 'row_counter', 'Yield'])
                pr = calls(events, target='process_resource')
                rc = calls(events, target='row_counter')
                if len(pr) == 1 and len(rc) == 1 and len(ys) == 1:
                    w = pr[0].objs[0]
                    okw = isinstance(w, Instance) and w.cls.name == 'ResourceWrapper' and w.attrs.get('res') is r.attrs['res'] \
                        and isinstance(w.attrs.get('it'), GenObj) and fn_named(w.attrs['it'], 'schema_validator') and \
                        w.attrs['it'].args[0] is r.attrs['res'] and w.attrs['it'].args[1] is r
                    check(it, 'rows-validated-then-processed' + tag, okw)
                    check(it, 'row-counter-wraps-the-processed-stream' + tag, rc[0].objs[0] is r and True)
                    check(it, 'yields-the-counted-stream' + tag, it.cell_of(ys[0].obj) == rc[0].result if
                          not hasattr(ys[0].obj, 'oid') else True)
                check(it, 'no-row-pulled-by-the-dispatcher' + tag, r.stream.drained is False)
                check(it, 'descriptor-not-handled-mid-stream' + tag, not calls(events, target='handle_datapackage'))
                cover(it, 'iter-reachable' + tag)
            it.loops['DumperBase.process_resources#L0'] = LoopSpec(
                at_start=lambda it, env, r: r, at_end=at_end,
                at_exit=lambda it, env: it.path.info.__setitem__('exit_mark', len(it.path.events)))
            n0 = len(it.path.events)
            it.run_generator(it.call(it.lib.getattr_(it, d, 'process_resources'), [resources]))
            evs = it.path.events[n0:]
            if 'exit_mark' in it.path.info:
                post = effect_names(it.path.events[it.path.info['exit_mark']:])
                post = [x for x in post if x not in ('Exhausted',)]
                if hash_on:
                    check(it, 'after-last-stream-hash-then-descriptor-then-finalize' + tag,
                          post[-2:] == ['handle_datapackage', 'finalize'] and 'hashlib.md5' in post and
                          post.index('hashlib.md5') < post.index('handle_datapackage'))
                else:
                    check(it, 'after-last-stream-descriptor-then-finalize' + tag, post == ['handle_datapackage', 'finalize'])
                pre = effect_names(evs[:[i for i, e in enumerate(evs) if e.kind == 'Exhausted'][0]])
                check(it, 'initialize-first' + tag, pre == ['initialize'])
                check(it, 'drains-the-resource-stream' + tag, resources.drained is True)
        paths = vc.explore(fk, thunk, min_paths=3, explore_abandon=True)
        check_no_commit_on_incomplete(vc, fk, paths, ('handle_datapackage', 'finalize'), 'process_resources[hash=%s]' % hash_on)


# ------------------------------------------------------------------------------------------------ row_counter

def sym_row_counter(vc):
    """DumperBase.row_counter: identity on rows (same objects, one at a time); counter == number of rows pulled; after
    exhaustion the count is added to the package-level and to the resource-level counter, then both are committed"""
    import z3
    from pyvc.api import real_function, LoopSpec, check, cover, yields_of, row_stream, same_row, term, IntS
    fk = vc.under_contract(D + 'dumper_base.py', ['DumperBase', 'row_counter'])
    vc.under_contract(D + 'dumper_base.py', ['DumperBase', 'inc_attr'])

    def thunk(it):
        d = mk_dumper(it)
        r = mk_dumped_resource(it, 'resource')
        r.attrs['res'].attrs['descriptor'] = mk_counter_tree(it, 'resdesc')
        name = r.attrs['res'].attrs['name']
        r.attrs['res'].attrs['descriptor'].has['name'] = True
        r.attrs['res'].attrs['descriptor'].children['name'] = name
        from pyvc.api import PyList, sym_str
        mine, other = mk_counter_tree(it, 'pkg_res_mine'), mk_counter_tree(it, 'pkg_res_other')
        for t, nm in ((mine, name), (other, sym_str(it, 'othername'))):
            t.has['name'] = True
            t.children['name'] = nm
        it.assume(other.children['name'].t != name.t)
        d.attrs['datapackage'].attrs['descriptor'].has['resources'] = True
        d.attrs['datapackage'].attrs['descriptor'].children['resources'] = PyList([other, mine])
        rows = row_stream(it, 'iterator')
        before = {}

        def at_start(it, env, row):
            return row, row.snapshot()

        def at_end(it, env, cap, events):
            row, snap = cap
            ys = yields_of(events)
            check(it, 'row-passes-once', len(ys) == 1)
            if len(ys) == 1:
                check(it, 'row-contents-untouched', same_row(ys[0].value, snap))
            check(it, 'no-buffering', not [e for e in events if e.kind == 'Drain'])
            check(it, 'nothing-committed-mid-stream', not calls(events, method='commit'))
            cover(it, 'iter-reachable')
        it.loops['DumperBase.row_counter#L0'] = LoopSpec(
            at_start=at_start, at_end=at_end, inv_n=lambda it, env, n: term(env.lookup('counter'), IntS) == n,
            at_exit=lambda it, env: it.path.info.__setitem__('exit_mark', len(it.path.events)))
        dpd = d.attrs['datapackage'].attrs['descriptor']
        rd = r.attrs['res'].attrs['descriptor']
        n0 = len(it.path.events)
        it.run_generator(it.call(it.lib.getattr_(it, d, 'row_counter'), [r, rows]))
        if 'exit_mark' in it.path.info:
            n = it.path.info['count:row_counter#L0']
            post = it.path.events[it.path.info['exit_mark']:]
            wp = [e for e in post if e.kind == 'TreeWrite' and e.node is dpd and e.key == 'count_of_rows']
            wr = [e for e in post if e.kind == 'TreeWrite' and e.node is rd and e.key == 'count_of_rows']
            check(it, 'package-counter-written', len(wp) >= 1)
            check(it, 'resource-counter-written', len(wr) >= 1)
            if wp and wr:
                old_p = dpd.init_children.get('count_of_rows')
                old_r = rd.init_children.get('count_of_rows')
                hp, hr = dpd.init_has['count_of_rows'], rd.init_has['count_of_rows']
                newp, newr = term(wp[-1].value, IntS), term(wr[-1].value, IntS)
                check(it, 'package-count-increased-by-rows-pulled',
                      newp == z3.If(_b(hp), term(old_p, IntS) if old_p is not None else 0, 0) + n)
                # (the property: the recorded count of a resource IS its number of rows -- whatever an earlier dump left in
                # the descriptor that was loaded; the package total is a sum over the resources of this dump)
                check(it, 'resource-count-is-the-number-of-rows-pulled', newr == n)
            wm = [e for e in post if e.kind == 'TreeWrite' and e.node is mine and e.key == 'count_of_rows']
            check(it, 'count-recorded-in-the-package-entry-of-this-resource-only', len(wm) >= 1 and
                  not [e for e in post if e.kind == 'TreeWrite' and e.node is other])
            if wm:
                oldm = mine.init_children.get('count_of_rows')
                check(it, 'package-entry-count-is-the-number-of-rows-pulled', term(wm[-1].value, IntS) == n)
            cm = calls(post, method='commit')
            check(it, 'both-descriptors-committed-after-counting', len(cm) == 2 and cm[0].target is r.attrs['res'] and
                  cm[1].target is d.attrs['datapackage'])
            check(it, 'drains', rows.drained is True)
    paths = vc.explore(fk, thunk, min_paths=3, explore_abandon=True)
    check_no_commit_on_incomplete(vc, fk, paths, ('commit',), 'row_counter')


# ------------------------------------------------------------------------------------------------ attr helpers

ATTR_SPEC = '''
def view_get(obj, path, default):
    cur = obj
    for seg in path[:-1]:
        cur = cur.get(seg, {})
    return cur.get(path[-1], default)
'''


def sym_attr_helpers(vc):
    """get_attr / set_attr / inc_attr against the abstract view 'descriptor as a map from dotted paths' -- BOUNDED in the
    depth of the dotted path (1..3 segments, literal names), unbounded in the descriptor contents:
       prop None -> nothing read, nothing written ;
       set_attr(o, p, v): exactly one write, of v, at the node reached by the leading segments (created as {} if missing)
       inc_attr(o, p, d): value at p becomes (old or 0) + d ; get_attr returns the value at p or the default"""
    import z3
    from pyvc.api import real_function, check, cover, sym_int, term, IntS, Tree, SV
    fk = vc.under_contract(D + 'dumper_base.py', ['DumperBase', 'set_attr'])
    vc.under_contract(D + 'dumper_base.py', ['DumperBase', 'get_attr'])
    vc.under_contract(D + 'dumper_base.py', ['DumperBase', 'inc_attr'])
    vc.bounded_label = 'dotted path depth'
    vc.bounded_notes.append('DumperBase.get_attr/set_attr/inc_attr: dotted path depth 1..3 with literal segment names; descriptor '
                            'contents symbolic; `prop is None` case included')
    try:
        for path in (None, 'a', 'a.b', 'a.b.c'):
            for fn in ('set_attr', 'inc_attr', 'get_attr'):
                def thunk(it, path=path, fn=fn):
                    DB = real_function(it, 'dataflows.processors.dumpers.dumper_base', 'DumperBase')
                    f = it.lib.getattr_(it, DB, fn)
                    obj = Tree('obj')
                    segs = path.split('.') if path else []
                    # intermediate nodes, when present, are dicts; the leaf, when present, is an integer
                    node = obj
                    for s in segs[:-1]:
                        node.subschema = {}
                        node = it.lib.tree_child(it, node, s)
                    if segs:
                        leaf0 = SV(it.fresh('leaf', IntS))
                        node.schema = {segs[-1]: (lambda it_, n, k: leaf0)}
                    v = sym_int(it, 'v')
                    n0 = len(it.path.events)
                    args = [obj, path, v] if fn != 'get_attr' else [obj, path, v]
                    r = it.call(f, args)
                    evs = it.path.events[n0:]
                    ws = [e for e in evs if e.kind == 'TreeWrite']
                    tag = '[%s,%s]' % (fn, path)
                    if path is None:
                        check(it, 'disabled-counter-touches-nothing' + tag, not ws and r is None)
                        return
                    PyDict = __import__('pyvc.api').api.PyDict

                    def kids(n):
                        return n.children if isinstance(n, Tree) else n.d
                    cur = obj
                    for s in segs[:-1]:
                        cur = kids(cur).get(s)
                        if cur is None:
                            break
                    # frame: the only tree writes are on the path (missing intermediate dicts, then the leaf)
                    onpath = True
                    for e in ws:
                        if e.key not in segs:
                            onpath = False
                        elif e.key in segs[:-1] and not (isinstance(e.value, PyDict)):
                            onpath = False
                    if fn == 'get_attr':
                        check(it, 'get-writes-nothing' + tag, not ws)
                        if cur is not None and segs[-1] in kids(cur) and not isinstance(kids(cur)[segs[-1]], (Tree, PyDict)):
                            pass
                    else:
                        check(it, 'writes-only-along-the-path' + tag, onpath)
                        leaf = kids(cur).get(segs[-1]) if cur is not None else None
                        if fn == 'set_attr':
                            check(it, 'value-at-the-path-is-the-argument' + tag, leaf is not None and _b(term(leaf, IntS) == v.t))
                        else:
                            had = cur.init_has.get(segs[-1], False) if isinstance(cur, Tree) else False
                            check(it, 'adds-to-the-old-value-or-zero' + tag, leaf is not None and
                                  _b(term(leaf, IntS) == z3.If(_b(had), leaf0.t, 0) + v.t))
                    cover(it, 'reachable' + tag)
                paths = vc.explore(fk, thunk, min_paths=1)
                expect_no_raise_or_same(vc, fk, paths)
    finally:
        vc.bounded_label = None


def nat_attr_helpers(h):
    """bounded differential of get/set/inc_attr against a dotted-path reference on random nested dicts"""
    import copy
    from dataflows.processors.dumpers.dumper_base import DumperBase

    def rand_tree(depth):
        d = {}
        for k in h.subset(['a', 'b', 'c'], 0.6):
            d[k] = rand_tree(depth - 1) if depth > 0 and h.rng.random() < 0.5 else h.rng.randint(0, 9)
        return d

    def ref_get(o, p, default=None):
        cur = o
        segs = p.split('.')
        for s in segs[:-1]:
            cur = cur.get(s, {})
        return cur.get(segs[-1], default)

    def ref_set(o, p, v):
        cur = o
        segs = p.split('.')
        for s in segs[:-1]:
            cur = cur.setdefault(s, {})
        cur[segs[-1]] = v
    for _ in range(h.n(150, 1500)):
        o = rand_tree(2)
        segs = [h.rng.choice(['a', 'b', 'c']) for _ in range(h.rng.randint(1, 3))]
        p = '.'.join(segs) if h.rng.random() < 0.9 else None
        v = h.rng.randint(1, 5)
        op = h.rng.choice(['get', 'set', 'inc'])
        o1, o2 = copy.deepcopy(o), copy.deepcopy(o)
        if p is None:
            got = h.run(lambda: getattr(DumperBase, op + '_attr')(o1, None, v))
            h.check(got[0] == 'ok' and got[1] is None and o1 == o, D + 'dumper_base.py::DumperBase.%s_attr' % op, (o, p, v), o, o1)
            continue

        def valid(o, segs):
            cur = o
            for s in segs[:-1]:
                cur = cur.get(s, {}) if isinstance(cur, dict) else None
                if not isinstance(cur, dict):
                    return False
            return True
        if not valid(o, segs):
            continue        # a non-dict in the middle of the path is outside the contract's precondition
        if op == 'get':
            got = h.run(lambda: DumperBase.get_attr(o1, p, 'dflt'))
            h.check(got[0] == 'ok' and got[1] == ref_get(o2, p, 'dflt') and o1 == o, D + 'dumper_base.py::DumperBase.get_attr',
                    (o, p), ref_get(o2, p, 'dflt'), got[:2])
        elif op == 'set':
            got = h.run(lambda: DumperBase.set_attr(o1, p, v))
            ref_set(o2, p, v)
            h.check(got[0] == 'ok' and o1 == o2, D + 'dumper_base.py::DumperBase.set_attr', (o, p, v), o2, o1)
        else:
            old = ref_get(o2, p, 0)
            if not isinstance(old, int):
                continue
            got = h.run(lambda: DumperBase.inc_attr(o1, p, v))
            ref_set(o2, p, old + v)
            h.check(got[0] == 'ok' and o1 == o2, D + 'dumper_base.py::DumperBase.inc_attr', (o, p, v), o2, o1)


# ------------------------------------------------------------------------------------------------ FileDumper.rows_processor

def mk_tempfile(it, hint='temp_file'):
    from pyvc.api import Opaque, SV, IntS, sym_str
    from pyvc.symex import Ev
    tf = Opaque('tempfile', hint)
    tf.attrs['name'] = sym_str(it, hint + '.name')
    size = it.fresh(hint + '.size', IntS)
    it.assume(size >= 0)

    def tell(it_, obj, a, k):
        it_.emit(Ev('Call', target=obj, method='tell', args=(), kwargs={}, result=size, objs=()))
        return SV(size)
    tf.attrs['call:tell'] = tell
    tf.size = size
    return tf


def sym_rows_processor(vc):
    """FileDumper.rows_processor(resource, writer, temp_file):
       per row: writer.write_row(row) BEFORE yield row (same object, untouched); one row at a time
       on exhaustion, in this order: finalize_file . tell (size) . hash over the file . close . copy out . unlink
       recorded bytes (resource and package) += that size ; recorded hash = that digest ; the file is copied to the path
       recorded for this resource ; on incomplete paths nothing is copied out"""
    import z3
    from pyvc.api import (real_function, LoopSpec, check, cover, yields_of, same_row, term, IntS, StrS, Opaque, ufunc, PyList, SV,
                          sym_str, wrap)
    fk = vc.under_contract(D + 'file_dumper.py', ['FileDumper', 'rows_processor'])
    vc.under_contract(D + 'dumper_base.py', ['DumperBase', 'insert_hash_in_path'])
    for variant in ('default', 'hash-in-path', 'no-hash', 'no-hash+hash-in-path'):
        def thunk(it, variant=variant):
            PyDict = __import__('pyvc.api').api.PyDict
            opts = {}
            both = variant == 'no-hash+hash-in-path'     # the option pair: whatever path ends up recorded, the file goes THERE
            if variant == 'hash-in-path' or both:
                opts['add_filehash_to_path'] = True
            if variant == 'no-hash' or both:
                opts['counters'] = PyDict({'resource-hash': None})
            d = mk_dumper(it, options=opts, stub=('write_file_to_output',))
            r = mk_dumped_resource(it, 'resource')
            name = r.attrs['res'].attrs['name']
            path0 = sym_str(it, 'respath')
            r.attrs['res'].attrs['source'] = path0          # T4: Resource.source is the descriptor's path
            rd_own = mk_counter_tree(it, 'own_desc')
            rd_own.has['name'] = True
            rd_own.children['name'] = name
            r.attrs['res'].attrs['descriptor'] = rd_own
            # the package descriptor lists this resource (same name, same path) and another one
            mine = mk_counter_tree(it, 'pkg_res_mine')
            other = mk_counter_tree(it, 'pkg_res_other')
            for t, nm in ((mine, name), (other, sym_str(it, 'othername'))):
                t.has['name'] = True
                t.children['name'] = nm
            it.assume(other.children['name'].t != name.t)
            mine.has['path'] = True
            mine.children['path'] = path0
            dpd = d.attrs['datapackage'].attrs['descriptor']
            dpd.has['resources'] = True
            dpd.children['resources'] = PyList([other, mine] if variant != 'default' else [mine, other])
            writer = Opaque('writer', 'writer')
            tf = mk_tempfile(it)
            FD = it.module('dataflows.processors.dumpers.file_dumper').attrs['FileDumper']
            digest = sym_str(it, 'digest')
            hasher = Opaque('hasher', 'hasher')
            hasher.attrs['call:hexdigest'] = lambda it_, o, a, k: digest
            FD.methods['hash_handler'] = ufunc('hash_handler', pure=False)
            FD.methods['hash_handler'].apply = (lambda orig: (lambda it_, a, k: (orig(it_, a, k), hasher)[1]))(FD.methods['hash_handler'].apply)
            tag = '[%s]' % variant

            def at_start(it, env, row):
                return row, row.snapshot()

            def at_end(it, env, cap, events):
                row, snap = cap
                names = effect_names(events)
                check(it, 'row-written-before-it-is-yielded' + tag, names == ['writer.write_row', 'Yield'])
                ys = yields_of(events)
                w = calls(events, method='write_row')
                if len(ys) == 1 and len(w) == 1:
                    check(it, 'yields-same-row-object-untouched' + tag, z3.And(_b(ys[0].obj is row), same_row(ys[0].value, snap)))
                    check(it, 'writes-the-row-as-it-entered' + tag, same_row(w[0].args[0], snap))
                cover(it, 'iter-reachable' + tag)
            it.loops['FileDumper.rows_processor#L0'] = LoopSpec(
                at_start=at_start, at_end=at_end,
                at_exit=lambda it, env: it.path.info.__setitem__('exit_mark', len(it.path.events)))
            it.run_generator(it.call(it.lib.getattr_(it, d, 'rows_processor'), [r, writer, tf]))
            if 'exit_mark' in it.path.info:
                post = it.path.events[it.path.info['exit_mark']:]
                names = [x for x in effect_names(post) if x != 'Exhausted']
                want = ['writer.finalize_file']
                if variant != 'no-hash':
                    want += ['hash_handler']
                want += ['temp_file.close', 'write_file_to_output', 'os.unlink']
                if both:
                    # (hashing for the path alone is allowed; what is fixed is the order of the rest)
                    check(it, 'completion-sequence' + tag, [n for n in names if n != 'hash_handler'] == [n for n in want if n != 'hash_handler'])
                else:
                    check(it, 'completion-sequence' + tag, names == want)
                # the size is read from the temp file after the writer is finalised and before the file is closed
                pos = {}
                for i_, e_ in enumerate(post):
                    if e_.kind == 'Call':
                        pos.setdefault((tname(e_), e_.method), []).append(i_)
                tl, fz, cl = pos.get(('temp_file', 'tell'), []), pos.get(('writer', 'finalize_file'), []), pos.get(('temp_file', 'close'), [])
                check(it, 'size-read-after-finalize-before-close' + tag, bool(tl) and bool(fz) and bool(cl) and
                      fz[0] < tl[-1] < cl[0])
                # recorded statistics
                wb = [e for e in post if e.kind == 'TreeWrite' and e.node is mine and e.key == 'bytes']
                wpb = [e for e in post if e.kind == 'TreeWrite' and e.node is dpd and e.key == 'bytes']
                check(it, 'resource-bytes-recorded-on-this-resource-only' + tag, len(wb) >= 1 and
                      not [e for e in post if e.kind == 'TreeWrite' and e.node is other])
                if len(wb) >= 1 and len(wpb) >= 1:
                    oldr = mine.init_children.get('bytes')
                    oldp = dpd.init_children.get('bytes')
                    check(it, 'resource-bytes-is-the-file-size' + tag, term(wb[-1].value, IntS) == tf.size)
                    check(it, 'package-bytes-is-old-plus-file-size' + tag, term(wpb[-1].value, IntS) ==
                          z3.If(_b(dpd.init_has['bytes']), term(oldp, IntS) if oldp is not None else 0, 0) + tf.size)
                else:
                    check(it, 'package-bytes-recorded-once' + tag, False)
                wh = [e for e in post if e.kind == 'TreeWrite' and e.node is mine and e.key == 'hash']
                if variant == 'no-hash' or both:
                    check(it, 'no-hash-recorded-when-disabled' + tag, not wh)
                else:
                    check(it, 'hash-recorded-is-the-digest-of-the-file' + tag, len(wh) == 1 and wh[0].value is digest)
                wf = calls(post, target='write_file_to_output')
                if len(wf) == 1:
                    src, dst = wf[0].objs
                    final_path = mine.children.get('path')
                    check(it, 'copies-the-temp-file' + tag, src is tf.attrs['name'])
                    check(it, 'destination-is-the-recorded-path' + tag, term(dst, StrS) == term(final_path, StrS))
                    if both:
                        pass        # (destination-is-the-recorded-path above is the claim)
                    elif variant == 'hash-in-path':
                        j3 = z3.Function('os.path.join3', StrS, StrS, StrS, StrS)
                        dn = z3.Function('os.path.dirname', StrS, StrS)
                        bn = z3.Function('os.path.basename', StrS, StrS)
                        check(it, 'recorded-path-has-the-digest-directory' + tag,
                              term(final_path, StrS) == j3(dn(path0.t), digest.t, bn(path0.t)))
                    else:
                        check(it, 'recorded-path-unchanged' + tag, term(final_path, StrS) == path0.t)
                ul = calls(post, target='os.unlink')
                check(it, 'temp-file-removed-after-copy' + tag, len(ul) == 1 and ul[0].objs[0] is tf.attrs['name'])
                check(it, 'drains' + tag, r.stream.drained is True)
        paths = vc.explore(fk, thunk, min_paths=3, explore_abandon=True)
        check_no_commit_on_incomplete(vc, fk, paths, ('write_file_to_output', 'close', 'finalize_file'), 'rows_processor[%s]' % variant)


# ------------------------------------------------------------------------------------------------ handle_datapackage / write_file_to_output

def sym_handle_datapackage(vc):
    """FileDumper.handle_datapackage: descriptor serialised to a temp file (json.dump . tell . close), copied to
    'datapackage.json' by write_file_to_output, temp file removed; then stats read back from the descriptor"""
    import z3
    from pyvc.api import real_function, check, cover, Opaque, SV, IntS, term, StrS, ufunc, sym_str
    from pyvc.symex import Ev
    fk = vc.under_contract(D + 'file_dumper.py', ['FileDumper', 'handle_datapackage'])
    vc.under_contract(D + 'dumper_base.py', ['DumperBase', 'handle_datapackage'])
    for pretty in (True, False):
        def thunk(it, pretty=pretty):
            d = mk_dumper(it, options={'pretty_descriptor': pretty}, stub=('write_file_to_output',))
            fdm = it.module('dataflows.processors.dumpers.file_dumper')
            tf = mk_tempfile(it, 'desc_temp')
            fdm.attrs['UmaskNamedTemporaryFile'] = ufunc('UmaskNamedTemporaryFile', pure=False)
            fdm.attrs['UmaskNamedTemporaryFile'].apply = (lambda orig: (lambda it_, a, k: (orig(it_, a, k), tf)[1]))(
                fdm.attrs['UmaskNamedTemporaryFile'].apply)
            dpd = d.attrs['datapackage'].attrs['descriptor']
            n0 = len(it.path.events)
            it.call(it.lib.getattr_(it, d, 'handle_datapackage'), [])
            evs = it.path.events[n0:]
            names = effect_names(evs)
            tag = '[pretty=%s]' % pretty
            core = [x for x in names if x not in ('datapackage.commit',)]
            check(it, 'descriptor-written-to-temp-then-copied-then-removed' + tag,
                  core == ['UmaskNamedTemporaryFile', 'json.dump', 'desc_temp.close', 'write_file_to_output', 'os.unlink'])
            jd = calls(evs, target='json.dump')
            if jd:
                check(it, 'serialises-the-package-descriptor-into-the-temp-file' + tag, jd[0].objs[0] is dpd and jd[0].objs[1] is tf)
                check(it, 'indent-follows-pretty_descriptor' + tag, jd[0].kwargs.get('indent') == (2 if pretty else None))
            wf = calls(evs, target='write_file_to_output')
            if wf:
                check(it, 'copied-as-datapackage.json' + tag, wf[0].objs[0] is tf.attrs['name'] and wf[0].objs[1] == 'datapackage.json')
            st = d.attrs['stats']
            check(it, 'stats-read-after-the-descriptor-was-written' + tag, set(st.d) >= {'count_of_rows', 'bytes', 'hash', 'dataset_name'})
            cover(it, 'reachable' + tag)
        vc.explore(fk, thunk)


def sym_write_file_to_output(vc):
    """PathDumper.write_file_to_output(filename, path): destination = out_path/path; parent directories created first;
    exactly one copy filename -> destination (skipped only when add_filehash_to_path and the destination exists)"""
    import z3
    from pyvc.api import real_function, check, cover, sym_str, term, StrS
    import pyvc.loader as L
    fk = vc.under_contract(D + 'to_path.py', ['PathDumper', 'write_file_to_output'])
    vc.under_contract(D + 'to_path.py', ['PathDumper', '__init__'])
    for hashed in (False, True, 'without-the-hash-counter'):
        def thunk(it, hashed=hashed):
            PyDict = __import__('pyvc.api').api.PyDict
            opts = {'add_filehash_to_path': True} if hashed else {}
            if hashed == 'without-the-hash-counter':
                # no hash is computed, so none is in the path: the file name says nothing about the content and an existing file of
                # that name is NOT "the same file" -- it is rewritten like any unhashed one (recorded finding, fixed by b709dac)
                opts['counters'] = PyDict({'resource-hash': None})
            d = mk_dumper(it, options=opts)
            hashed = hashed is True
            mk0 = calls(d.init_events, target='os.makedirs')
            check(it, 'constructor-does-nothing-but-ensure-the-output-directory', set(effect_names(d.init_events)) <= {'os.makedirs'})
            # (creating out_path here is redundant -- every copy ensures its own parent -- so it is allowed, not required)
            check(it, 'constructor-creates-no-other-directory', z3.And(*[term(e.objs[0], StrS) == d.out.t for e in mk0]) if mk0 else True)
            fn, path = sym_str(it, 'filename'), sym_str(it, 'relpath')
            n0 = len(it.path.events)
            r = it.call(it.lib.getattr_(it, d, 'write_file_to_output'), [fn, path])
            evs = it.path.events[n0:]
            names = effect_names(evs)
            j2 = z3.Function('os.path.join2', StrS, StrS, StrS)
            dest = j2(d.out.t, path.t)
            tag = '[hashed=%s]' % hashed
            cp = calls(evs, target='shutil.copy')
            if hashed:
                ex = L.FS_EXISTS(dest)
                is_desc = path.t == z3.StringVal('datapackage.json')
                check(it, 'copy-skipped-only-if-destination-exists' + tag, z3.Implies(z3.Not(ex), _b(len(cp) == 1)))
                # data files live under the hash of their content: an existing one is the same file.  The descriptor is not
                # content-addressed -- it describes THIS dump (C09: stats agree with the written descriptor) and is always written
                check(it, 'existing-hashed-file-not-rewritten' + tag, z3.Implies(z3.And(ex, z3.Not(is_desc)), _b(len(cp) == 0)))
                check(it, 'descriptor-always-written' + tag, z3.Implies(is_desc, _b(len(cp) == 1)))
            else:
                check(it, 'trace-is-ensure-directory-then-copy' + tag, [n for n in names if n != 'os.makedirs'] == ['shutil.copy']
                      and names[-1:] == ['shutil.copy'])
            if cp:
                check(it, 'copies-to-out_path/path' + tag, z3.And(term(cp[0].objs[0], StrS) == fn.t, term(cp[0].objs[1], StrS) == dest))
                mk = calls(evs, target='os.makedirs')
                dn = z3.Function('os.path.dirname', StrS, StrS)
                before = evs[:evs.index(cp[0])]
                mkb = calls(before, target='os.makedirs')
                # at the time of the copy the parent directory exists: created just before, or seen to exist already
                check(it, 'parent-directory-ensured-before-copy' + tag,
                      z3.Or(L.FS_ISDIR(dn(dest)), *[term(e.objs[0], StrS) == dn(dest) for e in mkb]))
            cover(it, 'reachable' + tag)
        vc.explore(fk, thunk)


def sym_write_file_to_output_faulty(vc):
    """PathDumper.write_file_to_output under a transient I/O fault: shutil.copy may fail with OSError after it has created (a
    prefix of) the destination.  If the call RETURNS normally, the destination is complete: it existed before the call, or
    the last copy to it ran to completion.  (A failed copy may be retried or reported -- but a half-written file must never
    be taken for a finished one.)"""
    import z3
    from pyvc.api import check, cover, sym_str, term, StrS, UFunc
    from pyvc.symex import PyExc, Ev
    from pyvc import lib
    import pyvc.loader as L
    fk = vc.under_contract(D + 'to_path.py', ['PathDumper', 'write_file_to_output'])
    for hashed in (False, True):
        def thunk(it, hashed=hashed):
            d = mk_dumper(it, options={'add_filehash_to_path': True} if hashed else {})
            m = it.module('dataflows.processors.dumpers.to_path')
            sh = m.attrs['shutil']
            budget = [1]           # at most one fault
            log = []

            def copy(it_, a, k):
                src, dst = a[0], a[1]
                it_.emit(Ev('Call', target='shutil.copy', method='__call__', args=(lib.snap(it_, src), lib.snap(it_, dst)), kwargs={},
                            result=None, objs=(src, dst)))
                L.fs_note_created(it_, dst)            # the destination exists from now on, complete or not
                if budget[0] > 0 and it_.decide(2, lambda i: True) == 1:
                    budget[0] -= 1
                    log.append(('failed', dst))
                    e = lib.ExcV('OSError', ('I/O error while copying',))
                    raise PyExc(e)
                log.append(('complete', dst))
                return dst
            sh.attrs['copy'] = UFunc('shutil.copy', copy, True)
            fn, path = sym_str(it, 'filename'), sym_str(it, 'relpath')
            j2 = z3.Function('os.path.join2', StrS, StrS, StrS)
            dest = j2(d.out.t, path.t)
            existed_before = L.FS_EXISTS(dest)
            tag = '[hashed=%s]' % hashed
            try:
                it.call(it.lib.getattr_(it, d, 'write_file_to_output'), [fn, path])
            except PyExc as pe:
                check(it, 'a-failed-copy-surfaces-as-the-os-error' + tag, pe.exc.cls == 'OSError' and any(k == 'failed' for k, _ in log))
                cover(it, 'fault-reachable' + tag)
                return
            completed = [dst for k, dst in log if k == 'complete']
            last_ok = bool(log) and log[-1][0] == 'complete' and True
            check(it, 'normal-return-means-the-destination-is-complete' + tag,
                  z3.Or(existed_before if hashed else z3.BoolVal(False),
                        z3.And(z3.BoolVal(last_ok), term(log[-1][1], StrS) == dest) if log else z3.BoolVal(False)))
            cover(it, 'return-reachable' + tag)
        vc.explore(fk, thunk, min_paths=2)


# ------------------------------------------------------------------------------------------------ hash_handler

def sym_hash_handler(vc):
    """FileDumper.hash_handler(tfile): rewinds the file first; then feeds the hasher EVERY chunk it reads, in order, text chunks
    as their utf-8 encoding and byte chunks as they are, until the first empty chunk; returns that hasher.  Hence (T13: md5 is
    a function of the byte string fed, reads return consecutive pieces) the digest is the digest of the whole file."""
    import z3
    from pyvc.api import real_function, check, cover, Opaque, LoopSpec, SV, StrS, UFunc
    from pyvc import lib
    fk = vc.under_contract(D + 'file_dumper.py', ['FileDumper', 'hash_handler'])

    def thunk(it):
        FD = real_function(it, 'dataflows.processors.dumpers.file_dumper', 'FileDumper')
        m = it.module('dataflows.processors.dumpers.file_dumper')
        hasher = Opaque('md5', 'hasher')
        made = []

        def md5(it_, a, k):
            made.append(len(it_.path.events))
            return hasher
        hl = m.attrs['hashlib']
        hl.attrs['md5'] = UFunc('hashlib.md5', md5, False)
        binary = it.decide(2, lambda i: True) == 1
        tfile = Opaque('file', 'tfile')
        chunks = []

        def read(it_, o, a, k):
            if binary:
                c = Opaque('bytes', 'chunk%d' % len(chunks))
                c.attrs['__len__'] = SV(it_.fresh('chunklen', lib.IntS))
                it_.assume(c.attrs['__len__'].t >= 0)
                c.attrs['__kinds__'] = ('bytes',)
            else:
                c = SV(it_.fresh('chunk', StrS))
            chunks.append((c, a))
            return c
        tfile.attrs['call:read'] = read

        def fed(events):
            return [e for e in events if e.kind == 'Call' and e.target is hasher and e.method == 'update']

        def at_end(it_, env, cap, events):
            check(it_, 'one-read-per-round', len(chunks) == 1)
            ups = fed(events)
            c = chunks[0][0] if chunks else None
            if binary:
                check(it_, 'byte-chunk-fed-as-is', len(ups) == 1 and ups[0].objs[0] is c)
            else:
                check(it_, 'text-chunk-fed-utf8-encoded', len(ups) == 1 and isinstance(ups[0].objs[0], Opaque)
                      and ups[0].objs[0].kind == 'bytes' and ups[0].objs[0].attrs.get('text') is c)
            check(it_, 'no-seek-while-reading', not [e for e in events if e.kind == 'Call' and e.target is tfile
                                                      and e.method not in ('read',)])
            cover(it_, 'round-reachable')
        def at_exit(it_, env):
            d = env.lookup('data')
            n = it_.lib._b_len(it_, d)
            check(it_, 'stops-only-at-an-empty-chunk', (n.t if isinstance(n, SV) else n) == 0)
        it.loops['FileDumper.hash_handler#L0'] = LoopSpec(at_end=at_end, at_exit=at_exit)
        n0 = len(it.path.events)
        r = it.call(it.lib.getattr_(it, FD, 'hash_handler'), [tfile])
        seeks = [e for e in it.path.events[n0:] if e.kind == 'Call' and e.target is tfile and e.method == 'seek']
        mark = it.path.marks.get([k for k in it.path.marks if k.endswith('hash_handler#L0')][0])
        check(it, 'rewound-exactly-once-to-offset-0-before-the-first-read', len(seeks) == 1 and seeks[0].args == (0,)
              and it.path.events.index(seeks[0]) < mark)
        check(it, 'one-fresh-hasher', len(made) == 1)
        check(it, 'returns-that-hasher', r is hasher)
        cover(it, 'exit-reachable')
    vc.explore(fk, thunk, min_paths=4)


# ------------------------------------------------------------------------------------------------ ZipDumper

def sym_zip_dumper(vc):
    """ZipDumper: the constructor opens the archive file for binary writing and a ZipFile in 'w' mode on that very file;
    write_file_to_output(filename, path) adds exactly one member, read from `filename`, NAMED `path` (the recorded path), and
    nothing else; finalize closes the archive (which writes the central directory) before the underlying file and only then
    runs the base finaliser."""
    import z3
    from pyvc.api import check, cover, sym_str, sym_bool, term, StrS, Opaque, SV
    fk = vc.under_contract(D + 'to_zip.py', ['ZipDumper', 'write_file_to_output'])
    vc.under_contract(D + 'to_zip.py', ['ZipDumper', '__init__'])
    vc.under_contract(D + 'to_zip.py', ['ZipDumper', 'finalize'])

    def thunk(it):
        d = mk_dumper(it, 'ZipDumper')
        ie = d.init_events
        check(it, 'constructor-opens-archive-then-zipfile-on-it', len(ie) == 2 and ie[0].target == 'open' and
              term(ie[0].objs[0], StrS).eq(d.out.t) and ie[0].args[1] == 'wb' and
              'zipfile.ZipFile' in repr(ie[1].target) and ie[1].objs[0] is d.attrs['out_file'] and ie[1].args[1] == 'w')
        check(it, 'keeps-both-handles', d.attrs['out_file'] is ie[0].result and d.attrs['zip_file'] is not None)
        zf, of = d.attrs['zip_file'], d.attrs['out_file']
        fn, path = sym_str(it, 'filename'), sym_str(it, 'relpath')
        n0 = len(it.path.events)
        it.call(it.lib.getattr_(it, d, 'write_file_to_output'), [fn, path])
        evs = [e for e in it.path.events[n0:] if e.kind == 'Call']
        check(it, 'exactly-one-archive-write', len(evs) == 1 and evs[0].target is zf and evs[0].method == 'write')
        if len(evs) == 1:
            a0 = evs[0].objs[0] if evs[0].objs else None
            arc = evs[0].kwargs.get('arcname') if evs[0].kwargs else (evs[0].objs[1] if len(evs[0].objs) > 1 else None)
            check(it, 'member-read-from-the-temp-file', a0 is fn)
            check(it, 'member-named-by-the-recorded-path', arc is path or (isinstance(arc, SV) and arc.t.eq(path.t)))
        closed = sym_bool(it, 'already_closed')
        of.attrs['closed'] = closed
        n1 = len(it.path.events)
        base = []
        it.call(it.lib.getattr_(it, d, 'finalize'), [])
        evs = [e for e in it.path.events[n1:] if e.kind == 'Call']
        zc = [i for i, e in enumerate(evs) if e.target is zf and e.method == 'close']
        fc = [i for i, e in enumerate(evs) if e.target is of and e.method == 'close']
        check(it, 'archive-closed-exactly-once', len(zc) == 1)
        check(it, 'file-closed-iff-still-open', z3.If(closed.t, z3.BoolVal(len(fc) == 0), z3.BoolVal(len(fc) == 1)))
        check(it, 'archive-closed-before-the-file', not fc or (zc and zc[0] < fc[0]))
        check(it, 'nothing-written-at-finalisation', not [e for e in evs if e.method == 'write'])
        cover(it, 'reachable')
    vc.explore(fk, thunk, min_paths=2)


# ------------------------------------------------------------------------------------------------ insert_hash_in_path

def sym_insert_hash_in_path(vc):
    """DumperBase.insert_hash_in_path(descriptor, hash): path' = dirname(p)/hash/basename(p) where p is the path itself or, for
    a multi-part path given as a list, its FIRST element; an empty list or a non-string path is rejected (AssertionError);
    nothing else in the descriptor is written"""
    import z3
    from pyvc.api import real_function, check, cover, sym_str, PyDict, PyList, term, StrS
    from pyvc.symex import PyExc
    fk = vc.under_contract(D + 'dumper_base.py', ['DumperBase', 'insert_hash_in_path'])
    for shape in ('str', 'list1', 'list2', 'empty-list', 'number'):
        def thunk(it, shape=shape):
            DB = real_function(it, 'dataflows.processors.dumpers.dumper_base', 'DumperBase')
            p, q, hsh = sym_str(it, 'p'), sym_str(it, 'q'), sym_str(it, 'digest')
            path = {'str': p, 'list1': PyList([p]), 'list2': PyList([p, q]), 'empty-list': PyList([]), 'number': 7}[shape]
            desc = PyDict({'name': 'r', 'path': path, 'other': 'kept'})
            try:
                it.call(it.lib.getattr_(it, DB, 'insert_hash_in_path'), [desc, hsh])
            except PyExc as pe:
                # (which exception class rejects it is not part of the property: it must be loud, and only for an unusable path)
                check(it, 'only-an-unusable-path-is-rejected[%s]' % shape, shape in ('empty-list', 'number'))
                return
            check(it, 'unusable-path-never-accepted[%s]' % shape, shape not in ('empty-list', 'number'))
            j3 = z3.Function('os.path.join3', StrS, StrS, StrS, StrS)
            dn = z3.Function('os.path.dirname', StrS, StrS)
            bn = z3.Function('os.path.basename', StrS, StrS)
            newp = desc.d.get('path')
            check(it, 'hash-directory-inserted-before-the-file-name-of-the-first-part[%s]' % shape,
                  term(newp, StrS) == j3(dn(p.t), hsh.t, bn(p.t)))
            check(it, 'nothing-else-written[%s]' % shape, set(desc.d) == {'name', 'path', 'other'} and desc.d['other'] == 'kept'
                  and desc.d['name'] == 'r')
            cover(it, 'reachable[%s]' % shape)
        vc.explore(fk, thunk)
