"""C04  A failing step never yields a successful run. (composition of the funnel contracts and the commit-order contracts)"""
from contracts import findings_natives as KF
from contracts.common import Item
from contracts import base as BA, streams as S, dumpers as DM
from contracts import C18 as K18, C16 as K16

TRUSTED = ['T1 pyvc model of Python (DESIGN 3)', 'T16 z3 / cvc5']
ASSUMPTIONS = ['exceptions are instances of Exception (KeyboardInterrupt / SystemExit / GeneratorExit are out of scope)']

from contracts.common import lazy_sym, lazy_nat   # noqa: E402

ITEMS = [
    Item('raise_exception', BA.sym_raise_exception, [], BA.B + 'datastream_processor.py::DataStreamProcessor.raise_exception'),
    Item('safe_process', BA.sym_safe_process, [], BA.B + 'datastream_processor.py::DataStreamProcessor.safe_process'),
    Item('process-results', BA.sym_process_results, [], BA.B + 'datastream_processor.py::DataStreamProcessor.process'),
    Item('_process', BA.sym__process, [], BA.B + 'datastream_processor.py::DataStreamProcessor._process'),
    Item('DataStreamProcessor.defaults', S.sym_dsp_base, [], BA.B + 'datastream_processor.py::DataStreamProcessor.process_resource'),
    Item('iterable_loader.row-stream', K16.sym_appenders, [], 'dataflows/helpers/iterable_loader.py::iterable_loader.process_resources'),
    Item('iterable_loader.errors', BA.sym_iterable_loader_errors, [], 'dataflows/helpers/iterable_loader.py::iterable_loader.handle_iterable'),
    Item('pipelines', None, [('fault-injection', BA.nat_fault_injection), ('no-commit-after-failure', BA.nat_commit_after_failure),
                              ('source-failures', BA.nat_source_failures), ('load-source-failures', BA.nat_load_source_failures), ('rejected-items', BA.nat_rejected_items)], None),
    Item('parallelize.producer', lambda vc: K18.sym_producer(vc, check_error_propagation=True), [], K18.PZ + '::producer'),
    Item('stream.func', S.sym_stream_func, [], 'dataflows/processors/stream.py::stream.func'),
    Item('stream.res_writer', S.sym_res_writer, [], 'dataflows/processors/stream.py::stream.res_writer'),
    Item('DumperBase.process_resources', DM.sym_process_resources, [], DM.D + 'dumper_base.py::DumperBase.process_resources'),
    Item('FileDumper.rows_processor', DM.sym_rows_processor, [], DM.D + 'file_dumper.py::FileDumper.rows_processor'),
    Item('recorded-findings', None, [('bounded', KF.nat_findings_parallelize_errors)], 'dataflows/processors/parallelize.py::work'),
    # a user-supplied check that raises is a failing step, whatever error policy the step was given
    Item('validate.failing-check', lazy_sym('C14', 'sym_validate_failing_check'), [], 'dataflows/processors/validate.py::validate.rows_validator.func'),
]
