"""C12  sort_rows emits a stable, correctly ordered permutation.

  KeyCalc ... func(row)   : executed symbolically with an IEEE-754 double field value (z3 FP theory) and a bit-vector model of
                            bitstring.BitArray: for all non-NaN doubles x < y the 64-bit patterns the REAL code computes satisfy
                            enc(x) <u enc(y), and equal numbers get equal patterns (so ties fall to the row number)
  hex rendering           : BitArray.hex is 16 lowercase hex digits, big-endian (T7): order-isomorphic to <u, fixed width
  key shape               : every field's text is followed by the terminator FIELD_END = chr(0), lower than any character of a text
  _sorter.process         : per row: key = key_calc(row) ++ '{:08x}'(row number) paired with the same row object
  order lemmas (strings as arrays with a first-difference witness):
        a smaller first field (a proper prefix included) decides, whatever follows it; equal first fields: the order is the
        order of what follows (the next field ... finally the row number: stability).  Field-wise order by induction.
        (On the pinned tree fields were concatenated without a terminator: F-C12-prefix, fixed by 75a8f6d.)
  _sorter                 : db.insert drains the whole stream before the first yield; yields the values of db.items(reverse)
With T6 (KVFile.items returns all stored pairs in key order, reverse = reversed) the output is the permutation sorted by
(key, row number); reverse is the exact reverse.
"""
from contracts.common import Item, mk_resource, expect_no_raise_or_same, _b
from contracts.streams import calls, effect_names

P = 'dataflows/processors/'
TRUSTED = ['T1 pyvc model of Python (DESIGN 3)', 'T7 bitstring.BitArray(float=v, length=64) is the IEEE-754 binary64 pattern of '
           'float(v), index 0 is the sign bit, .hex is 16 big-endian hex digits', 'T6 kvfile.KVFile: items() in code-point key '
           'order, reverse reverses, independent of batch size and cache', 'T16 z3 / cvc5',
           'int -> double conversion is exact and strictly monotone for |i| <= 2**53 (IEEE-754)']
ASSUMPTIONS = ['row numbers < 2**32 (8 hex digits)', 'integers beyond 2**53 / long decimals collapse to one double: recorded finding '
               'F-C12-precision', 'key texts contain no NUL character (the field terminator)']


def install_bitarray(it):
    """bit-vector model of bitstring.BitArray (T7)"""
    import z3
    from pyvc.api import Opaque, wrap, SV, PyList
    from pyvc import lib
    HEX16 = z3.Function('hex16', z3.BitVecSort(64), z3.StringSort())
    m = it.module('bitstring')
    BA = lib.TypeV('BitArray')

    def ctor(it_, **kw):
        v = kw.get('float')
        if isinstance(v, (int, float)) and not isinstance(v, bool):
            v = SV(z3.FPVal(float(v), z3.Float64()))
        if not (isinstance(v, SV) and z3.is_fp_sort(v.t.sort())) or kw.get('length') != 64:
            raise lib.Unsupported('BitArray model covers BitArray(float=<double>, length=64)')
        o = Opaque('BitArray', 'bits')
        o.bv = z3.fpToIEEEBV(v.t)

        def invert(it2, ob, a, k):
            arg = a[0]
            if isinstance(arg, int):
                idx = [arg]
            else:
                kind, items = lib.iterate(it2, arg)
                idx = list(items)
            mask = 0
            for i in idx:
                mask |= 1 << (63 - i)          # bitstring position 0 is the most significant bit
            ob.bv = ob.bv ^ z3.BitVecVal(mask, 64)
        o.attrs['call:invert'] = invert
        return o
    BA.ctor = ctor
    m.attrs['BitArray'] = BA
    lib.OPAQUE_KINDS['BitArray'] = {'hex': _hexmaker(HEX16)}
    return HEX16


def _hexmaker(HEX16):
    from pyvc.api import wrap

    def mk(it, obj):
        return wrap(HEX16(obj.bv))
    mk.volatile = True
    return mk


def sym_keycalc(vc):
    import z3
    from pyvc.api import real_function, check, cover, SV, sym_row, PyDict, term, StrS
    from pyvc import lib
    fk = vc.under_contract(P + 'sort_rows.py', ['KeyCalc', '__calculator', 'func'])
    vc.under_contract(P + 'sort_rows.py', ['KeyCalc', '__calculator'])
    vc.under_contract(P + 'sort_rows.py', ['KeyCalc', '__init__'])
    vc.under_contract(P + 'sort_rows.py', ['KeyCalc', '__call__'])
    D = z3.Float64()
    for spec_kind in ('list', 'format'):
        def thunk(it, spec_kind=spec_kind):
            HEX16 = install_bitarray(it)
            KC = real_function(it, 'dataflows.processors.sort_rows', 'KeyCalc')
            from pyvc.api import PyList
            kc = it.call(KC, [PyList(['k']) if spec_kind == 'list' else '{k}'])
            from pyvc.api import interference
            interference(it)     # other key calculators may be built (and used) before this one is used
            x, y = z3.FP('x', D), z3.FP('y', D)
            it.assume(z3.And(z3.Not(z3.fpIsNaN(x)), z3.Not(z3.fpIsNaN(y))))
            encs = []
            for v in (x, y):
                row = PyDict({'k': SV(v)})
                n0 = len(it.path.events)
                key = it.call(kc, [row])
                kt = term(key, StrS)
                # the key is the hex rendering of the pattern the code computed, followed by the field terminator: read the
                # pattern back from the term
                kt = z3.simplify(kt)
                ok = z3.is_app(kt) and kt.decl().kind() == z3.Z3_OP_SEQ_CONCAT and kt.num_args() == 2 and \
                    z3.is_app(kt.arg(0)) and kt.arg(0).decl().name() == 'hex16' and z3.is_string_value(kt.arg(1)) and \
                    kt.arg(1).as_string() in ('\x00', '\\u{0}', '\\x00')
                check(it, 'numeric-key-is-the-hex-of-one-64-bit-pattern-then-the-terminator[%s]' % spec_kind, ok)
                if not ok:
                    return
                encs.append(kt.arg(0).arg(0))
            ex, ey = encs
            check(it, 'encoding-is-strictly-monotone-on-doubles[%s]' % spec_kind, z3.Implies(z3.fpLT(x, y), z3.ULT(ex, ey)))
            check(it, 'equal-numbers-get-equal-keys[%s]' % spec_kind, z3.Implies(z3.fpEQ(x, y), ex == ey))
            cover(it, 'reachable[%s]' % spec_kind)
        paths = vc.explore(fk, thunk, min_paths=1)
        expect_no_raise_or_same(vc, fk, paths)
    # text field: the key is the text itself (list spec) / the formatted text (format spec)
    def thunk2(it):
        install_bitarray(it)
        KC = real_function(it, 'dataflows.processors.sort_rows', 'KeyCalc')
        from pyvc.api import PyList, sym_str
        kc = it.call(KC, [PyList(['a', 'b'])])
        from pyvc.api import interference
        interference(it)     # other key calculators may be built (and used) before this one is used
        a, b = sym_str(it, 'a'), sym_str(it, 'b')
        key = it.call(kc, [PyDict({'a': a, 'b': b})])
        T = z3.StringVal('\x00')
        check(it, 'text-key-is-each-field-followed-by-the-terminator', term(key, StrS) == z3.Concat(a.t, T, b.t, T))
        m = it.module('dataflows.processors.sort_rows')
        check(it, 'terminator-is-the-lowest-character', m.attrs.get('FIELD_END') == '\x00')
    vc.explore(fk, thunk2)

    def thunk3(it):
        KC = real_function(it, 'dataflows.processors.sort_rows', 'KeyCalc')
        from pyvc.api import ufunc
        f = ufunc('user_key')
        kc = it.call(KC, [f])
        from pyvc.api import interference
        interference(it)     # other key calculators may be built (and used) before this one is used
        check(it, 'callable-key-used-as-is', it.lib.getattr_(it, kc, 'calculator') is f)
    vc.explore(fk, thunk3)
    vc.cur_fn = fk
    # hex16 is order preserving and fixed width (T7) -- stated as the assumption it is; the obligations above are on bit patterns


def replay_keycalc(h, cex, obligation):
    """the solver's counterexample of a failed key obligation: two doubles x, y (or two texts a, b) -- run the REAL KeyCalc on them"""
    import math
    from contracts import replayers as R
    from dataflows.processors.sort_rows import KeyCalc
    spec = ['k'] if '[list]' in obligation else '{k}'
    if 'x' in cex and 'y' in cex:
        x, y = cex['x'], cex['y']
        if not all(isinstance(v, float) for v in (x, y)) or math.isnan(x) or math.isnan(y):
            return 'not-concretisable'
        kc = KeyCalc(spec)
        r = h.run(lambda: (kc({'k': x}), kc({'k': y})))
        ok = r[0] == 'ok' and ((r[1][0] < r[1][1]) == (x < y)) and ((r[1][0] == r[1][1]) == (x == y))
        h.check(ok, P + 'sort_rows.py::KeyCalc.__calculator.func', dict(x=repr(x), y=repr(y), key_spec=spec),
                'key(x) < key(y) iff x < y, equal keys iff x == y', r[:2])
        return
    a, b = R.scalar(cex, 'a'), R.scalar(cex, 'b')
    if isinstance(a, str) and isinstance(b, str):
        kc = KeyCalc(['a', 'b'])
        r = h.run(lambda: kc({'a': a, 'b': b}))
        h.check(r[0] == 'ok' and r[1] == a + '\x00' + b + '\x00', P + 'sort_rows.py::KeyCalc.__calculator.func', dict(a=a, b=b),
                a + '\x00' + b + '\x00', r[:2])
        return
    return 'not-concretisable'


def sym_sorter(vc):
    import z3
    from pyvc.api import (real_function, LoopSpec, check, cover, yields_of, row_stream, ufunc, Opaque, term, StrS, IntS, Stream,
                          GenObj, UFunc, SV)
    from pyvc.symex import Ev
    fk = vc.under_contract(P + 'sort_rows.py', ['_sorter'])
    fk2 = vc.under_contract(P + 'sort_rows.py', ['_sorter', 'process'])
    for reverse in (False, True):
        def thunk(it, reverse=reverse):
            srt = real_function(it, 'dataflows.processors.sort_rows', '_sorter')
            m = it.module('dataflows.processors.sort_rows')
            KEY = z3.Function('user_key', z3.ArraySort(StrS, z3.BoolSort()), lib_vals(), StrS)
            key_calc = UFunc('key_calc', lambda it_, a, k: SV(KEY(a[0].dom, a[0].val)), True)
            db = Opaque('KVFile', 'db')
            inserted = {}

            def insert(it_, o, a, k):
                inserted['gen'] = a[0]
                inserted['kw'] = k
                it_.emit(Ev('Call', target=o, method='insert', args=(), kwargs={}, result=None, objs=tuple(a)))
                # KVFile.insert consumes its iterator completely (T6): run the real generator now
                it_.run_generator(a[0])
                for e in it_.path.events:
                    if e.kind == 'Yield' and not hasattr(e, 'consumed_by_insert'):
                        e.consumed_by_insert = True
                        e.kind = 'InsertedPair'
            db.attrs['call:insert'] = insert
            out = Stream('db.items', lambda it_: (SV(it_.fresh('stored_key', StrS)), it_.fresh_row('stored_row')))

            def items(it_, o, a, k):
                it_.emit(Ev('Call', target=o, method='items', args=(), kwargs=dict(k), result=out, objs=()))
                return out
            db.attrs['call:items'] = items
            ctor = {}

            def KV(it_, a, k):
                ctor['args'] = (tuple(a), dict(k))
                return db
            m.attrs['KVFile'] = UFunc('KVFile', KV, True)
            rows = row_stream(it, 'rows')
            tag = '[reverse=%s]' % reverse

            def p_start(it, env, elem):
                n, row = elem
                return n, row, row.snapshot()

            def p_end(it, env, cap, events):
                n, row, snap = cap
                ps = [e for e in events if e.kind in ('Yield', 'InsertedPair')]
                if len(ps) != 1:
                    check(it, 'one-pair-per-row' + tag, False)
                    return
                k, v = ps[0].value if not isinstance(ps[0].value, tuple) else ps[0].value
                HEX8 = z3.Function('py_format[08x]', lib_cell(), StrS)
                check(it, 'key-is-sortkey-then-row-number' + tag, term(k, StrS) ==
                      z3.Concat(KEY(snap.dom, snap.val), HEX8(lib_cell().int(n.t))))
                check(it, 'value-is-the-row-itself' + tag, ps[0].obj[1] is row)
                cover(it, 'pair-iter-reachable' + tag)

            def o_end(it, env, cap, events):
                ys = yields_of(events)
                check(it, 'emits-the-stored-value' + tag, len(ys) == 1 and ys[0].obj is cap[1])
                cover(it, 'out-iter-reachable' + tag)
            it.loops['process#L0'] = LoopSpec(at_start=p_start, at_end=p_end)
            it.loops['_sorter#L0'] = LoopSpec(at_start=lambda it, env, e: e, at_end=o_end,
                                              at_exit=lambda it, env: it.path.info.__setitem__('exit_mark', len(it.path.events)))
            it.run_generator(it.call(srt, [rows, key_calc, reverse, 1000]))
            evs = it.path.events
            names = effect_names(evs)
            if 'exit_mark' in it.path.info:
                ins = [i for i, e in enumerate(evs) if e.kind == 'Call' and e.method == 'insert']
                its = [i for i, e in enumerate(evs) if e.kind == 'Call' and e.method == 'items']
                ys = [i for i, e in enumerate(evs) if e.kind == 'Yield']
                check(it, 'whole-stream-inserted-before-anything-is-emitted' + tag, len(ins) == 1 and len(its) == 1 and ins[0] < its[0]
                      and rows.drained is True)
                ic = calls(evs, method='items')
                check(it, 'iterates-the-store-in-the-requested-direction' + tag, len(ic) == 1 and ic[0].kwargs.get('reverse') is reverse)
                check(it, 'batch-size-forwarded' + tag, inserted.get('kw', {}).get('batch_size') == 1000)
                # T6 (what comes back out of the store is equal to what went in, whatever the kind of value: microseconds, Decimals,
                # tuples) is assumed for the store AS THE LIBRARY CREATES IT BY DEFAULT; another serializer is another contract
                check(it, 'rows-are-parked-in-a-store-with-the-default-lossless-serializer' + tag, ctor.get('args') == ((), {}))
                post = evs[it.path.info['exit_mark']:]
                check(it, 'store-closed-after-the-last-row' + tag, [x for x in effect_names(post) if x != 'Exhausted'] == ['db.close'])
        paths = vc.explore(fk, thunk, min_paths=3)
        expect_no_raise_or_same(vc, fk, paths)


def sym_sort_func(vc):
    """sort_rows(key, ..).func: every selected resource is handed to _sorter with THE key calculator of `key` -- numbers get the
    order-preserving encoding whatever the resource's schema declares (or does not declare) for the field --, and with the
    reverse / batch_size the step was built with; unselected resources pass as they are"""
    import z3
    from pyvc.api import real_function, LoopSpec, check, cover, yields_of, GenObj, PyDict, PyList, SV, term, StrS, sym_int
    from contracts.common import mk_package2, fn_named, same_stream
    fk = vc.under_contract(P + 'sort_rows.py', ['sort_rows', 'func'])
    vc.under_contract(P + 'sort_rows.py', ['sort_rows'])
    D = z3.Float64()
    for spec_kind in ('list', 'format'):
        def thunk(it, spec_kind=spec_kind):
            install_bitarray(it)
            SR = real_function(it, 'dataflows.processors.sort_rows', 'sort_rows')
            KC = real_function(it, 'dataflows.processors.sort_rows', 'KeyCalc')
            spec = PyList(['k']) if spec_kind == 'list' else '{k}'
            bs = sym_int(it, 'batch_size')
            func = it.call(SR, [spec], dict(reverse=True, batch_size=bs))
            package = mk_package2(it)
            x = z3.FP('x', D)
            it.assume(z3.Not(z3.fpIsNaN(x)))
            tag = '[%s]' % spec_kind

            def at_end(it, env, r, events):
                ys = yields_of(events)
                if len(ys) != 1 or not isinstance(ys[0].obj, GenObj) or not fn_named(ys[0].obj, '_sorter'):
                    check(it, 'selected-resource-handed-to-the-sorter' + tag, False)
                    return
                g = ys[0].obj
                check(it, 'sorter-gets-the-resource-and-the-options-of-the-step' + tag, len(g.args) == 4 and g.args[0] is r and g.args[2] is True
                      and g.args[3] is bs)
                want = it.call(it.call(KC, [spec]), [PyDict({'k': SV(x)})])
                got = it.call(g.args[1], [PyDict({'k': SV(x)})])
                check(it, 'numbers-are-keyed-as-numbers-whatever-the-schema-declares' + tag,
                      z3.simplify(term(got, StrS)) == z3.simplify(term(want, StrS)))
                cover(it, 'iter-reachable' + tag)
            it.loops['func#L0'] = LoopSpec(at_start=lambda it, env, r: r, at_end=at_end)
            it.run_generator(it.call(func, [package]))
        paths = vc.explore(fk, thunk, min_paths=2)
        expect_no_raise_or_same(vc, fk, paths)


def nat_sort_undeclared_and_typed(h):
    """bounded: numeric key fields the schema does not declare as integer / number -- a value computed by an earlier row function
    (not in the schema at all), a field typed `year`, a field typed `any` -- still sort numerically"""
    from dataflows import Flow, sort_rows, set_type
    vals = [1000, 120, 9, -5, 1200, 800, -40, 0]

    def add_n(row):
        row['n'] = row['v'] * 1
    for key in ('{n}', ['n']):
        for reverse in (False, True):
            got = h.run(lambda: Flow([{'v': v, 'i': i} for i, v in enumerate(vals)], add_n, sort_rows(key, reverse=reverse)).results(on_error=None)[0][0])
            want = sorted(vals, reverse=reverse)
            h.check(got[0] == 'ok' and [r['n'] for r in got[1]] == want, P + 'sort_rows.py::KeyCalc', ('undeclared computed field', key, reverse), want,
                    [r.get('n') for r in got[1]] if got[0] == 'ok' else got[:2])
    years = [2001, 999, 1200, 30, 1999]
    for typ in ('year', 'any', 'integer'):
        got = h.run(lambda: Flow([{'y': v} for v in years], set_type('y', type=typ), sort_rows('{y}')).results(on_error=None)[0][0])
        h.check(got[0] == 'ok' and [int(r['y']) for r in got[1]] == sorted(years), P + 'sort_rows.py::KeyCalc', ('field typed %s' % typ,), sorted(years),
                [r.get('y') for r in got[1]] if got[0] == 'ok' else got[:2])


def lib_vals():
    from pyvc.api import ValS
    return ValS


def lib_cell():
    from pyvc.api import Cell
    return Cell


def sym_string_lemmas(vc):
    """order lemmas on keys with the row-number suffix; strings as (array of code points, length) with an explicit
    first-difference witness (z3's sequence theory does not decide lexicographic order combined with concatenation)"""
    import z3
    fk = vc.under_contract(P + 'sort_rows.py', ['_sorter', 'process'])
    vc.cur_fn = fk
    A = z3.ArraySort(z3.IntSort(), z3.IntSort())

    def lex_lt(a, la, b, lb, w):
        # a < b with witness w: common prefix of length w, then a ends or a[w] < b[w]
        i = z3.Int('i_' + str(w))
        return z3.And(w >= 0, w <= la, w <= lb, z3.ForAll([i], z3.Implies(z3.And(0 <= i, i < w), a[i] == b[i])),
                      z3.Or(z3.And(w == la, w < lb), z3.And(w < la, w < lb, a[w] < b[w])))

    def concat(a, la, s, ls, name):
        c = z3.Array(name, z3.IntSort(), z3.IntSort())
        i = z3.Int('j_' + name)
        ax = z3.ForAll([i], z3.And(z3.Implies(z3.And(0 <= i, i < la), c[i] == a[i]),
                                   z3.Implies(z3.And(la <= i, i < la + ls), c[i] == s[i - la])))
        return c, la + ls, ax
    # The key of a row is  f1 ++ T ++ f2 ++ T ++ ... ++ fn ++ T ++ rownumber  where T (code point 0) is lower than every character
    # of a field's text (texts with a NUL character are outside the claim; numbers are 16 hex digits).  Field-wise order follows
    # by induction over the fields from the two lemmas below (the "rest" after the first terminator is again such a key or the
    # row number):
    a, b = z3.Array('a', z3.IntSort(), z3.IntSort()), z3.Array('b', z3.IntSort(), z3.IntSort())
    la, lb = z3.Int('la'), z3.Int('lb')
    r1, r2 = z3.Array('r1', z3.IntSort(), z3.IntSort()), z3.Array('r2', z3.IntSort(), z3.IntSort())
    n1, n2 = z3.Int('n1'), z3.Int('n2')
    w, ws = z3.Int('w'), z3.Int('ws')
    sep = z3.K(z3.IntSort(), z3.IntVal(0))          # the terminator as a one-character text
    i0 = z3.Int('i0')
    above = lambda x, lx: z3.ForAll([i0], z3.Implies(z3.And(0 <= i0, i0 < lx), x[i0] > 0))

    def key_of(f, lf, rest, lrest, name):
        c1, m1, ax1 = concat(f, lf, sep, z3.IntVal(1), name + '_t')
        c2, m2, ax2 = concat(c1, m1, rest, lrest, name)
        return c2, m2, [ax1, ax2]
    # (a) first fields differ, a < b -- INCLUDING a being a proper prefix of b: a ++ T ++ rest1 < b ++ T ++ rest2, whatever follows
    c1, m1, ax1 = key_of(a, la, r1, n1, 'c1')
    c2, m2, ax2 = key_of(b, lb, r2, n2, 'c2')
    hyp = [la >= 0, lb >= 0, n1 >= 0, n2 >= 0] + ax1 + ax2 + [above(a, la), above(b, lb), lex_lt(a, la, b, lb, w)]
    vc.add('sort_rows.lemma.a-smaller-field-decides-whatever-follows-it', hyp, lex_lt(c1, m1, c2, m2, w))
    # (b) first fields equal: the order is the order of what follows (the next field, finally the row number: stability)
    d1, k1, bx1 = key_of(a, la, r1, n1, 'd1')
    d2, k2, bx2 = key_of(a, la, r2, n2, 'd2')
    hyp2 = [la >= 0, n1 >= 0, n2 >= 0] + bx1 + bx2 + [lex_lt(r1, n1, r2, n2, ws)]
    vc.add('sort_rows.lemma.equal-fields-ordered-by-what-follows', hyp2, lex_lt(d1, k1, d2, k2, la + 1 + ws))
    # (c) cover: the hypotheses are satisfiable, also with a proper prefix
    vc.add('sort_rows.lemma.cover-a', hyp + [w == la, la < lb, la > 0], None, kind='cover')
    vc.add('sort_rows.lemma.cover-b', hyp2, None, kind='cover')
    # (the proper-prefix case, a recorded finding on the pinned tree, is covered by lemma (a) since the terminator was introduced)


def nat_sort(h):
    import decimal
    from dataflows import Flow, sort_rows
    for case in range(h.n(40, 400)):
        kind = h.rng.choice(['float', 'int', 'decimal', 'mixed', 'text', 'two-fields', 'two-texts', 'text-number', 'huge'])
        n = h.rng.choice([0, 1, 2, 5, 12]) if h.tier == 'quick' or h.rng.random() < 0.9 else 10300
        if case < 2:
            # two tables beyond the in-memory cache of the key/value file (10240 entries), ascending and descending, in
            # every run: the spill-to-disk path of the index is part of the property's quantifier
            n, kind = 10300, ('int' if case == 0 else 'float')
        fl = [0.0, 1.5, -1.5, 2.0, -2.0, 1e300, -1e300, 1e-300, -1e-300, 3.25, -0.5, 100.0, -100.0, 7.0, -3e231, -1.7e308, -1e250,
              1.7e308, 5e-324, -5e-324, -0.0]
        if kind == 'float':
            vals = [h.rng.choice(fl) for _ in range(n)]
        elif kind == 'int':
            vals = [h.rng.randint(-1000, 1000) for _ in range(n)]
        elif kind == 'decimal':
            vals = [decimal.Decimal(h.rng.choice(['1.5', '-2.25', '0', '10', '-10', '3.125'])) for _ in range(n)]
        elif kind == 'mixed':
            vals = [h.rng.choice([1, -1, 2.5, decimal.Decimal('2.25'), -3, 0, 10 ** 6, -2.5]) for _ in range(n)]
        elif kind == 'text':
            # (proper prefixes of one another included: 'Ann' < 'Ann Marie' < 'Anna')
            # (no empty string: an iterable source reads '' as a missing value, so the cell reaches sort_rows as null, and the
            #  place of nulls in the order is not part of the property -- a false alarm of this oracle under VERIF_SEED=1)
            vals = [h.rng.choice(['apple', 'banana', 'cherry', 'éclair', 'Zebra', 'apply', 'b', 'Ann', 'Ann Marie', 'Anna', 'app', ' ']) for _ in range(n)]
        elif kind == 'two-texts':
            vals = [(h.rng.choice(['li', 'lin', 'lia', 'l', 'li ']), h.rng.choice(['zoe', 'ann', 'amy', 'a', 'an'])) for _ in range(n)]
        elif kind == 'text-number':
            vals = [(h.rng.choice(['li', 'lia', 'lib', 'l']), h.rng.choice([5, -5, 50, 0.5])) for _ in range(n)]
        elif kind == 'huge':
            # integers are unbounded: beyond the range of a double they sort with the infinity of their sign
            vals = [h.rng.choice([1, -1, 10 ** 300, 2 ** 1024, -10 ** 400, 3.5, 0]) for _ in range(n)]
        else:
            vals = [(h.rng.choice([1, 2, -1]), h.rng.choice(['x', 'y'])) for _ in range(n)]
        if kind in ('two-fields', 'two-texts', 'text-number'):
            rows = [{'a': a, 'b': b, 'i': i} for i, (a, b) in enumerate(vals)]
            key = h.rng.choice(['{a}{b}', ['a', 'b'], ('a', 'b')])
            want = sorted(rows, key=lambda r: (r['a'], r['b'], r['i']))
        elif kind == 'huge':
            rows = [{'k': v, 'i': i} for i, v in enumerate(vals)]
            key = h.rng.choice(['{k}', ['k']])
            clamp = lambda v: float('inf') if v > 1.7e308 else (float('-inf') if v < -1.7e308 else v)
            want = sorted(rows, key=lambda r: (clamp(r['k']), r['i']))
        else:
            rows = [{'k': v, 'i': i} for i, v in enumerate(vals)]
            key = h.rng.choice(['{k}', ['k']]) if kind != 'text' else '{k}'
            want = sorted(rows, key=lambda r: (r['k'], r['i']))
        reverse = h.rng.random() < 0.4
        if case < 2:
            reverse = case == 0
        bs = h.rng.choice([1, 2, 1000])
        got = h.run(lambda: Flow([dict(r) for r in rows], sort_rows(key, reverse=reverse, batch_size=bs)).results(on_error=None)[0])
        exp = list(reversed(want)) if reverse else want
        # values may come back as Decimal (schema inference casts numbers); the order and the identity of rows is what counts
        ok = got[0] == 'ok' and ((len(got[1]) == 1 and [r['i'] for r in got[1][0]] == [r['i'] for r in exp]) or
                                 (n == 0 and got[1] in ([], [[]])))
        h.check(ok, P + 'sort_rows.py::_sorter', (kind, vals if n < 20 else n, key, reverse, bs), [r['i'] for r in exp],
                [r['i'] for r in got[1][0]] if got[0] == 'ok' and got[1] else got[:2])


def nat_sort_several_tables(h):
    """bounded: one sort_rows step applied to several tables -- two selected resources of one flow, and the same step object in two
    flows -- whose key field holds text in one table and numbers in the other: each table is sorted by its own values"""
    import decimal
    from dataflows import Flow, sort_rows
    text = [{'v': s, 'i': i} for i, s in enumerate(['pear', 'apple', 'fig', 'apple', 'kiwi'])]
    nums = [{'v': x, 'i': i} for i, x in enumerate([10, 9, -1, -20, 2.5, 1000000, decimal.Decimal('9.5'), 9])]
    late = [{'v': None, 'i': 0}] + [{'v': x, 'i': i + 1} for i, x in enumerate([10, 9, 100, -5])]     # first value is not a number

    def ids(rows):
        return [r['i'] for r in rows]

    def ref(rows, reverse):
        out = sorted([r for r in rows], key=lambda r: ((r['v'] is not None), r['v'] if r['v'] is not None else 0, r['i'])) \
            if not isinstance(rows[1]['v'], str) else sorted(rows, key=lambda r: (r['v'], r['i']))
        return list(reversed(out)) if reverse else out
    for key in ('{v}', ['v']):
        for reverse in (False, True):
            for first, second in ((text, nums), (nums, text)):
                got = h.run(lambda: Flow([dict(r) for r in first], [dict(r) for r in second],
                                         sort_rows(key, reverse=reverse)).results(on_error=None)[0])
                ok = got[0] == 'ok' and [ids(x) for x in got[1]] == [ids(ref(first, reverse)), ids(ref(second, reverse))]
                h.check(ok, P + 'sort_rows.py::KeyCalc', ('two resources in one flow', key, reverse, 'text first' if first is text else 'numbers first'),
                        [ids(ref(first, reverse)), ids(ref(second, reverse))], [ids(x) for x in got[1]] if got[0] == 'ok' else got[:2])
                step = sort_rows(key, reverse=reverse)
                a = h.run(lambda: Flow([dict(r) for r in first], step).results(on_error=None)[0][0])
                b = h.run(lambda: Flow([dict(r) for r in second], step).results(on_error=None)[0][0])
                ok = a[0] == 'ok' and b[0] == 'ok' and ids(a[1]) == ids(ref(first, reverse)) and ids(b[1]) == ids(ref(second, reverse))
                h.check(ok, P + 'sort_rows.py::KeyCalc', ('one step object in two flows', key, reverse), [ids(ref(first, reverse)), ids(ref(second, reverse))],
                        [ids(a[1]) if a[0] == 'ok' else a[:2], ids(b[1]) if b[0] == 'ok' else b[:2]])
            # numbers after a leading null are still compared as numbers among themselves
            got = h.run(lambda: Flow([dict(r) for r in late], sort_rows(key, reverse=reverse)).results(on_error=None)[0][0])
            nn = [r['i'] for r in (got[1] if got[0] == 'ok' else []) if r['v'] is not None]
            want = ids(sorted(late[1:], key=lambda r: (r['v'], r['i'])))
            h.check(got[0] == 'ok' and nn == (list(reversed(want)) if reverse else want), P + 'sort_rows.py::KeyCalc',
                    ('numbers after a leading null', key, reverse), want, nn if got[0] == 'ok' else got[:2])


def nat_sort_findings(h):
    from dataflows import Flow, sort_rows

    def order(vals, key='{k}'):
        rows = [{'k': v, 'i': i} for i, v in enumerate(vals)]
        return [r['k'] for r in Flow(rows, sort_rows(key)).results(on_error=None)[0][0]]
    h.cur = h.cur + '/negative-zero'
    h.check(order([1.0, -0.0, -1.0, 0.0]) in ([-1.0, -0.0, 0.0, 1.0],), P + 'sort_rows.py::KeyCalc', [1.0, -0.0, -1.0, 0.0],
            '[-1.0, -0.0, 0.0, 1.0]', order([1.0, -0.0, -1.0, 0.0]))
    h.cur = h.cur.replace('/negative-zero', '/precision')
    big = [2 ** 53 + 1, 2 ** 53, 2 ** 53 + 2]
    h.check(order(big) == sorted(big), P + 'sort_rows.py::KeyCalc', big, sorted(big), order(big))
    h.cur = h.cur.replace('/precision', '/prefix')
    txt = ['Ann Marie', 'Ann']
    h.check(order(txt) == sorted(txt), P + 'sort_rows.py::_sorter.process', txt, sorted(txt), order(txt))
    h.cur = h.cur.replace('/prefix', '')


from contracts import C10 as _K10   # noqa: E402  (ResourceMatcher: the contract every selector-taking step is checked against)

ITEMS = [
    _K10._mk_matcher_item(),
    Item('KeyCalc', sym_keycalc, [('differential', nat_sort), ('several-tables', nat_sort_several_tables)], P + 'sort_rows.py::KeyCalc.__calculator.func',
         replay=replay_keycalc),
    Item('_sorter', sym_sorter, [], P + 'sort_rows.py::_sorter'),
    Item('sort_rows.func', sym_sort_func, [('undeclared-and-typed-fields', nat_sort_undeclared_and_typed)], P + 'sort_rows.py::sort_rows.func'),
    Item('string-lemmas', sym_string_lemmas, [('findings', nat_sort_findings)], P + 'sort_rows.py::_sorter.process'),
]

from contracts import reuse as _REUSE   # noqa: E402
ITEMS.append(Item('second-use', None, [('catalogue', _REUSE.nat_second_use_for('C12'))], 'dataflows/processors/sort_rows.py::KeyCalc.__init__'))
