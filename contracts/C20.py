"""C20  dump_to_sql leaves the table in the state its mode prescribes.

In-repo obligations against the assumed contract of tableschema_sql.Storage (T14: buckets / delete / create / describe /
write(update_keys, as_generator) yielding (row, updated, updated_id)):
  SQLDumper.process_resource : a resource that is not mapped to a table passes as the same object; otherwise
        rewrite and table exists  -> delete before anything else ;  any other mode -> never delete
        table absent (after that) -> create(schema for the engine, indexes) ; present -> describe(schema for the engine)
        update_keys = explicit keys, else the primary key, iff mode == 'update' ; None in every other mode
        rows handed to write() = the resource's rows through normalize_for_engine ; batch size and bloom filter forwarded ;
        what comes back is mapped through get_output_row, lazily
  get_output_row              : the written row, plus the two optional flag columns carrying Storage's flags, nothing else
  normalize_for_engine        : per row, in place, exactly the array / object columns go through the dialect's fixers (in order)
  normalize_schema_for_engine : a deep copy; on sqlite array / object columns are declared string; the input schema is untouched
"""
from contracts import findings_natives as KF
from contracts.common import fn_named
from contracts.common import same_stream, Item, mk_resource, expect_no_raise_or_same, _b
from contracts.streams import calls, effect_names

D = 'dataflows/processors/dumpers/'
TRUSTED = ['T1 pyvc model of Python (DESIGN 3)', 'T14 tableschema_sql.Storage: create / delete / describe / write semantics (append '
           'without update_keys; update-else-insert with them; yields row, updated, updated_id)', 'T16 z3 / cvc5']
ASSUMPTIONS = ['the table semantics (what rows the table holds after write) are the dependency\'s: assumed, exercised on SQLite by the '
               'bounded history run', 'strize (recursive normalisation of nested values) is covered by the bounded differential only']


def mk_sql_dumper(it, mode, explicit_keys=False, updated_column=None, updated_id_column=None, mapped=True, dialect='sqlite', exists=None,
                  indexes=True):
    import z3
    from pyvc.api import real_function, Opaque, PyDict, PyList, UFunc, SV, sym_str, BoolS
    from pyvc.symex import Ev
    m = it.module('dataflows.processors.dumpers.to_sql')
    SD = m.attrs['SQLDumper']
    engine = Opaque('Engine', 'engine')
    engine.attrs['dialect'] = Opaque('Dialect', 'dialect')
    engine.attrs['dialect'].attrs['name'] = dialect
    conf = {'resource-name': 'res' if mapped else 'another'}
    if mode is not None:
        conf['mode'] = mode
    keys = PyList(['k1', 'k2'])
    if explicit_keys:
        conf['update_keys'] = keys
    idx = None
    if indexes:
        idx = PyList([PyList(['i'])])
        conf['indexes_fields'] = idx
    tables = PyDict({'tbl': PyDict(conf)})
    kw = dict(engine=engine, batch_size=77, use_bloom_filter=False)
    if updated_column:
        kw['updated_column'] = updated_column
    if updated_id_column:
        kw['updated_id_column'] = updated_id_column
    storages = []
    E0 = it.fresh('table_exists', BoolS) if exists is None else z3.BoolVal(exists)

    def Storage(it_, a, k):
        st = Opaque('Storage', 'storage')
        st.state = E0
        st.made_with = (a, k)
        buckets = Opaque('buckets', 'buckets')
        buckets.attrs['__contains__'] = lambda it2, x: (st.state if x == '' else False)
        st.attrs['buckets'] = buckets

        def delete(it2, o, a2, k2):
            it2.emit(Ev('Call', target=o, method='delete', args=tuple(a2), kwargs=dict(k2), result=None, objs=tuple(a2)))
            o.state = z3.BoolVal(False)

        def create(it2, o, a2, k2):
            it2.emit(Ev('Call', target=o, method='create', args=tuple(a2[:1]), kwargs={}, result=None, objs=tuple(a2), kw=dict(k2)))
            o.state = z3.BoolVal(True)

        def write(it2, o, a2, k2):
            res = Opaque('written', 'written_rows')
            it2.emit(Ev('Call', target=o, method='write', args=tuple(a2[:1]), kwargs={}, result=res, objs=tuple(a2), kw=dict(k2)))
            return res
        st.attrs['call:delete'] = delete
        st.attrs['call:create'] = create
        st.attrs['call:write'] = write
        storages.append(st)
        return st
    m.attrs['Storage'] = UFunc('Storage', Storage, False)
    d = it.call(SD, [tables], kw)
    return d, engine, storages, keys, idx, E0


def sym_process_resource(vc):
    import z3
    from pyvc.api import real_function, check, cover, PyDict, PyList, GenObj, Opaque
    from pyvc import lib
    fk = vc.under_contract(D + 'to_sql.py', ['SQLDumper', 'process_resource'])
    vc.under_contract(D + 'to_sql.py', ['SQLDumper', '__init__'])
    for mode, indexes in [(m_, True) for m_ in ('rewrite', 'append', 'update', None)] + [('rewrite', False), (None, False)]:
        for explicit in (False, True):
            def thunk(it, mode=mode, explicit=explicit, indexes=indexes):
                d, engine, storages, keys, idx, E0 = mk_sql_dumper(it, mode, explicit_keys=explicit, indexes=indexes)
                r = mk_resource(it, 'resource', name='res')
                pk = PyList(['id'])
                schema = PyDict({'fields': PyList([PyDict({'name': 'id', 'type': 'integer'}), PyDict({'name': 'o', 'type': 'object'})]),
                                 'primaryKey': pk})
                r.attrs['res'].attrs['descriptor'] = PyDict({'name': 'res', 'schema': schema})
                n0 = len(it.path.events)
                out = it.call(it.lib.getattr_(it, d, 'process_resource'), [r])
                evs = it.path.events[n0:]
                names = [e.method for e in evs if e.kind == 'Call' and e.target in storages]
                eff = 'rewrite' if mode is None else mode
                tag = '[%s,%s%s]' % (mode, 'explicit-keys' if explicit else 'primary-key', '' if indexes else ',no-indexes')
                st = storages[0] if storages else None
                check(it, 'storage-bound-to-the-table-name' + tag, st is not None and st.made_with[0][0] is engine and
                      st.made_with[1].get('prefix') == 'tbl')
                if eff == 'rewrite':
                    check(it, 'rewrite-drops-an-existing-table-first' + tag,
                          z3.And(z3.Implies(E0, _b(names[:2] == ['delete', 'create'])), z3.Implies(z3.Not(E0), _b(names[:1] == ['create']))))
                else:
                    check(it, 'other-modes-never-drop-the-table' + tag, 'delete' not in names)
                    check(it, 'create-iff-absent-describe-iff-present' + tag,
                          z3.And(z3.Implies(E0, _b(names[:1] == ['describe'])), z3.Implies(z3.Not(E0), _b(names[:1] == ['create']))))
                check(it, 'exactly-one-write-at-the-end' + tag, names.count('write') == 1 and names[-1] == 'write')
                cr = [e for e in evs if e.kind == 'Call' and e.method == 'create']
                if cr:
                    sch = cr[0].objs[1]
                    check(it, 'created-with-the-engine-schema-and-the-configured-indexes' + tag, isinstance(sch, PyDict) and
                          sch is not schema and sch.d['fields'].items[1].d['type'] == 'string' and cr[0].kw.get('indexes_fields') is idx)
                wr = [e for e in evs if e.kind == 'Call' and e.method == 'write']
                if len(wr) == 1:
                    kw = wr[0].kw
                    uk = kw.get('update_keys')
                    if eff == 'update':
                        check(it, 'update-keys-explicit-or-primary-key' + tag, uk is (keys if explicit else pk))
                    else:
                        check(it, 'no-update-keys-outside-update-mode' + tag, uk is None)
                    rows = wr[0].objs[1]
                    check(it, 'rows-go-through-the-engine-normaliser' + tag, isinstance(rows, GenObj) and
                          fn_named(rows, 'normalize_for_engine') and rows.args[-2] is r and rows.args[-1] is schema and
                          rows.args[-3] == 'sqlite')
                    check(it, 'writer-options-forwarded' + tag, kw.get('keyed') is True and kw.get('as_generator') is True and
                          kw.get('buffer_size') == 77 and kw.get('use_bloom_filter') is False)
                    check(it, 'output-is-the-written-stream-mapped-lazily' + tag, isinstance(out, lib.MappedStream) and
                          out.stream is wr[0].result)
                cover(it, 'reachable' + tag)
            paths = vc.explore(fk, thunk, min_paths=2)
            expect_no_raise_or_same(vc, fk, paths)

    def thunk_unmapped(it):
        d, engine, storages, keys, idx, E0 = mk_sql_dumper(it, 'rewrite', mapped=False)
        r = mk_resource(it, 'resource', name='res')
        out = it.call(it.lib.getattr_(it, d, 'process_resource'), [r])
        check(it, 'unmapped-resource-passes-as-the-same-object', same_stream(it, out, r) and not storages)
    vc.explore(fk, thunk_unmapped)


def sym_get_output_row(vc):
    import z3
    from pyvc.api import check, cover, Opaque, sym_row, sym_bool, sym_cell, same_row, StrS, Cell
    fk = vc.under_contract(D + 'to_sql.py', ['SQLDumper', 'get_output_row'])
    for uc, uic in ((None, None), ('upd', None), (None, 'uid'), ('upd', 'uid')):
        def thunk(it, uc=uc, uic=uic):
            d, engine, storages, keys, idx, E0 = mk_sql_dumper(it, 'update', updated_column=uc, updated_id_column=uic)
            row = sym_row(it, 'row')
            before = row.snapshot()
            w = Opaque('WrittenRow', 'written')
            flag, fid = sym_bool(it, 'updated'), sym_cell(it, 'updated_id')
            w.attrs.update(row=row, updated=flag, updated_id=fid)
            out = it.call(it.lib.getattr_(it, d, 'get_output_row'), [w])
            check(it, 'returns-the-written-row-object[%s,%s]' % (uc, uic), out is row)
            k = z3.Const('k', StrS)
            special = [z3.StringVal(x) for x in (uc, uic) if x]
            others = z3.And(*[k != s for s in special]) if special else z3.BoolVal(True)
            check(it, 'other-cells-untouched[%s,%s]' % (uc, uic), z3.ForAll([k], z3.Implies(others, z3.And(
                row.dom[k] == before.dom[k], z3.Implies(before.dom[k], row.val[k] == before.val[k])))))
            if uc:
                check(it, 'updated-flag-is-storages[%s,%s]' % (uc, uic), z3.And(row.dom[z3.StringVal(uc)],
                                                                              row.val[z3.StringVal(uc)] == Cell.bool(flag.t)))
            if uic:
                check(it, 'updated-id-is-storages[%s,%s]' % (uc, uic), z3.And(row.dom[z3.StringVal(uic)], row.val[z3.StringVal(uic)] == fid.t))
        vc.explore(fk, thunk)


def sym_normalizers(vc):
    import z3
    from pyvc.api import (LoopSpec, check, cover, yields_of, PyDict, PyList, row_stream, ufunc, same_row, StrS, Cell)
    from pyvc.symex import PyExc
    fk = vc.under_contract(D + 'to_sql.py', ['SQLDumper', 'normalize_for_engine'])
    for dialect in ('sqlite', 'postgresql', 'mysql'):
        def thunk(it, dialect=dialect):
            d, engine, storages, keys, idx, E0 = mk_sql_dumper(it, 'append')
            m = it.module('dataflows.processors.dumpers.to_sql')
            S, J = ufunc('strize'), ufunc('jsonize')
            m.attrs['OBJECT_FIXERS'] = PyDict({'sqlite': PyList([S, J]), 'postgresql': PyList([S])})
            schema = PyDict({'fields': PyList([PyDict({'name': 'a', 'type': 'array'}), PyDict({'name': 'n', 'type': 'integer'}),
                                               PyDict({'name': 'o', 'type': 'object'})])})
            rows = row_stream(it, 'resource')
            if dialect == 'mysql':
                it.path.info['allowed_exc'] = {'AssertionError': z3.BoolVal(True)}

            def at_start(it, env, row):
                return row, row.snapshot()

            def at_end(it, env, cap, events):
                row, before = cap
                ys = yields_of(events)
                check(it, 'row-yielded-once[%s]' % dialect, len(ys) == 1)
                if len(ys) != 1:
                    return
                out = ys[0].value

                def fixed(name):
                    c = it.uncell(z3.If(before.dom[z3.StringVal(name)], before.val[z3.StringVal(name)], Cell.none))
                    v = it.call(S, [c])
                    if dialect == 'sqlite':
                        v = it.call(J, [v])
                    return it.cell_of(v)
                k = z3.Const('k', StrS)
                check(it, 'array-and-object-columns-normalised[%s]' % dialect, z3.And(
                    out.dom[z3.StringVal('a')], out.val[z3.StringVal('a')] == fixed('a'),
                    out.dom[z3.StringVal('o')], out.val[z3.StringVal('o')] == fixed('o')))
                check(it, 'all-other-columns-untouched[%s]' % dialect, z3.ForAll([k], z3.Implies(
                    z3.And(k != z3.StringVal('a'), k != z3.StringVal('o')),
                    z3.And(out.dom[k] == before.dom[k], z3.Implies(before.dom[k], out.val[k] == before.val[k])))))
                # C20: "rows continue downstream unchanged apart from the optional updated flags": what is prepared for the engine
                # must not be written into the row the caller handed over (recorded finding F-C20-structured-cells-rewritten)
                check(it, 'the-row-that-continues-downstream-is-left-as-it-came[%s]' % dialect, same_row(row, before))
                cover(it, 'iter-reachable[%s]' % dialect)
            if dialect != 'mysql':
                # (an unknown dialect is refused before any row is looked at)
                it.loops['SQLDumper.normalize_for_engine#L1'] = LoopSpec(at_start=at_start, at_end=at_end)
            try:
                it.run_generator(it.call(it.lib.getattr_(it, d, 'normalize_for_engine'), [dialect, rows, schema]))
            except PyExc as pe:
                check(it, 'unknown-dialect-with-structured-columns-is-rejected', dialect == 'mysql' and pe.exc.cls == 'AssertionError')
                raise
            if not [e for e in it.path.events if e.kind == 'Pull']:
                check(it, 'drains[%s]' % dialect, rows.drained is True)
        paths = vc.explore(fk, thunk, min_paths=1)
        expect_no_raise_or_same(vc, fk, paths)
    fk2 = vc.under_contract(D + 'to_sql.py', ['SQLDumper', 'normalize_schema_for_engine'])
    for dialect in ('sqlite', 'postgresql'):
        def thunk2(it, dialect=dialect):
            d, engine, storages, keys, idx, E0 = mk_sql_dumper(it, 'append')
            fa, fn_, fo = PyDict({'name': 'a', 'type': 'array'}), PyDict({'name': 'n', 'type': 'integer'}), PyDict({'name': 'o', 'type': 'object'})
            schema = PyDict({'fields': PyList([fa, fn_, fo]), 'primaryKey': PyList(['n'])})
            out = it.call(it.lib.getattr_(it, d, 'normalize_schema_for_engine'), [dialect, schema])
            types = [f.d['type'] for f in out.d['fields'].items]
            check(it, 'structured-columns-declared-string-on-sqlite-only[%s]' % dialect,
                  types == (['string', 'integer', 'string'] if dialect == 'sqlite' else ['array', 'integer', 'object']))
            check(it, 'input-schema-untouched[%s]' % dialect, out is not schema and [f.d['type'] for f in (fa, fn_, fo)] == ['array', 'integer', 'object']
                  and all(a is not b for a, b in zip(out.d['fields'].items, (fa, fn_, fo))))
            check(it, 'rest-of-the-schema-kept[%s]' % dialect, out.d['primaryKey'].items == ['n'])
        vc.explore(fk2, thunk2)


def nat_strize(h):
    import datetime, decimal, json
    from dataflows.processors.dumpers.to_sql import strize, jsonize

    def ref(o):
        if isinstance(o, dict):
            return {k: ref(v) for k, v in o.items()}
        if isinstance(o, (list, set)):
            return [ref(x) for x in o]
        if isinstance(o, decimal.Decimal):
            return float(o)
        if isinstance(o, datetime.date):
            return o.isoformat()
        return o

    def gen(depth):
        k = h.rng.randint(0, 7 if depth > 0 else 5)
        if k == 0:
            return None
        if k == 1:
            return h.rng.choice([1, -2, 3.5, True, 'x'])
        if k == 2:
            return decimal.Decimal(h.rng.choice(['1.5', '-2']))
        if k == 3:
            return datetime.date(2020, 1, 2)
        if k == 4:
            # (with a fraction of a second, zone-aware east and west of Greenwich: the text must still denote the same instant)
            return h.rng.choice([datetime.datetime(2020, 1, 2, 3, 4, 5), datetime.datetime(2020, 1, 2, 3, 4, 5, 678901),
                                 datetime.datetime(2020, 1, 2, 10, 30, tzinfo=datetime.timezone(datetime.timedelta(hours=2))),
                                 datetime.datetime(2020, 1, 2, 10, 30, 0, 5, tzinfo=datetime.timezone(datetime.timedelta(hours=-5, minutes=-30)))])
        if k == 5:
            return 'txt'
        if k == 6:
            return [gen(depth - 1) for _ in range(h.rng.randint(0, 3))]
        return {'k%d' % i: gen(depth - 1) for i in range(h.rng.randint(0, 3))}
    for _ in range(h.n(150, 1500)):
        v = gen(3)
        got = h.run(lambda: strize(v))
        h.check(got[0] == 'ok' and got[1] == ref(v), D + 'to_sql.py::strize', repr(v), ref(v), got[:2])
        if got[0] == 'ok':
            # jsonize: the JSON text of the value, for EVERY value (an empty list / dict is a value, not a missing one)
            jz = h.run(lambda: jsonize(got[1]))
            h.check(jz[0] == 'ok' and isinstance(jz[1], str) and json.loads(jz[1]) == json.loads(json.dumps(ref(v))), D + 'to_sql.py::jsonize',
                    repr(v), json.dumps(ref(v)), jz[:2])


def nat_histories(h):
    """bounded: sequences of 1..5 dumps into one SQLite table against a reference model of the three modes"""
    import os, tempfile, shutil, json
    from sqlalchemy import create_engine, text
    from dataflows import Flow, dump_to_sql, set_primary_key
    for _ in range(h.n(12, 120)):
        d = tempfile.mkdtemp(prefix='c20_')
        try:
            eng = create_engine('sqlite:///' + os.path.join(d, 'db.sqlite'))
            table = []         # reference: list of dict rows in insertion order
            explicit = h.rng.random() < 0.5
            structured = h.rng.random() < 0.5
            for step in range(h.rng.randint(1, 5)):
                mode = h.rng.choice(['rewrite', 'append', 'update'])
                n = h.rng.randint(0, 4)
                if mode == 'update':
                    ids = [h.rng.randint(1, 5) for _ in range(n)]
                else:
                    ids = h.rng.sample(range(100 * step + 10, 100 * step + 60), n)     # fresh keys: no uniqueness conflict
                rows = [{'id': i, 'v': 's%d_%d' % (step, j)} for j, i in enumerate(ids)]
                if structured:
                    for r in rows:
                        r['arr'] = [r['id'], 'x']
                        r['obj'] = {'k': r['v']}
                if mode == 'update' and any(r['id'] == i for r in table for i in []):
                    pass
                conf = {'resource-name': 'res_1', 'mode': mode}
                if explicit:
                    conf['update_keys'] = ['id']      # present in every mode: only meaningful for update
                bs = h.rng.choice([1, 2, 1000])
                bloom = h.rng.random() < 0.5
                steps = [[dict(r) for r in rows]]
                if not explicit:
                    steps.append(set_primary_key(['id']))
                got = h.run(lambda: Flow(*steps, dump_to_sql({'t': conf}, engine=eng, updated_column='upd', batch_size=bs,
                                                             use_bloom_filter=bloom)).results(on_error=None))
                # reference
                exp_flags = []
                if mode == 'rewrite':
                    table = []
                for r in rows:
                    hit = [t for t in table if t['id'] == r['id']] if mode == 'update' else []
                    if hit:
                        hit[0].update(r)
                        exp_flags.append(True)
                    else:
                        table.append(dict(r))
                        exp_flags.append(False)
                cfg = (step, mode, rows, explicit, bs, bloom, structured)
                if not rows:
                    continue          # an empty iterable has no schema: nothing to dump
                if mode != 'update' and not explicit and len({t['id'] for t in table}) != len(table):
                    continue
                if not h.check(got[0] == 'ok', D + 'to_sql.py::SQLDumper.process_resource', cfg, 'dump ok', (got[1], str(got[2])[:300]) if got[0] != 'ok' else None):
                    break
                out = got[1][0][0]
                h.check([bool(r.get('upd')) for r in out] == exp_flags and [r['id'] for r in out] == [r['id'] for r in rows],
                        D + 'to_sql.py::SQLDumper.get_output_row', cfg, exp_flags, [(r['id'], r.get('upd')) for r in out])
                with eng.connect() as c:
                    cols = ['id', 'v'] + (['arr', 'obj'] if structured else [])
                    db = [dict(zip(cols, row)) for row in c.execute(text('select %s from t order by rowid' % ', '.join(cols)))]
                ref = [{k: (json.dumps(v) if isinstance(v, (list, dict)) else v) for k, v in t.items() if k in cols} for t in table]
                key = lambda r: (r['id'], r['v'])
                h.check(sorted(db, key=key) == sorted(ref, key=key), D + 'to_sql.py::SQLDumper.process_resource', cfg, ref, db)
        finally:
            shutil.rmtree(d, ignore_errors=True)
    # second use: the same Flow object (and the same dump_to_sql step object) run again writes again, as its mode prescribes
    for mode, want in (('append', [1, 2, 1, 2]), ('rewrite', [1, 2]), ('update', [1, 2])):
        for how in ('same-flow', 'same-step'):
            d = tempfile.mkdtemp(prefix='c20u_')
            try:
                eng = create_engine('sqlite:///' + os.path.join(d, 'db.sqlite'))
                step = dump_to_sql({'t': {'resource-name': 'res_1', 'mode': mode, 'update_keys': ['id']}}, engine=eng)
                mk = lambda: Flow([{'id': 1, 'v': 'a'}, {'id': 2, 'v': 'b'}], step)
                f = mk()
                r1 = h.run(lambda: f.process())
                f2 = f if how == 'same-flow' else mk()
                r2 = h.run(lambda: f2.process())
                with eng.connect() as c:
                    ids = [row[0] for row in c.execute(text('select id from t order by rowid'))]
                h.check(r1[0] == 'ok' and (r2[0] != 'ok' or ids == want), D + 'to_sql.py::SQLDumper.process_resource',
                        ('second use', mode, how), want, (r1[0], r2[0], ids))
            finally:
                shutil.rmtree(d, ignore_errors=True)
    # rewrite after a dump whose columns had the same names but other types: the table holds exactly the dumped values
    # (typed as dumped, not coerced to the previous column types), and a later update finds its row by that key
    for first, second in (([{'id': 1, 'v': 5}, {'id': 2, 'v': 6}], [{'id': 1, 'v': '007'}, {'id': 3, 'v': '1e3'}, {'id': 4, 'v': 'x'}]),
                          ([{'id': 1, 'v': 'a'}], [{'id': 1, 'v': 12}, {'id': 2, 'v': 7}])):
        d = tempfile.mkdtemp(prefix='c20t_')
        try:
            eng = create_engine('sqlite:///' + os.path.join(d, 'db.sqlite'))
            for rows, mode in ((first, 'rewrite'), (second, 'rewrite')):
                got = h.run(lambda: Flow([dict(r) for r in rows], set_primary_key(['id']),
                                         dump_to_sql({'t': {'resource-name': 'res_1', 'mode': mode}}, engine=eng)).process())
                if got[0] != 'ok':
                    break
            with eng.connect() as c:
                db = [dict(zip(['id', 'v'], row)) for row in c.execute(text('select id, v from t order by id'))]
            h.check(got[0] == 'ok' and db == second and all(type(a['v']) is type(b['v']) for a, b in zip(db, second)),
                    D + 'to_sql.py::SQLDumper.process_resource', ('rewrite after a dump with other column types', first, second), second,
                    db if got[0] == 'ok' else got[:2])
        finally:
            shutil.rmtree(d, ignore_errors=True)


from contracts.common import lazy_sym, lazy_nat   # noqa: E402

ITEMS = [
    Item('process_resource', sym_process_resource, [('histories', nat_histories)], D + 'to_sql.py::SQLDumper.process_resource'),
    Item('get_output_row', sym_get_output_row, [], D + 'to_sql.py::SQLDumper.get_output_row'),
    Item('normalizers', sym_normalizers, [('strize', nat_strize)], D + 'to_sql.py::SQLDumper.normalize_for_engine'),
    Item('recorded-findings', None, [('bounded', KF.nat_findings_c20)], 'dataflows/processors/dumpers/to_sql.py::SQLDumper.process_resource'),
    # the rows handed to the SQL writer come through the dumper's caster: every declared field present (null when absent)
    Item('schema_validator', lazy_sym('C14', 'sym_schema_validator'), [], 'dataflows/base/schema_validator.py::schema_validator'),
]
