"""C15  Field-level processors change schema and rows in lockstep.

Row phase (each generator proved to refine a stateless transducer for an arbitrary row, any table length):
  delete_fields / select_fields .process_resource  = restrict(row, kept names)            (fresh dict, values untouched)
  rename_fields.process_resource                   = {renames.get(k, k): v}               (fresh dict)
  add_computed_field.process_resource              = row U {target: op(row)} per field spec, in order, in place
  find_replace._find_replace                       = sequential re.sub over str(cell), in place
Package phase (descriptor edits) of delete_fields / rename_fields / add_computed_field / select_fields and the bridge
between the two phases (the names handed to the row phase are the names left in the schema) are separate items.
"""
from contracts.common import (Item, mk_resource, run_spec, ghost_row, expect_no_raise_or_same, row_transducer, _b)

TRUSTED = ['T1 pyvc model of Python (DESIGN 3)', 'T2 re: match / sub / escape uninterpreted', 'T16 z3 / cvc5']
ASSUMPTIONS = ['rename targets are strings', 'arithmetic on cells (sum, product, /) is an uninterpreted total function: machine '
               'arithmetic treated abstractly, equal on code and spec side',
               'field patterns: the code anchors as ^p$ and uses re.match; the spec uses the same predicate M(p, name)']
P = 'dataflows/processors/'

SPEC = '''
import functools


def restrict(row, names):
    return [dict((k, v) for k, v in row.items() if k in names)]


def rename(row, renames):
    return [dict((renames.get(k, k), v) for k, v in row.items())]


def computed_value(op, values, with_, row):
    if op == 'constant':
        return with_
    if op == 'sum':
        return sum(values)
    if op == 'avg':
        return sum(values) / len(values)
    if op == 'max':
        return max(values)
    if op == 'min':
        return min(values)
    if op == 'multiply':
        return functools.reduce(lambda x, y: x * y, values)
    if op == 'join':
        return with_.join([str(x) for x in values])
    if op == 'format':
        return with_.format(**row)
    raise KeyError(op)


def computed_step(row, fields):
    for field in fields:
        op = field['operation']
        target = field['target']['name']
        if isinstance(op, str):
            values = [row.get(c) for c in field.get('source', []) if row.get(c) is not None]
            row[target] = computed_value(op, values, field.get('with', field.get('with_', '')), row)
        elif callable(op):
            row[target] = op(row)
    return [row]


def find_replace_step(row, fields):
    # the documented operation: every pattern, in order, substituted in the TEXT of the field's value; a null has no text and
    # stays null
    for field in fields:
        for pattern in field.get('patterns', []):
            if row[field['name']] is not None:
                row[field['name']] = re_sub(str(pattern['find']), str(pattern['replace']), str(row[field['name']]))
    return [row]
'''


def _re_sub_free(it):
    from pyvc.api import UFunc, wrap, term, StrS
    from pyvc import lib
    return dict(re_sub=UFunc('re_sub', lambda it_, a, k: wrap(lib.RE_SUB(term(a[0], StrS), term(a[1], StrS), term(a[2], StrS)))))


def sym_delete_rows(vc):
    from pyvc.api import str_seq, SymList
    row_transducer(vc, P + 'delete_fields.py', ['process_resource'], 'dataflows.processors.delete_fields', ['process_resource'],
                   SPEC, 'restrict', lambda it, rows: (lambda names: ([rows, names], [names]))(SymList(str_seq(it, 'names'), [])),
                   'process_resource#L0', identity=False, min_paths=2)


def sym_select_rows(vc):
    from pyvc.api import str_set, PyDict

    def rows_arg(it):
        from pyvc.api import sym_str
        nm = sym_str(it, 'resname')
        return mk_resource(it, 'rows', descriptor=PyDict({'name': nm}), name=nm)

    def mk_args(it, rows):
        names = str_set(it, 'names')
        conf = PyDict({rows.attrs['res'].attrs['name']: names})
        return [rows, conf], [names]
    row_transducer(vc, P + 'select_fields.py', ['process_resource'], 'dataflows.processors.select_fields', ['process_resource'],
                   SPEC, 'restrict', mk_args, 'process_resource#L0', identity=False, rows_arg=rows_arg, min_paths=2)


def sym_rename_rows(vc):
    from pyvc.api import sym_row
    row_transducer(vc, P + 'rename_fields.py', ['process_resource'], 'dataflows.processors.rename_fields', ['process_resource'],
                   SPEC, 'rename', lambda it, rows: (lambda ren: ([rows, ren], [ren]))(sym_row(it, 'renames')),
                   'process_resource#L0', identity=False, min_paths=2)


def _replay_rows(which):
    def replay(h, cex, obligation):
        """the solver's counterexample of a failed row-phase obligation of delete / select / rename: the row and the names"""
        from contracts import replayers as R
        rows = R.rows(cex, 'rows.row') or R.rows(cex, 'rows.rows.row')
        sp = h.spec(SPEC)
        if which == 'delete':
            from dataflows.processors.delete_fields import process_resource
            names = [x for x in (R.scalar(cex, 'names') or []) if isinstance(x, str)]
            want = [o for r in rows for o in sp['restrict'](r, names)]        # (the row phase is handed the names that are KEPT)
            got = h.run(lambda: list(process_resource(iter([dict(r) for r in rows]), names)))
            inp = dict(rows=rows, kept_names=names)
        elif which == 'rename':
            from dataflows.processors.rename_fields import process_resource
            ren = (R.rows(cex, 'renames') or [{}])[0]
            want = [o for r in rows for o in sp['rename'](r, ren)]
            got = h.run(lambda: list(process_resource(iter([dict(r) for r in rows]), ren)))
            inp = dict(rows=rows, renames=ren)
        else:
            return 'not-concretisable'
        h.check(got[0] == 'ok' and got[1] == want, P + '%s_fields.py::process_resource' % which, inp, want, got[:2])
    return replay


OPS = ['constant', 'sum', 'avg', 'max', 'min', 'multiply', 'join', 'format']


def _field_spec(it, op, j=0):
    from pyvc.api import PyDict, PyList, sym_str, str_seq, SymList, ufunc
    d = {'target': PyDict({'name': sym_str(it, 'target%d' % j)})}
    if op == 'callable':
        d['operation'] = ufunc('user_op%d' % j)
    else:
        d['operation'] = op
        d['source'] = SymList(str_seq(it, 'source%d' % j), [])
        d['with'] = sym_str(it, 'with%d' % j)
    return PyDict(d)


def sym_computed_rows(vc):
    from pyvc.api import PyList
    shapes = [[op] for op in OPS + ['callable']] + [['sum', 'format'], ['callable', 'constant']]
    for shape in shapes:
        def mk_args(it, rows, shape=shape):
            fields = PyList([_field_spec(it, op, j) for j, op in enumerate(shape)])
            return [fields, rows], [fields]
        row_transducer(vc, P + 'add_computed_field.py', ['process_resource'], 'dataflows.processors.add_computed_field',
                       ['process_resource'], SPEC, 'computed_step', mk_args, 'process_resource#L0', identity=True,
                       tag='[%s]' % '+'.join(shape), min_paths=2)
    vc.assume_note('add_computed_field.process_resource: field-spec lists enumerated for shapes %r (one spec per operation, and '
                   'two-spec lists for ordering); contents of each spec (target, source list of any length, with) and rows: '
                   'symbolic' % (shapes,))


def sym_find_replace_rows(vc):
    from pyvc.api import PyList, PyDict, sym_str
    for npat in (0, 1, 2):
        def mk_args(it, rows, npat=npat):
            pats = PyList([PyDict({'find': sym_str(it, 'find%d' % j), 'replace': sym_str(it, 'repl%d' % j)}) for j in range(npat)])
            fields = PyList([PyDict({'name': sym_str(it, 'fname'), 'patterns': pats})])
            return [rows, fields], [fields]
        row_transducer(vc, P + 'find_replace.py', ['_find_replace'], 'dataflows.processors.find_replace', ['_find_replace'],
                       SPEC, 'find_replace_step', mk_args, '_find_replace#L0', identity=True, spec_free=_re_sub_free,
                       tag='[%d patterns]' % npat, min_paths=2)


def sym_add_field(vc):
    """add_field = add_computed_field(target=dict(name, type, **options), operation=default-or-constant-lambda)"""
    from pyvc.api import real_function, check, sym_str, sym_cell, ufunc, FuncDefV, sym_row
    import z3
    fk = vc.under_contract(P + 'add_field.py', ['add_field'])
    for kind in ('constant', 'callable'):
        def thunk(it, kind=kind):
            af = real_function(it, 'dataflows.processors.add_field', 'add_field')
            acf_mod = it.module('dataflows.processors.add_computed_field')
            captured = {}
            real_acf = acf_mod.attrs['add_computed_field']
            from pyvc.api import UFunc
            # observe the call add_field makes (modular: add_computed_field has its own contract)
            probe = UFunc('add_computed_field', lambda it_, a, k: captured.update(args=a, kwargs=k) or 'ACF-RESULT', True)
            it.module('dataflows.processors.add_field').attrs['add_computed_field'] = probe
            name, typ = sym_str(it, 'name'), sym_str(it, 'type')
            default = sym_cell(it, 'default') if kind == 'constant' else ufunc('default_fn')
            if kind == 'constant':
                it.assume(z3.Not(it.lib._b_callable(it, default).t))
            sel = sym_str(it, 'sel')
            r = it.call(af, [name, typ], dict(default=default, resources=sel, title='T'))
            check(it, 'returns-the-computed-field-step[%s]' % kind, r == 'ACF-RESULT')
            kw = captured.get('kwargs', {})
            tgt = kw.get('target')
            check(it, 'target-spec[%s]' % kind, tgt is not None and set(tgt.d) == {'name', 'type', 'title'} and
                  tgt.d['name'] is name and tgt.d['type'] is typ and tgt.d['title'] == 'T')
            check(it, 'resources-forwarded[%s]' % kind, kw.get('resources') is sel)
            op = kw.get('operation')
            row = sym_row(it, 'row')
            if kind == 'callable':
                check(it, 'callable-default-is-the-operation', op is default)
            else:
                v = it.call(op, [row])
                check(it, 'constant-default-for-every-row', it.cell_of(v) == default.t)
        vc.explore(fk, thunk)


# ------------------------------------------------------------------------------------------------ package phases

PKG_SPEC = '''
def any_match(field_res, name):
    return any(f.fullmatch(name) for f in field_res)
'''


def compiled_as_given(it, field_res, regex, pair=False):
    """the property speaks about the USER's patterns: a field is hit iff a pattern (escaped when regex=False) matches its whole
    name.  The code compiles the patterns first; this obligation ties the compiled pattern text to the user's pattern, so
    that `fullmatch` on the compiled object is the full match of the user's pattern (an added anchor, prefix or suffix would
    show here)."""
    import z3
    from pyvc import lib
    if not isinstance(field_res, lib.CompSeq) or len(field_res.vars) != 1 or field_res.conds:
        return False
    el = field_res.elem
    rx = el[0] if pair and isinstance(el, tuple) else el
    if not isinstance(rx, lib.RegexV):
        return False
    v = field_res.vars[0]
    want = v if regex else lib.RE_ESCAPE(v)
    return z3.simplify(lib.term(rx.pattern, lib.StrS)).eq(z3.simplify(want))


def sym_delete_fields_pkg(vc):
    """delete_fields.func, package phase, for a selected resource:
         schema.fields' = [sf for sf in schema.fields if not any(p matches sf.name)]  (original order, per-field step)
         names handed to the row phase = names of schema.fields'"""
    import z3
    from pyvc.api import (real_function, LoopSpec, check, cover, SpecModule, str_seq, SymList, PyDict)
    from pyvc import lib
    from contracts.common import mk_package2, search_loop, tree_writes_under
    fk = vc.under_contract(P + 'delete_fields.py', ['delete_fields', 'func'])
    spec = SpecModule(PKG_SPEC)
    for regex in (True, False):
        def thunk(it, regex=regex):
            maker = real_function(it, 'dataflows.processors.delete_fields', 'delete_fields')
            pats = SymList(str_seq(it, 'patterns'), [])
            func = it.call(maker, [pats], dict(resources=None, regex=regex))
            package = mk_package2(it)
            sp = spec.bind(it)
            st = {}

            def anyt(it, env):
                return it.truth(it.call(sp.attrs['any_match'], [env.lookup('field_res'), st['sf'].children['name']]))

            def cond_of(it, env, f):
                return lib.RE_FULLMATCH(lib.term(f.pattern, lib.StrS), st['sf'].children['name'].t)

            def res_start(it, env, rd):
                st['rd'] = rd
                check(it, 'patterns-compiled-as-given[regex=%s]' % regex, compiled_as_given(it, env.lookup('field_res'), regex))
                return rd

            def res_end(it, env, rd, events):
                nf = env.lookup('new_fields')
                ws = [e for e in tree_writes_under(events, rd) if e.kind == 'TreeWrite']
                check(it, 'schema-fields-replaced-by-the-kept-list[regex=%s]' % regex,
                      len(ws) == 1 and ws[0].key == 'fields' and ws[0].value is nf and ws[0].node is rd.children['schema'])
                d = env.lookup('new_field_names')
                ent = [v for k, v in d.d.items() if k is rd.children['name']]
                ok = len(ent) == 1 and isinstance(ent[0], lib.CompSeq) and getattr(ent[0].src, 'seq', None) is nf.prefix \
                    and not ent[0].conds and not nf.items and len(ent[0].vars) == 1 and \
                    z3.simplify(it.cell_of(ent[0].elem)).eq(z3.simplify(lib.ELEM_ITEM(ent[0].vars[0], z3.StringVal('name'))))
                check(it, 'row-phase-gets-the-names-of-the-kept-fields[regex=%s]' % regex, ok)
                cover(it, 'resource-iter-reachable[regex=%s]' % regex)

            def f_start(it, env, sf):
                st['sf'] = sf
                return sf

            def f_end(it, env, sf, events):
                nf = env.lookup('new_fields')
                apps = [e for e in events if e.kind == 'Append' and e.obj is nf]
                a = anyt(it, env)
                check(it, 'field-kept-iff-no-pattern-matches[regex=%s]' % regex,
                      z3.And(z3.Implies(a, _b(len(apps) == 0)), z3.Implies(z3.Not(a), _b(len(apps) == 1 and apps[0].value is sf))))
                check(it, 'field-descriptor-untouched[regex=%s]' % regex, not tree_writes_under(events, sf))
                cover(it, 'field-iter-reachable[regex=%s]' % regex)
            it.loops['func#L0'] = LoopSpec(at_start=res_start, at_end=res_end)
            it.loops['func#L1'] = LoopSpec(at_start=f_start, at_end=f_end)
            it.loops['func#L2'] = search_loop(anyt, cond_of, 'regex=%s' % regex,
                                              inv=lambda it, env: z3.Not(_b(it.truth(env.lookup('skip')))))
            it.loops['func#L3'] = LoopSpec(modes=('exit',))
            it.run_generator(it.call(func, [package]))
        paths = vc.explore(fk, thunk, min_paths=5)
        expect_no_raise_or_same(vc, fk, paths)


def sym_rename_fields_pkg(vc):
    """rename_fields.func, package phase, per field of a selected resource:
         no pattern matches  -> the field descriptor is untouched and nothing is registered for the row phase
         some pattern matches-> name := sub(p, tgt, name) for a matching (p, tgt); the same (old -> new) pair is registered
                                for the row phase; a second field renamed to the same name is rejected (AssertionError)"""
    import z3
    from pyvc.api import (real_function, LoopSpec, check, cover, SpecModule, sym_row, term, StrS)
    from pyvc import lib
    from contracts.common import mk_package2, search_loop, tree_writes_under
    fk = vc.under_contract(P + 'rename_fields.py', ['rename_fields', 'func'])
    spec = SpecModule('def any_match(field_res, name):\n    return any(src.fullmatch(name) for src, tgt in field_res)\n')
    for regex in (True, False):
        def thunk(it, regex=regex):
            maker = real_function(it, 'dataflows.processors.rename_fields', 'rename_fields')
            mapping = sym_row(it, 'mapping')
            func = it.call(maker, [mapping], dict(resources=None, regex=regex))
            package = mk_package2(it)
            sp = spec.bind(it)
            st = {}
            it.path.info['allowed_exc'] = {'AssertionError': z3.BoolVal(True)}

            def anyt(it, env):
                return it.truth(it.call(sp.attrs['any_match'], [env.lookup('field_res'), st['old']]))

            def cond_of(it, env, pair):
                return lib.RE_FULLMATCH(term(pair[0].pattern, StrS), st['old'].t)

            def f_start(it, env, sf):
                if 'compiled' not in st:
                    st['compiled'] = True
                    check(it, 'patterns-compiled-as-given[regex=%s]' % regex, compiled_as_given(it, env.lookup('field_res'), regex, pair=True))
                st['sf'] = sf
                st['old'] = sf.children['name']
                st['hit'] = None
                return sf

            def s_break(it, env, pair, events):
                st['hit'] = pair

            def f_end(it, env, sf, events):
                a = anyt(it, env)
                ws = [e for e in tree_writes_under(events, sf) if e.kind == 'TreeWrite']
                regs = [e for e in events if e.kind == 'Call' and e.method == '__setitem__']
                if st['hit'] is None:
                    check(it, 'unmatched-field-untouched[regex=%s]' % regex, z3.And(z3.Not(a), _b(not ws and not regs)))
                else:
                    p, tgt = st['hit']
                    new = lib.RE_EXPAND(term(p.pattern, StrS), term(tgt, StrS), st['old'].t)      # target expanded on the full match
                    ok_w = len(ws) == 1 and ws[0].key == 'name' and ws[0].node is sf
                    check(it, 'matched-field-renamed-by-a-matching-pattern[regex=%s]' % regex,
                          z3.And(a, _b(ok_w), term(ws[0].value, StrS) == new) if ok_w else False)
                    ok_r = len(regs) == 1 and len(regs[0].args) == 2
                    check(it, 'same-pair-registered-for-the-row-phase[regex=%s]' % regex,
                          z3.And(term(regs[0].args[0], StrS) == st['old'].t, term(regs[0].args[1], StrS) == new) if ok_r else False)
                cover(it, 'field-iter-reachable[regex=%s]' % regex)
            sl = search_loop(anyt, cond_of, 'regex=%s' % regex, keep=('sf',),
                             state_unchanged=lambda it, env, events: not [e for e in events if e.kind in ('TreeWrite', 'Call')])
            orig_break = sl.at_break

            def at_break(it, env, x, events):
                st['hit'] = x
                orig_break(it, env, x, events)
            sl.at_break = at_break
            it.loops['func#L0'] = LoopSpec()
            it.loops['func#L1'] = LoopSpec(at_start=f_start, at_end=f_end)
            it.loops['func#L2'] = sl
            it.loops['func#L3'] = LoopSpec(modes=('exit',))
            it.run_generator(it.call(func, [package]))
        paths = vc.explore(fk, thunk, min_paths=5)
        expect_no_raise_or_same(vc, fk, paths)


def sym_computed_pkg(vc):
    """add_computed_field.func, package phase: the new field descriptors are appended (in spec order) to the schema of
    each selected resource; a target given as a name gets the inferred type; nothing else in the descriptor is written"""
    import z3
    from pyvc.api import real_function, LoopSpec, check, cover, sym_str, PyDict, PyList, str_seq, SymList
    from contracts.common import mk_package2, tree_writes_under
    fk = vc.under_contract(P + 'add_computed_field.py', ['add_computed_field', 'func'])
    vc.under_contract(P + 'add_computed_field.py', ['get_new_fields'])
    def mutable_parts(v, acc=None):
        acc = {} if acc is None else acc
        if isinstance(v, (PyDict, PyList)) and id(v) not in acc:
            acc[id(v)] = v
            for x in (v.d.values() if isinstance(v, PyDict) else v.items):
                mutable_parts(x, acc)
        return acc
    for tkind in ('name', 'spec', 'spec-nested', 'name-inferred'):
        def thunk(it, tkind=tkind):
            maker = real_function(it, 'dataflows.processors.add_computed_field', 'add_computed_field')
            tname = sym_str(it, 'target')
            if tkind == 'name-inferred':
                return thunk_inferred(it, maker, tname)
            target = tname if tkind == 'name' else PyDict({'name': tname, 'type': sym_str(it, 'ttype')})
            if tkind == 'spec-nested':
                # a field descriptor with structured properties (constraints, a list of enum values)
                target.d['constraints'] = PyDict({'minimum': 0, 'enum': PyList([1, 2])})
            f0 = PyDict({'target': target, 'operation': 'format', 'with': sym_str(it, 'fmt')})
            func = it.call(maker, [PyList([f0])], dict(resources=None))
            package = mk_package2(it)

            def res_start(it, env, rd):
                return rd

            def res_end(it, env, rd, events):
                ws = tree_writes_under(events, rd)
                apps = [e for e in ws if e.kind == 'Append']
                ok = len(ws) == 1 and len(apps) == 1 and apps[0].obj is rd.children['schema'].children['fields']
                check(it, 'exactly-one-field-appended-to-schema.fields[%s]' % tkind, ok)
                if ok:
                    v = apps[0].value
                    d = dict(v[1:]) if isinstance(v, tuple) and v and v[0] == 'dict' else None
                    check(it, 'appended-descriptor-has-target-name[%s]' % tkind, d is not None and d.get('name') is tname and
                          (d.get('type') == 'string' if tkind == 'name' else len(d) == (2 if tkind == 'spec' else 3)))
                    # every resource gets a field descriptor OF ITS OWN: the object appended here is created for this
                    # resource, it is not the caller's spec dict (which would then sit in several schemas at once, so that
                    # a later in-place edit of one resource's field reaches the others -- C10 / C15)
                    raw = getattr(apps[0], 'raw', None)
                    check(it, 'appended-descriptor-is-not-shared-with-other-resources[%s]' % tkind,
                          raw is not None and raw is not target and raw is not f0.d.get('target'))
                    if tkind == 'spec-nested':
                        # ... all the way down: no dict / list inside it is one of the caller's (or, through it, another resource's)
                        check(it, 'nothing-inside-the-appended-descriptor-is-shared-either[%s]' % tkind, raw is not None and
                              not (set(mutable_parts(raw)) & set(mutable_parts(target))))
                cover(it, 'resource-iter-reachable[%s]' % tkind)
            it.loops['func#L0'] = LoopSpec(at_start=res_start, at_end=res_end)
            it.loops['func#L1'] = LoopSpec(modes=('exit',))
            it.run_generator(it.call(func, [package]))
            # the caller's specification is read, never rewritten (a second use of the same spec must behave like the first)
            check(it, 'callers-specification-left-as-given[%s]' % tkind, f0.d['target'] is target and
                  set(f0.d) == {'target', 'operation', 'with'})
        paths = vc.explore(fk, thunk, min_paths=2)
        expect_no_raise_or_same(vc, fk, paths)


def thunk_inferred(it, maker, tname):
    """a target given by name, an arithmetic operation: the type written into a resource's schema is the one get_type
    (under its own contract, item add_computed_field.get_type -- here an uninterpreted function of its arguments) gives for
    THAT resource's fields, the spec's source and operation -- for an arbitrary resource of an arbitrary package, so a type
    worked out from another resource's schema (or once per package) fails here"""
    from pyvc.api import LoopSpec, check, cover, sym_str, PyDict, PyList, wrap, StrS
    from pyvc.values import Builtin
    from contracts.common import mk_package2, tree_writes_under
    m = it.module('dataflows.processors.add_computed_field')
    calls = []

    def get_type_stub(it_, res_fields, operation_fields, operation):
        r = wrap(it_.fresh('inferred_type', StrS))
        calls.append((res_fields, operation_fields, operation, r))
        return r
    m.attrs['get_type'] = Builtin('get_type', get_type_stub)
    source = PyList([sym_str(it, 'src0'), sym_str(it, 'src1')])
    f0 = PyDict({'target': tname, 'operation': 'sum', 'source': source})
    func = it.call(maker, [PyList([f0])], dict(resources=None))
    package = mk_package2(it)

    def res_start(it, env, rd):
        del calls[:]
        return rd

    def res_end(it, env, rd, events):
        ws = tree_writes_under(events, rd)
        apps = [e for e in ws if e.kind == 'Append']
        ok = len(ws) == 1 and len(apps) == 1 and apps[0].obj is rd.children['schema'].children['fields']
        check(it, 'exactly-one-field-appended-to-schema.fields[name-inferred]', ok)
        if ok:
            v = apps[0].value
            d = dict(v[1:]) if isinstance(v, tuple) and v and v[0] == 'dict' else None
            mine = [c for c in calls if c[0] is rd.children['schema'].children['fields']]
            check(it, 'type-inferred-from-this-resources-own-fields[name-inferred]', d is not None and len(mine) == 1 and
                  len(calls) == 1 and mine[0][1] is source and mine[0][2] == 'sum' and d.get('name') is tname and
                  d.get('type') is mine[0][3])
        cover(it, 'resource-iter-reachable[name-inferred]')
    it.loops['func#L0'] = LoopSpec(at_start=res_start, at_end=res_end)
    it.loops['func#L1'] = LoopSpec(modes=('exit',))
    it.run_generator(it.call(func, [package]))


SELECT_SPEC = '''
def select_spec(fields, patterns, match):
    remaining = list(fields)
    out = []
    for p in patterns:
        keep = []
        for f in remaining:
            if match(p, f['name']):
                out.append(f)
            else:
                keep.append(f)
        remaining = keep
    return out
'''


def sym_select_fields_pkg(vc):
    """select_fields.func package phase -- BOUNDED (structure unrolled: <= 3 schema fields x <= 2 patterns, contents symbolic):
    schema.fields' = for each pattern in order, the not-yet-taken fields it matches, in schema order; the names handed to
    the row phase are exactly the names of schema.fields'; no field twice."""
    import z3
    from pyvc.api import (real_function, LoopSpec, check, cover, SpecModule, sym_str, PyList, PyDict, Tree, UFunc, wrap, term,
                          StrS, SymList, SymSeq, IntS)
    from pyvc import lib
    from contracts.common import mk_package2, field_tree, tree_writes_under
    fk = vc.under_contract(P + 'select_fields.py', ['select_fields', 'func'])
    spec = SpecModule(SELECT_SPEC)
    vc.bounded_label = 'select_fields package phase'
    vc.bounded_notes.append('select_fields.func package phase: schema field list unrolled for 0..3 fields with pairwise distinct '
                            'symbolic names, 1..2 symbolic patterns, regex on/off; decided by z3 for all contents of these shapes')
    try:
        for nf in (0, 1, 2, 3):
            for npat in (1, 2):
                for regex in (True, False):
                    def thunk(it, nf=nf, npat=npat, regex=regex):
                        maker = real_function(it, 'dataflows.processors.select_fields', 'select_fields')
                        pats = PyList([sym_str(it, 'pat%d' % j) for j in range(npat)])
                        func = it.call(maker, [pats], dict(resources=None, regex=regex))
                        package = mk_package2(it)
                        flds = [field_tree(it, 'fld%d' % j) for j in range(nf)]
                        for a in range(nf):
                            for b in range(a + 1, nf):
                                it.assume(flds[a].children['name'].t != flds[b].children['name'].t)
                        it.path.info['allowed_exc'] = {'AssertionError': z3.BoolVal(True)}

                        def match(it_, a, k):
                            eff = term(a[0], StrS) if regex else lib.RE_ESCAPE(term(a[0], StrS))
                            return wrap(lib.RE_FULLMATCH(eff, term(a[1], StrS)))
                        sp = spec.bind(it)

                        def res_start(it, env, rd):
                            lst = PyList(list(flds))
                            sch = lib.tree_child(it, rd, 'schema')
                            lst.parent = sch
                            sch.children['fields'] = lst
                            for f in flds:
                                f.parent = lst
                            return rd

                        def res_end(it, env, rd, events):
                            want = it.call(sp.attrs['select_spec'], [PyList(list(flds)), pats, UFunc('match', match)])
                            nfl = env.lookup('new_fields')
                            ws = [e for e in tree_writes_under(events, rd) if e.kind == 'TreeWrite']
                            check(it, 'schema-fields-are-the-selection-in-order[%d,%d,%s]' % (nf, npat, regex),
                                  len(ws) == 1 and ws[0].key == 'fields' and ws[0].value is nfl and
                                  len(nfl.items) == len(want.items) and all(a is b for a, b in zip(nfl.items, want.items)))
                            conf = env.lookup('configuration')
                            ent = [v for k, v in conf.d.items() if k is rd.children['name']]
                            k = z3.Const('k', StrS)
                            names = z3.K(StrS, z3.BoolVal(False))
                            for f in want.items:
                                names = z3.Store(names, f.children['name'].t, z3.BoolVal(True))
                            check(it, 'row-phase-gets-exactly-the-selected-names[%d,%d,%s]' % (nf, npat, regex),
                                  (ent[0].arr == names) if len(ent) == 1 and ent[0].elem_sort is not None else
                                  _b(len(ent) == 1 and not want.items))
                            cover(it, 'reachable[%d,%d,%s]' % (nf, npat, regex))
                        it.loops['func#L0'] = LoopSpec(at_start=res_start, at_end=res_end, keep=('configuration',))
                        it.loops['func#L3'] = LoopSpec(modes=('exit',))
                        it.run_generator(it.call(func, [package]))
                    paths = vc.explore(fk, thunk, min_paths=2)
                    expect_no_raise_or_same(vc, fk, paths)
    finally:
        vc.bounded_label = None


# ------------------------------------------------------------------------------------------------ native differentials

def nat_rows(h):
    import importlib
    df, sf, rf = [importlib.import_module('dataflows.processors.' + m) for m in ('delete_fields', 'select_fields', 'rename_fields')]
    sp = h.spec(SPEC, re_sub=__import__('re').sub)
    keys = h.KEYS
    for _ in range(h.n()):
        rows = h.rows(keys=keys)
        names = h.subset(keys, 0.5)
        want = [r for row in rows for r in sp['restrict'](row, names)]
        got = list(df.process_resource(iter(rows), names))
        h.check(got == want and all(a is not b for a, b in zip(got, rows)), P + 'delete_fields.py::process_resource', (rows, names), want, got)

        class RW:
            def __init__(self, rows):
                class R:
                    descriptor = {'name': 'res'}
                self.res = R()
                self.rows = rows

            def __iter__(self):
                return iter(self.rows)
        got = list(sf.process_resource(RW(rows), {'res': set(names), 'other': set(keys)}))
        h.check(got == want, P + 'select_fields.py::process_resource', (rows, names), want, got)
        ren = {k: h.rng.choice(['z', 'y', 'a', k + '_']) for k in h.subset(keys, 0.4)}
        want = [r for row in rows for r in sp['rename'](row, ren)]
        got = list(rf.process_resource(iter(rows), ren))
        ok = got == want
        # stronger oracle where the rename is injective on the row's keys: every value is kept under its new name
        for row, out in zip(rows, got):
            new = [ren.get(k, k) for k in row]
            if len(set(new)) == len(new):
                ok = ok and all(out[ren.get(k, k)] == v for k, v in row.items()) and len(out) == len(row)
        h.check(ok, P + 'rename_fields.py::process_resource', (rows, ren), want, got)


def nat_computed(h):
    from dataflows.processors.add_computed_field import process_resource
    sp = h.spec(SPEC)
    keys = ['a', 'b', 'c']
    nums = [None, 0, 1, 2, -3, 2.5]
    for _ in range(h.n()):
        rows = h.rows(keys=keys, vals=nums)
        op = h.rng.choice(OPS + ['callable'])
        if op == 'callable':
            f = {'target': {'name': 't'}, 'operation': (lambda row: sorted(row.items(), key=repr).__repr__())}
        else:
            f = {'target': {'name': 't'}, 'operation': op, 'source': h.subset(keys, 0.7),
                 ('with' if h.rng.random() < 0.5 else 'with_'): h.rng.choice(['-', '{a}/{b}', 'k'])}
        fields = [f]
        if h.rng.random() < 0.3:
            fields.append({'target': {'name': 'u'}, 'operation': 'format', 'with': '{t}'})
        want = h.run(lambda: [r for row in [dict(x) for x in rows] for r in sp['computed_step'](row, fields)])
        inp = [dict(x) for x in rows]
        got = h.run(lambda: list(process_resource(fields, iter(inp))))
        ok = want[0] == got[0] and (want[1] == got[1])
        if ok and got[0] == 'ok':
            ok = all(a is b for a, b in zip(got[1], inp))
        h.check(ok, P + 'add_computed_field.py::process_resource', (rows, fields if op != 'callable' else op), want[:2], got[:2])


def nat_find_replace(h):
    import re
    from dataflows.processors.find_replace import _find_replace
    sp = h.spec(SPEC, re_sub=re.sub)
    for _ in range(h.n()):
        rows = h.rows(keys=['a', 'b'], vals=['abc', 'a-b', '', 'xx', 5, None], total=h.rng.random() < 0.8)
        pats = [{'find': h.rng.choice(['a', 'b+', '-', '^x', '(a)(b)']), 'replace': h.rng.choice(['', 'Z', r'\\1'])}
                for _ in range(h.rng.randint(0, 2))]
        fields = [{'name': h.rng.choice(['a', 'b']), 'patterns': pats}]
        want = h.run(lambda: [r for row in [dict(x) for x in rows] for r in sp['find_replace_step'](row, fields)])
        got = h.run(lambda: list(_find_replace(iter([dict(x) for x in rows]), fields)))
        h.check(want[:2] == got[:2], P + 'find_replace.py::_find_replace', (rows, fields), want[:2], got[:2])
    # the operation is applied to str(value) of THAT row: values that compare equal in Python but print differently
    # (1 / True / 1.0 / Decimal('1.0'), 1.5 / Decimal('1.50')) each get their own result, whatever the rows before them held
    import decimal
    odd = [decimal.Decimal('1.50'), decimal.Decimal('1.5'), 1, True, 1.0, decimal.Decimal('1'), 0, False, 2, decimal.Decimal('2.000'), 'x.y', None]
    for _ in range(h.n(20, 200)):
        vals = [h.rng.choice(odd) for _i in range(h.rng.randint(2, 8))]
        rows = [{'a': v, 'b': i} for i, v in enumerate(vals)]
        fields = [{'name': 'a', 'patterns': [{'find': r'\.', 'replace': ','}, {'find': 'True', 'replace': 'yes'}]}]
        want = [{'a': (None if v is None else re.sub('True', 'yes', re.sub(r'\.', ',', str(v)))), 'b': i} for i, v in enumerate(vals)]
        got = h.run(lambda: list(_find_replace(iter([dict(x) for x in rows]), fields)))
        h.check(got[0] == 'ok' and got[1] == want and all(type(a['a']) is type(b['a']) for a, b in zip(got[1], want)),
                P + 'find_replace.py::_find_replace', ('equal values that print differently', vals), want, got[:2])


def nat_lockstep(h):
    """bounded end-to-end lockstep: after the step, schema field names == keys of every row, order rule, values kept"""
    import re
    from dataflows import Flow, delete_fields, select_fields, rename_fields, add_field, add_computed_field, find_replace
    names = ['a', 'ab', 'b', 'a.b', 'x1', 'x2']
    for _ in range(h.n(30, 300)):
        cols = h.rng.sample(names, h.rng.randint(2, 5))
        rows = [{c: '%s%d' % (c, i) for c in cols} for i in range(h.rng.randint(1, 4))]
        kind = h.rng.choice(['delete', 'select', 'rename', 'add_field', 'computed', 'find_replace'])
        regex = h.rng.random() < 0.5
        pick = h.rng.sample(cols, h.rng.randint(1, len(cols)))
        if kind == 'delete':
            step = delete_fields(pick if not regex else [re.escape(p) for p in pick], regex=regex)
            exp_fields = [c for c in cols if c not in pick]
            exp_rows = [{c: r[c] for c in exp_fields} for r in rows]
        elif kind == 'select':
            if h.rng.random() < 0.4:
                # overlapping patterns: a field matched by several patterns is selected once, at its first pattern
                regex = True
                sel = [re.escape(pick[0]), '.*'] if h.rng.random() < 0.5 else [re.escape(pick[0]), re.escape(pick[0]) + '.*']
                step = select_fields(sel, regex=True)
                exp_fields = []
                for pt in sel:
                    exp_fields += [c for c in cols if re.fullmatch(pt, c) and c not in exp_fields]
                pick = exp_fields
            else:
                step = select_fields(pick if not regex else [re.escape(p) for p in pick], regex=regex)
            exp_fields = list(pick)
            exp_rows = [{c: r[c] for c in exp_fields} for r in rows]
        elif kind == 'rename':
            ren = {p: p + '_new' for p in pick}
            step = rename_fields(ren if not regex else {re.escape(k): v for k, v in ren.items()}, regex=regex)
            exp_fields = [ren.get(c, c) for c in cols]
            exp_rows = [{ren.get(c, c): r[c] for c in cols} for r in rows]
        elif kind == 'add_field':
            step = add_field('new', 'string', 'dflt')
            exp_fields = cols + ['new']
            exp_rows = [dict(r, new='dflt') for r in rows]
        elif kind == 'computed':
            step = add_computed_field(target='new', operation='join', source=pick, with_='|')
            exp_fields = cols + ['new']
            exp_rows = [dict(r, new='|'.join(r[c] for c in pick)) for r in rows]
        else:
            step = find_replace([dict(name=pick[0], patterns=[dict(find='\\d', replace='#')])])
            exp_fields = cols
            exp_rows = [dict(r, **{pick[0]: re.sub('\\d', '#', r[pick[0]])}) for r in rows]
        got = h.run(lambda: Flow([dict(r) for r in rows], step).results())
        if got[0] != 'ok':
            h.check(False, P + kind, (kind, cols, pick, regex), 'no exception', got[:2])
            continue
        res, dp, _ = got[1]
        fields = [f['name'] for f in dp.descriptor['resources'][0]['schema']['fields']]
        ok = fields == exp_fields and res[0] == exp_rows and all(set(r) == set(fields) for r in res[0])
        h.check(ok, P + kind, (kind, cols, pick, regex), (exp_fields, exp_rows), (fields, res[0]))
    # two resources edited by one field-level step, then a second step restricted to ONE of them: the other resource's schema
    # and rows must stay in lockstep (a field descriptor must not be shared between the resources)
    from dataflows import set_type
    for first in (lambda: add_field('x', 'integer', 5), lambda: add_computed_field(target=dict(name='x', type='integer'), operation='constant', with_=5),
                  lambda: add_computed_field(target='x', operation='constant', with_='5')):
        for second, what in ((lambda: rename_fields({'x': 'y'}, resources='res_1'), 'rename'),
                             (lambda: set_type('x', type='string', resources='res_1', transform=str), 'set_type')):
            got = h.run(lambda: Flow([{'a': 1}, {'a': 2}], [{'a': 3}], first(), second()).results(on_error=None))
            if got[0] != 'ok':
                continue
            res, dp, _ = got[1]
            for rows_, rd in zip(res, dp.descriptor['resources']):
                fields = [f['name'] for f in rd['schema']['fields']]
                ok = all(set(r) == set(fields) for r in rows_)
                if rd['name'] == 'res_2':
                    ok = ok and fields == ['a', 'x'] and [f['type'] for f in rd['schema']['fields']][1] in ('integer', 'string', 'any')
                    if what == 'set_type' and first is not None:
                        ok = ok and rd['schema']['fields'][1]['type'] != 'string' or rows_ and isinstance(rows_[0]['x'], str)
                h.check(ok, P + 'add_computed_field.py::get_new_fields', (what, rd['name']), 'schema of the untouched resource unchanged, rows match it',
                        (fields, rows_[:1]))
    # several selected resources: a step either refuses (an error), or EVERY selected resource ends up with schema names == row keys,
    # no value lost.  A rename onto a name another field of the same resource already has cannot be carried out on dict rows, in
    # whichever resource it happens
    tables = {'plain': [{'a': 1, 'c': 3}], 'clash': [{'a': 1, 'b': 2, 'c': 3}]}
    for order in (('clash', 'plain'), ('plain', 'clash'), ('plain', 'clash', 'plain'), ('plain', 'plain')):
        for mk, what in ((lambda: rename_fields({'a': 'b'}), 'rename a->b'), (lambda: rename_fields({'(a)': r'b'}, regex=True), 'rename (a)->b'),
                         (lambda: delete_fields(['b'], regex=False), 'delete b'), (lambda: select_fields(['a', 'c']), 'select a, c')):
            got = h.run(lambda: Flow(*[[dict(r) for r in tables[t]] for t in order], mk()).results(on_error=None))
            if got[0] != 'ok':
                continue          # refused: loud, not wrong
            res, dp, _ = got[1]
            ok = True
            for rows_, rd, t in zip(res, dp.descriptor['resources'], order):
                fields = [f['name'] for f in rd['schema']['fields']]
                ok = ok and len(set(fields)) == len(fields) and all(list(r) == fields or set(r) == set(fields) for r in rows_)
                if what.startswith('rename'):
                    ok = ok and all(sorted(r.values()) == sorted(tables[t][0].values()) for r in rows_)
            h.check(ok, P + 'rename_fields.py::rename_fields.func', (what, order), 'refused, or every resource in lockstep with no value lost',
                    [([f['name'] for f in rd['schema']['fields']], rows_) for rows_, rd in zip(res, dp.descriptor['resources'])])
    # the same specification used twice (the same list handed to two flows; a flow object run again): the second use must
    # declare the same schema as the first
    spec = [dict(target='total', operation='sum', source=['a', 'b'])]
    outs = []
    for _use in range(2):
        got = h.run(lambda: Flow([{'a': 1, 'b': 2}], add_computed_field(spec)).results(on_error=None))
        outs.append([(f['name'], f.get('type')) for f in got[1][1].descriptor['resources'][0]['schema']['fields']] if got[0] == 'ok' else got[:2])
    h.check(outs[0] == outs[1], P + 'add_computed_field.py::add_computed_field.func', 'same spec list used twice', outs[0], outs[1])
    f = Flow([{'a': 1, 'b': 2}], add_computed_field(target='total', operation='sum', source=['a', 'b']))
    r1, r2 = h.run(lambda: f.results()), h.run(lambda: f.results())
    h.check(r1[0] == 'ok' and r2[0] == 'ok' and r1[1][0] == r2[1][0] and r1[1][1].descriptor == r2[1][1].descriptor,
            P + 'add_computed_field.py::add_computed_field.func', 'same flow object run twice', r1[:1], r2[:2])


from contracts import C10 as _K10   # noqa: E402  (ResourceMatcher: the contract every selector-taking step is checked against)

def nat_lockstep_multi(h):
    """bounded: ONE field-level step over SEVERAL resources whose field sets differ: every resource's schema and rows are edited by
    what the step selects IN THAT RESOURCE (patterns match different fields in different resources)"""
    import re
    from dataflows import Flow, delete_fields, select_fields, rename_fields
    pool = ['id', 'score_1', 'score_2', 'name', 'ab', 'abc', 'x']
    for _ in range(h.n(40, 400)):
        nres = h.rng.randint(2, 3)
        colsets = [['id'] + h.rng.sample(pool[1:], h.rng.randint(1, 4)) for _ in range(nres)]
        data = [[{c: '%s%d%d' % (c, k, i) for c in cols} for i in range(h.rng.randint(1, 3))] for k, cols in enumerate(colsets)]
        kind = h.rng.choice(['select', 'delete', 'rename'])
        pats = h.rng.choice([['id', r'score_\d'], ['id', 'ab.*'], ['id', 'name', 'x'], ['id', '.*']])
        if kind == 'select':
            step = select_fields(pats)
            exp = [[c for pt in pats for c in cols if re.fullmatch(pt, c)] for cols in colsets]
            exp = [list(dict.fromkeys(e)) for e in exp]
            ren = None
        elif kind == 'delete':
            pats = pats[1:]
            if not any(re.fullmatch(pt, c) for pt in pats for cols in colsets for c in cols):
                continue
            step = delete_fields(pats)
            exp = [[c for c in cols if not any(re.fullmatch(pt, c) for pt in pats)] for cols in colsets]
            ren = None
        else:
            ren = {'score_1': 's1', 'name': 'label'}
            if not any(c in ren for cols in colsets for c in cols):
                continue
            step = rename_fields(ren, regex=False)
            exp = [[ren.get(c, c) for c in cols] for cols in colsets]
        got = h.run(lambda: Flow(*[[dict(r) for r in rows] for rows in data], step).results(on_error=None))
        if got[0] != 'ok':
            # a step may refuse a resource in which it finds nothing to do; it must not do so when every resource has a match
            every = all(any(re.fullmatch(pt, c) for pt in pats for c in cols) for cols in colsets) if kind != 'rename' else \
                all(any(c in ren for c in cols) for cols in colsets)
            h.check(not every, P + kind + '_fields.py', (kind, colsets, pats), 'no exception', got[:2])
            continue
        res, dp, _ = got[1]
        for k, cols in enumerate(colsets):
            fields = [f['name'] for f in dp.descriptor['resources'][k]['schema']['fields']]
            if kind == 'select':
                want_rows = [{c: r[c] for c in exp[k]} for r in data[k]]
                ok = fields == exp[k] and res[k] == want_rows
            elif kind == 'delete':
                want_rows = [{c: r[c] for c in exp[k]} for r in data[k]]
                ok = fields == exp[k] and res[k] == want_rows
            else:
                want_rows = [{ren.get(c, c): v for c, v in r.items()} for r in data[k]]
                ok = fields == exp[k] and res[k] == want_rows
            h.check(ok, P + kind + '_fields.py', (kind, colsets, pats, 'resource %d' % k), (exp[k], want_rows), (fields, res[k]))


ITEMS = [
    _K10._mk_matcher_item(),
    Item('delete_fields.process_resource', sym_delete_rows, [('differential', nat_rows)], P + 'delete_fields.py::process_resource',
         replay=_replay_rows('delete')),
    Item('select_fields.process_resource', sym_select_rows, [], P + 'select_fields.py::process_resource'),
    Item('rename_fields.process_resource', sym_rename_rows, [], P + 'rename_fields.py::process_resource', replay=_replay_rows('rename')),
    Item('add_computed_field.process_resource', sym_computed_rows, [('differential', nat_computed)],
         P + 'add_computed_field.py::process_resource'),
    Item('find_replace._find_replace', sym_find_replace_rows, [('differential', nat_find_replace)],
         P + 'find_replace.py::_find_replace'),
    Item('add_field', sym_add_field, [], P + 'add_field.py::add_field'),
    Item('delete_fields.package-phase', sym_delete_fields_pkg, [], P + 'delete_fields.py::delete_fields.func'),
    Item('rename_fields.package-phase', sym_rename_fields_pkg, [], P + 'rename_fields.py::rename_fields.func'),
    Item('select_fields.package-phase', sym_select_fields_pkg, [], P + 'select_fields.py::select_fields.func'),
    Item('add_computed_field.package-phase', sym_computed_pkg, [], P + 'add_computed_field.py::add_computed_field.func'),
    Item('lockstep', None, [('end-to-end', nat_lockstep), ('several-resources', nat_lockstep_multi)], None),
]

from contracts import reuse as _REUSE   # noqa: E402
ITEMS.append(Item('second-use', None, [('catalogue', _REUSE.nat_second_use_for('C15'))], 'dataflows/processors/add_computed_field.py::add_computed_field.func'))
