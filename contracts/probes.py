"""contracts/probes.py -- bounded conformance probes of the TRUSTED BASE (DESIGN 7): every assumed contract of a dependency that the
proofs of a property rest on (T2 re, T3 deepcopy, T4 datapackage, T5 tableschema casts, T6 kvfile, T7 bitstring, T8 json, T9 csv,
T10 strftime/strptime, T13 file positions) is exercised against the INSTALLED library under the repository's interpreter.

A probe decides nothing about dataflows.  A probe that fails says that an assumption the obligations were discharged under does
not hold on this installation: the check then reports the dependent property as UNDECIDED (level `other`, reason
`TRUSTED-BASE PROBE FAILED`), never as a violation and never as proved.  T1 (the engine's model of Python), T11 / T12 (POSIX rename,
queue linearizability), T14 / T15 (SQL storage, tabulator) and T16 (the solvers) have no probe here; they stay listed as unchecked.
"""
from contracts.common import Item


def _t2_re(h):
    import re
    names = ['a', 'ab', 'a.b', 'a|b', 'x*', '(q)', 'a\n', '', 'res_1', '[k]', 'é', 'a b', '^a$', 'a\\d']
    for x in names:
        for s in names:
            # the one ground fact the engine adds about re (literal matching through the regex path)
            h.check((re.compile(re.escape(x)).fullmatch(s) is not None) == (x == s), 'T2', ('fullmatch(escape(x), s) <-> x == s', x, s),
                    x == s, re.compile(re.escape(x)).fullmatch(s) is not None)
    for p, s in (('a|b', 'ab'), ('a', 'a\n'), ('a.*', 'ab'), ('.*', ''), ('a', 'ab')):
        # fullmatch is a function of (pattern, text) and differs from anchored match exactly where the contracts say so
        h.check((re.fullmatch(p, s) is not None) == (re.compile(p).fullmatch(s) is not None), 'T2', ('fullmatch deterministic', p, s), None, None)
    h.check(re.sub('a', 'b', 'banana') == 'bbnbnb' and re.sub(r'(\d)', r'<\1>', 'a1') == 'a<1>', 'T2', 're.sub', None, None)


def _t3_deepcopy(h):
    import copy
    for _ in range(h.n(40, 400)):
        def gen(d):
            k = h.rng.randint(0, 4 if d > 0 else 2)
            if k == 0:
                return h.rng.choice([None, 1, 'x', 2.5, True])
            if k == 1:
                return 's%d' % h.rng.randint(0, 9)
            if k == 2:
                return h.rng.randint(-5, 5)
            if k == 3:
                return [gen(d - 1) for _ in range(h.rng.randint(0, 3))]
            return {'k%d' % i: gen(d - 1) for i in range(h.rng.randint(0, 3))}
        t = gen(3)
        c = copy.deepcopy(t)

        def disjoint(a, b):
            if isinstance(a, (list, dict)):
                if a is b:
                    return False
                items = zip(a, b) if isinstance(a, list) else [(a[k], b[k]) for k in a]
                return all(disjoint(x, y) for x, y in items)
            return True
        h.check(c == t and disjoint(t, c), 'T3', repr(t)[:200], 'equal and disjoint', None)
    # internal sharing is PRESERVED by deepcopy (the reason a descriptor sub-tree shared by two resources stays shared, R5)
    s = {'fields': []}
    t = {'resources': [{'schema': s}, {'schema': s}]}
    c = copy.deepcopy(t)
    h.check(c['resources'][0]['schema'] is c['resources'][1]['schema'] and c['resources'][0]['schema'] is not s, 'T3',
            'sharing inside the copied tree', 'preserved', None)


def _t4_datapackage(h):
    from datapackage import Package
    d = {'name': 'p', 'resources': [{'name': 'a', 'path': 'a.csv', 'schema': {'fields': [{'name': 'x', 'type': 'integer'}]}},
                                      {'name': 'b', 'path': 'b.csv', 'schema': {'fields': []}}]}
    import copy
    import os
    d0 = copy.deepcopy(d)
    p = Package(descriptor=d)

    def strip(t):
        if isinstance(t, dict):
            return {k: strip(v) for k, v in t.items() if k != 'profile'}
        return [strip(x) for x in t] if isinstance(t, list) else t
    # the package's tree is the one handed over or a copy of it that differs by the defaulted `profile` entries only; either way
    # the argument itself is not edited by the constructor
    h.check(strip(p.descriptor) == d0 and d == d0, 'T4', 'Package(descriptor=d).descriptor', 'd (modulo profile defaults), d untouched',
            (p.descriptor, d))
    h.check([r.name for r in p.resources] == ['a', 'b'] and p.get_resource('b').name == 'b' and p.get_resource('zz') is None, 'T4',
            'resources by position / get_resource by name / None for an unknown name', None, None)
    r0 = p.resources[0]
    r0.descriptor['title'] = 'only in the resource object'
    h.check('title' not in p.descriptor['resources'][0], 'T4', 'Resource.descriptor is a private copy', 'package tree untouched', p.descriptor['resources'][0])
    p.descriptor['resources'][1]['name'] = 'c'
    p.commit()
    h.check([r.name for r in p.resources] == ['a', 'c'], 'T4', 'commit() rebuilds the resources from the mutable tree', ['a', 'c'], [r.name for r in p.resources])
    h.check(os.path.normpath(p.resources[0].source) == 'a.csv', 'T4', 'Resource.source is the descriptor path (relative to the base path)',
            'a.csv', p.resources[0].source)


def _t5_cast(h):
    import datetime
    import decimal
    from tableschema import Field
    from tableschema.exceptions import CastError
    natives = {
        'integer': [0, 1, -5, 10 ** 12], 'number': [decimal.Decimal('1.5'), decimal.Decimal('-2'), 3, 2.5], 'string': ['', 'x', ' a '],
        'boolean': [True, False], 'date': [datetime.date(2020, 1, 2)], 'datetime': [datetime.datetime(2020, 1, 2, 3, 4, 5)],
        'time': [datetime.time(3, 4, 5)], 'array': [[1, 'a']], 'object': [{'a': 1}], 'any': [1, 'x', None],
    }
    for typ, vals in natives.items():
        f = Field({'name': 'f', 'type': typ})
        for v in vals:
            r = h.run(lambda: f.cast_value(v))
            # a native value of the declared type is accepted and comes back equal (idempotence of the cast on its own results)
            same = r[0] == 'ok' and (r[1] == v or (typ == 'string' and v == '' and r[1] is None))
            h.check(same, 'T5', (typ, repr(v)), repr(v), r[:2])
            if r[0] == 'ok' and r[1] is not None:
                r2 = h.run(lambda: f.cast_value(r[1]))
                h.check(r2[0] == 'ok' and r2[1] == r[1], 'T5', (typ, 'cast(cast(v))'), repr(r[1]), r2[:2])
        h.check(f.cast_value(None) is None, 'T5', (typ, None), None, None)
    for typ, bad in (('integer', 'x'), ('integer', True), ('number', 'y'), ('boolean', 1), ('date', '2020-13-01'), ('integer', 1.5)):
        f = Field({'name': 'f', 'type': typ})
        r = h.run(lambda: f.cast_value(bad))
        h.check(r[0] == 'exc' and isinstance(r[2], CastError), 'T5', (typ, repr(bad)), 'CastError', r[:2])
    f = Field({'name': 'f', 'type': 'string'}, missing_values=['', 'n/a'])
    h.check(f.cast_value('n/a') is None and f.cast_value('') is None and f.cast_value('x') == 'x', 'T5', 'missing values read as null', None, None)


def _t6_kvfile(h):
    from kvfile import KVFile
    sizes = [0, 1, 7] + ([10239, 10241] if h.tier == 'quick' else [10239, 10241, 25000])
    for n in sizes:
        db = KVFile()
        keys = ['%08x' % ((i * 7919) % (n or 1)) if n else None for i in range(n)]
        keys = sorted(set(k for k in keys if k is not None), key=lambda k: (hash(k) % 97, k))
        for k in keys:
            db.set(k, {'v': k})
        got = list(db.items())
        h.check([k for k, _ in got] == sorted(keys) and all(v == {'v': k} for k, v in got), 'T6', ('items() in key order, every pair once', n),
                len(keys), len(got))
        rev = list(db.items(reverse=True))
        h.check([k for k, _ in rev] == sorted(keys, reverse=True), 'T6', ('reverse=True is the exact reverse', n), None, None)
        if keys:
            h.check(db.get(keys[0]) == {'v': keys[0]}, 'T6', 'set then get', None, None)
        r = h.run(lambda: db.get('absent-key'))
        h.check(r[0] == 'exc' and r[1] == 'KeyError', 'T6', 'get of an absent key raises KeyError', 'KeyError', r[:2])
        h.check(db.get('absent-key', default=5) == 5, 'T6', 'get(key, default=..) answers with the default', 5, None)
        db.close()
    # insert_generator yields each pair back BEFORE it is serialised (what duplicate.saver has to defend against)
    db = KVFile()
    seen = []
    row = {'a': 1}
    for k, v in db.insert_generator(iter([('k1', row)]), batch_size=1000):
        seen.append(v is row)
        v['a'] = 2
    h.check(seen == [True] and list(db.items()) == [('k1', {'a': 2})], 'T6', 'insert_generator yields the very object, stores it later', None,
            (seen, list(db.items())))
    for bs in (1, 2, 1000):
        db = KVFile()
        db.insert(((('%04d' % i), i) for i in (3, 1, 2, 0)), batch_size=bs)
        h.check(list(db.items()) == [('%04d' % i, i) for i in range(4)], 'T6', ('insert independent of batch_size', bs), None, list(db.items()))
        db.close()


def _t7_bitstring(h):
    import struct
    from bitstring import BitArray
    vals = [0.0, -0.0, 1.0, -1.0, 1.5, 2.0 ** 53, -2.0 ** 53, 1e300, -1e300, 5e-324, float('inf'), float('-inf'), 3.141592653589793]
    for v in vals + [h.rng.uniform(-1e6, 1e6) for _ in range(h.n(30, 300))]:
        b = BitArray(float=v, length=64)
        want = struct.pack('>d', v).hex()
        h.check(b.hex == want and len(b.hex) == 16, 'T7', ('BitArray(float=v, length=64).hex is the big-endian binary64 pattern', repr(v)), want, b.hex)
        c = BitArray(float=v, length=64)
        c.invert(0)
        h.check(int(c.hex, 16) == int(want, 16) ^ (1 << 63), 'T7', ('invert(0) flips the sign bit (position 0 = most significant)', repr(v)), None, c.hex)
        c.invert(range(1, 64))
        h.check(int(c.hex, 16) == (int(want, 16) ^ (1 << 63)) ^ ((1 << 63) - 1), 'T7', 'invert(range(1, 64)) flips the other 63 bits', None, c.hex)


def _t8_json(h):
    import json
    for _ in range(h.n(60, 600)):
        def gen(d):
            k = h.rng.randint(0, 5 if d > 0 else 3)
            if k == 0:
                return h.rng.choice([None, True, False])
            if k == 1:
                return h.rng.choice(['', 'a\nb', 'é', '"q"', '\\', ' ', 'x' * 3])
            if k == 2:
                return h.rng.randint(-10 ** 12, 10 ** 12)
            if k == 3:
                return h.rng.choice([0.5, -1.25, 1e20, 3.0])
            if k == 4:
                return [gen(d - 1) for _ in range(h.rng.randint(0, 3))]
            return {h.rng.choice(['a', 'b', 'c d', 'é']): gen(d - 1) for _ in range(h.rng.randint(0, 3))}
        v = gen(3)
        for kw in ({}, {'ensure_ascii': False}, {'sort_keys': True}):
            s = json.dumps(v, **kw)
            h.check(json.loads(s) == v and '\n' not in s, 'T8', (repr(v)[:120], kw), 'round trip, one line', s[:120])


def _t9_csv(h):
    import csv
    import io
    cells = ['', 'a', 'a,b', 'say "hi"', 'x\ny', ' lead', 'trail ', 'é', ',', '""', 'a\r\nb']
    for _ in range(h.n(40, 400)):
        rows = [[h.rng.choice(cells) for _ in range(3)] for _ in range(h.rng.randint(1, 4))]
        buf = io.StringIO(newline='')
        w = csv.DictWriter(buf, ['a', 'b', 'c'])
        w.writeheader()
        for r in rows:
            w.writerow(dict(zip('abc', r)))
        text = buf.getvalue()
        back = list(csv.reader(io.StringIO(text, newline=''), delimiter=',', quotechar='"', doublequote=True, lineterminator='\r\n'))
        h.check(back == [['a', 'b', 'c']] + rows and text.endswith('\r\n'), 'T9', rows, rows, back[1:])


def _t10_strftime(h):
    import datetime
    import decimal
    import isodate
    from dataflows.helpers import extended_json as EJ
    for _ in range(h.n(60, 600)):
        y = h.rng.choice([1000, 1583, 1999, 2024, 9999])
        d = datetime.date(y, h.rng.randint(1, 12), h.rng.randint(1, 28))
        t = datetime.time(h.rng.randint(0, 23), h.rng.randint(0, 59), h.rng.randint(0, 59))
        dt = datetime.datetime.combine(d, t)
        h.check(datetime.datetime.strptime(d.strftime(EJ.DATE_F_FORMAT), EJ.DATE_P_FORMAT).date() == d, 'T10', ('date', str(d)), None, None)
        h.check(datetime.datetime.strptime(t.strftime(EJ.TIME_F_FORMAT), EJ.TIME_P_FORMAT).time() == t, 'T10', ('time', str(t)), None, None)
        h.check(datetime.datetime.strptime(dt.strftime(EJ.DATETIME_F_FORMAT), EJ.DATETIME_P_FORMAT) == dt, 'T10', ('datetime', str(dt)), None, None)
        dur = datetime.timedelta(days=h.rng.randint(0, 400), seconds=h.rng.randint(0, 86399))
        h.check(isodate.parse_duration(isodate.duration_isoformat(dur)) == dur, 'T10', ('duration', str(dur)), None, None)
        dec = decimal.Decimal(h.rng.choice(['0', '1.50', '-2E+3', '12345678901234567890.000000000123', '0.1']))
        h.check(decimal.Decimal(str(dec)) == dec, 'T10', ('Decimal(str(d)) == d', str(dec)), None, None)


def _t13_tell(h):
    import hashlib
    import os
    import tempfile
    texts = ['plain', 'é' * 3, 'a,b\r\n', '😀', 'x\ny', '']
    for _ in range(h.n(20, 200)):
        parts = [h.rng.choice(texts) for _ in range(h.rng.randint(0, 6))]
        with tempfile.NamedTemporaryFile('w+', newline='', encoding='utf-8', delete=False) as f:
            name = f.name
            for p in parts:
                f.write(p)
            pos = f.tell()
            f.seek(0)
            md5 = hashlib.md5()
            while True:
                chunk = f.read(1024)
                if not chunk:
                    break
                md5.update(chunk.encode('utf8'))
        raw = open(name, 'rb').read()
        os.unlink(name)
        h.check(pos == len(raw) == len(''.join(parts).encode('utf8')), 'T13', ('tell() after writes = bytes written', parts), len(raw), pos)
        h.check(md5.hexdigest() == hashlib.md5(raw).hexdigest(), 'T13', 'md5 over read(1024) chunks = md5 of the file', None, None)


PROBES = {'T2': _t2_re, 'T3': _t3_deepcopy, 'T4': _t4_datapackage, 'T5': _t5_cast, 'T6': _t6_kvfile, 'T7': _t7_bitstring, 'T8': _t8_json,
          'T9': _t9_csv, 'T10': _t10_strftime, 'T13': _t13_tell}
ITEM_NAME = 'trusted-base'


def probe_item(mod):
    """the probes of the assumptions a property module lists in TRUSTED (by their T-number)"""
    import re
    ids = []
    for t in getattr(mod, 'TRUSTED', []) or []:
        m = re.match(r'(T\d+)\b', t)
        if m and m.group(1) in PROBES and m.group(1) not in ids:
            ids.append(m.group(1))
    if not ids:
        return None
    return Item(ITEM_NAME, None, [('probe-%s' % i, PROBES[i]) for i in sorted(ids, key=lambda x: int(x[1:]))], None)
