"""contracts/streams.py -- contracts of the effect-protocol functions shared by C04, C05, C06, C07, C08, C19:
stream.py (stream / write / res_writer / func), checkpoint.py, finalizer, printer.

Trace vocabulary (events of a path):  Call(target, method, args)  Yield(value)  YieldFrom(src)  Drain(src)  Abandon.
A path explored with explore_abandon=True ends at every yield with the consumer never resuming (exception in a later
step, kill): commit events (close / rename / callback) must not occur on such paths.
"""
from contracts.common import fn_named
from contracts.common import (Item, mk_resource, mk_package, mk_package2, run_spec, ghost_row, expect_no_raise_or_same, _b)

P = 'dataflows/processors/'


def calls(events, method=None, target=None):
    out = []
    for e in events:
        if e.kind != 'Call':
            continue
        if method is not None and e.method != method:
            continue
        if target is not None and not (e.target == target or getattr(e.target, 'name', None) == target):
            continue
        out.append(e)
    return out


def tname(e):
    t = e.target
    return t if isinstance(t, str) else getattr(t, 'name', str(t))


# observations that change nothing: adding or removing one of them is not a change of the effect trace
BENIGN_CALLS = {'os.path.exists', 'os.path.isdir', 'os.path.isfile', 'os.path.getsize', 'os.path.getmtime', 'os.getcwd', 'os.getpid',
                'time.time', 'time.monotonic', 'os.stat', 'os.listdir'}
BENIGN_METHODS = {'tell', 'fileno', 'isatty', 'readable', 'writable', 'seekable', 'qsize', 'empty', 'full'}


def effect_names(events):
    """compact trace: names of effect events in order (pure observations are left out)"""
    out = []
    for e in events:
        if e.kind == 'Call':
            nm = tname(e) + ('.' + e.method if e.method != '__call__' else '')
            if nm in BENIGN_CALLS or e.method in BENIGN_METHODS:
                continue
            out.append(nm)
        elif e.kind in ('Yield', 'YieldFrom', 'Drain', 'Abandon', 'Exhausted', 'Pull'):
            out.append(e.kind)
    return out


# ------------------------------------------------------------------------------------------------ stream.py

def open_stream(it, file_kind='path'):
    """call the real stream(file); returns (func, file handle events so far, file value)"""
    from pyvc.api import real_function, sym_str, Opaque
    stream = real_function(it, 'dataflows.processors.stream', 'stream')
    if file_kind == 'path':
        file = sym_str(it, 'file')
    else:
        file = Opaque('file', 'user_file')
    n0 = len(it.path.events)
    func = it.call(stream, [file])
    return func, it.path.events[n0:], file


def sym_stream_setup(vc):
    """stream(file:str): creates the directory, opens <file>.active for writing, nothing else; a file object is used as is"""
    import z3
    from pyvc.api import check, term, StrS
    fk = vc.under_contract(P + 'stream.py', ['stream'])

    def thunk(it):
        func, evs, file = open_stream(it, 'path')
        names = effect_names(evs)
        check(it, 'setup-is-ensure-directory-then-open', [n for n in names if n != 'os.makedirs'] == ['open'] and names[-1:] == ['open'])
        op = calls(evs, target='open')
        if op:
            path, mode = op[0].objs
            import pyvc.loader as L
            dn = z3.Function('os.path.dirname', StrS, StrS)
            mkb = calls(evs[:evs.index(op[0])], target='os.makedirs')
            active = z3.Concat(file.t, z3.StringVal('.active'))
            check(it, 'directory-of-the-active-file-ensured-before-open',
                  z3.Or(L.FS_ISDIR(dn(active)), *[term(e.objs[0], StrS) == dn(active) for e in mkb]))
            check(it, 'opens-the-active-name-for-writing', z3.And(term(path, StrS) == z3.Concat(file.t, z3.StringVal('.active')),
                                                                  z3.BoolVal(mode == 'w')))
    vc.explore(fk, thunk)

    def thunk2(it):
        func, evs, file = open_stream(it, 'obj')
        check(it, 'file-object-used-as-is-no-open-no-rename-target', effect_names(evs) == [])
    vc.explore(fk, thunk2)


def sym_res_writer(vc, aspects=('transparent', 'persist', 'lookahead')):
    """res_writer: for each row: write(json(row)+'\\n') . flush . yield the same row object -- in this order"""
    import z3
    from pyvc.api import LoopSpec, check, cover, yields_of, row_stream, same_row
    fk = vc.under_contract(P + 'stream.py', ['stream', 'res_writer'])
    vc.under_contract(P + 'stream.py', ['stream', 'write'])

    def thunk(it):
        func, evs0, file = open_stream(it, 'path')
        res_writer = func.env.lookup('res_writer')
        handle = calls(evs0, target='open')[0].result
        rows = row_stream(it, 'rows')

        def at_start(it, env, row):
            return row, row.snapshot()

        def at_end(it, env, cap, events):
            row, before = cap
            names = [n for n in effect_names(events)]
            check(it, 'per-row-trace-write-flush-yield', names == [handle.name + '.write', handle.name + '.flush', 'Yield'])
            ys = yields_of(events)
            if len(ys) == 1:
                check(it, 'yields-the-same-row-object-unchanged', z3.And(_b(ys[0].obj is row), same_row(ys[0].value, before)))
            w = calls(events, method='write')
            if len(w) == 1:
                from pyvc.api import term, StrS
                import pyvc.loader as L
                f = z3.Function('json_dumps_row[cls=CommonJSONEncoder,ensure_ascii=True,sort_keys=True]',
                                z3.ArraySort(StrS, z3.BoolSort()), before.val.sort(), StrS)
                check(it, 'persisted-line-is-the-row-as-it-entered', term(w[0].args[0], StrS) ==
                      z3.Concat(f(before.dom, before.val), z3.StringVal('\n')))
                check(it, 'writes-to-the-active-handle', w[0].target is handle)
            check(it, 'no-buffering', not [e for e in events if e.kind == 'Drain'])
            cover(it, 'iter-reachable')
        it.loops['res_writer#L0'] = LoopSpec(at_start=at_start, at_end=at_end,
                                             at_exit=lambda it, env: it.path.info.__setitem__('exit_mark', len(it.path.events)))
        n0 = len(it.path.events)
        it.run_generator(it.call(res_writer, [rows]))
        evs = it.path.events[n0:]
        if not [e for e in evs if e.kind == 'Pull']:
            check(it, 'nothing-after-the-last-row', not yields_of(evs) and not calls(evs))
            check(it, 'drains', rows.drained is True)
    paths = vc.explore(fk, thunk, min_paths=2)
    expect_no_raise_or_same(vc, fk, paths)

    # a row the encoder cannot express (bytes, an object of some class: TypeError / ValueError from json) or any other failure while
    # the line is produced: the step FAILS there -- the row is not handed on as if it had been persisted (C05), and the file is not
    # carried on to its final name (C08)
    from pyvc.symex import PyExc
    from pyvc import lib
    for cls in ('TypeError', 'ValueError', 'OverflowError'):
        def thunk_enc(it, cls=cls):
            func, evs0, file = open_stream(it, 'path')
            res_writer = func.env.lookup('res_writer')
            rows = row_stream(it, 'rows')
            boom = lib.ExcV(cls, ('Object of type bytes is not JSON serializable',))
            from pyvc.api import Opaque
            enc = Opaque('ejson', 'failing_encoder')

            def dumps(it_, o, a, k):
                raise PyExc(boom)
            enc.attrs['call:dumps'] = dumps
            it.module('dataflows.processors.stream').attrs['ejson'] = enc
            func.env.find('res_writer')           # (closure already built: the module global is looked up at call time)
            it.loops['res_writer#L0'] = LoopSpec(
                at_start=lambda it, env, row: row,
                at_end=lambda it, env, cap, events: check(it, 'a-row-that-cannot-be-encoded-is-not-handed-on[%s]' % cls, False))
            try:
                it.run_generator(it.call(res_writer, [rows]))
            except PyExc as pe:
                check(it, 'the-encoding-error-gets-out-as-raised[%s]' % cls, pe.exc is boom)
                check(it, 'nothing-yielded-for-that-row[%s]' % cls, not yields_of(it.path.events))
                cover(it, 'encoding-failure-reachable[%s]' % cls)
                it.path.info['upstream_raise'] = True
                raise
        paths = vc.explore(fk, thunk_enc, min_paths=2)
        for p_ in paths or []:
            if p_.end == 'raise':
                p_.info['upstream_raise'] = True
        expect_no_raise_or_same(vc, fk, paths)


def sym_stream_func(vc):
    """stream.func(package) with a path:
       exhaustion path : write(desc) flush Yield(pkg) (Yield(res_writer(res)) write('\\n'))* close rename(active -> final)
       abandoned at any yield / upstream failure : no close, no rename -- the final name is never created"""
    import z3
    from pyvc.api import LoopSpec, check, cover, yields_of, GenObj, term, StrS
    fk = vc.under_contract(P + 'stream.py', ['stream', 'func'])
    for file_kind in ('path', 'obj'):
        def thunk(it, file_kind=file_kind):
            func, evs0, file = open_stream(it, file_kind)
            package = mk_package2(it, may_raise=True)
            handle = calls(evs0, target='open')[0].result if file_kind == 'path' else file
            hname = handle.name

            def at_start(it, env, res):
                return res

            def at_end(it, env, res, events):
                names = effect_names(events)
                ys = yields_of(events)
                ok = len(ys) == 1 and isinstance(ys[0].obj, GenObj) and fn_named(ys[0].obj, 'res_writer') and \
                    ys[0].obj.args[0] is res
                check(it, 'each-resource-wrapped-by-the-row-writer[%s]' % file_kind, ok)
                check(it, 'resource-boundary-written-after-the-resource[%s]' % file_kind,
                      names == ['Yield', hname + '.write'])
                w = calls(events, method='write')
                if w:
                    check(it, 'boundary-is-an-empty-line[%s]' % file_kind, w[0].args[0] == '\n')
                cover(it, 'iter-reachable[%s]' % file_kind)

            def at_exit(it, env):
                it.path.info['exit_mark'] = len(it.path.events)
            it.loops['func#L0'] = LoopSpec(at_start=at_start, at_end=at_end, at_exit=at_exit)
            n0 = len(it.path.events)
            it.run_generator(it.call(func, [package]))
            evs = it.path.events[n0:]
            # reached only on the exhaustion path (normal return)
            if 'exit_mark' in it.path.info:
                post = it.path.events[it.path.info['exit_mark']:]
                names = effect_names(post)
                if file_kind == 'path':
                    check(it, 'commit-sequence-is-close-then-rename[path]', names == [hname + '.close', 'os.rename'])
                    rn = calls(post, target='os.rename')
                    if rn:
                        src, dst = rn[0].objs
                        check(it, 'rename-from-active-to-the-final-name', z3.And(
                            term(src, StrS) == z3.Concat(file.t, z3.StringVal('.active')), term(dst, StrS) == file.t))
                else:
                    check(it, 'file-object-closed-never-renamed[obj]', names == [hname + '.close'])
                pre = evs[:[i for i, e in enumerate(evs) if e.kind == 'Exhausted'][0]]
                check(it, 'before-the-loop-descriptor-then-package[%s]' % file_kind,
                      effect_names(pre) == [hname + '.write', hname + '.flush', 'Yield'] and
                      yields_of(pre)[0].obj is package.attrs['pkg'])
    # abandonment / upstream failure: no commit event anywhere on such a path
            return None
        paths = vc.explore(fk, thunk, min_paths=3, explore_abandon=True)
        check_no_commit_on_incomplete(vc, fk, paths, ('close', 'os.rename'), 'stream.func[%s]' % file_kind)


def sym_stream_faulty(vc):
    """stream under an I/O fault: file.write / file.flush of the active file may fail with OSError (disk full, quota, EIO).
    A record that could not be written must not go unnoticed: write(), res_writer and func let the error out (so the run fails
    and the active file is never renamed); whenever they return normally every record they were given reached the file."""
    import z3
    from pyvc.api import LoopSpec, check, cover, yields_of, row_stream
    from pyvc.symex import PyExc, Ev
    from pyvc import lib
    fk = vc.under_contract(P + 'stream.py', ['stream', 'write'])
    for target in ('write', 'res_writer', 'func'):
        def thunk(it, target=target):
            func, evs0, file = open_stream(it, 'path')
            handle = calls(evs0, target='open')[0].result
            log = []
            budget = [1]

            def faulty(method):
                def call(it_, o, a, k):
                    it_.emit(Ev('Call', target=o, method=method, args=tuple(lib.snap(it_, x) for x in a), kwargs={}, result=None, objs=tuple(a)))
                    if budget[0] > 0 and it_.decide(2, lambda i: True) == 1:
                        budget[0] -= 1
                        log.append(method)
                        raise PyExc(lib.ExcV('OSError', ('No space left on device',)))
                    return None
                return call
            handle.attrs['call:write'] = faulty('write')
            handle.attrs['call:flush'] = faulty('flush')
            tag = '[%s]' % target
            try:
                if target == 'write':
                    it.call(func.env.lookup('write'), [it.fresh_row('record')])
                elif target == 'res_writer':
                    it.loops['res_writer#L0'] = LoopSpec()
                    it.run_generator(it.call(func.env.lookup('res_writer'), [row_stream(it, 'rows')]))
                else:
                    it.loops['func#L0'] = LoopSpec()
                    it.run_generator(it.call(func, [mk_package2(it)]))
            except PyExc as pe:
                check(it, 'a-failed-write-surfaces-as-the-os-error' + tag, pe.exc.cls == 'OSError' and bool(log))
                check(it, 'nothing-committed-after-a-failed-write' + tag, not calls(it.path.events, target='os.rename'))
                cover(it, 'fault-reachable' + tag)
                return
            check(it, 'normal-return-means-every-record-reached-the-file' + tag, not log)
            cover(it, 'return-reachable' + tag)
        vc.explore(fk, thunk, min_paths=2)


def check_no_commit_on_incomplete(vc, fk, paths, commit_names, tag, also_iter_end=True):
    """every explored path that does not reach normal completion (abandoned at a yield, upstream raised, cut at the end of
    an iteration) must contain none of the commit events"""
    import z3
    from pyvc.api import short
    n = 0
    for p in paths or []:
        if p.end == 'return':
            continue
        t = 'p' + '.'.join(str(d) for d in p.trail)
        names = effect_names(p.events)
        bad = [x for x in names if any(x == c or x.endswith('.' + c) for c in commit_names)]
        vc.add('%s.no-commit-before-completion[%s,%s][%s]' % (short(fk), tag, p.end, t), p.pc, z3.BoolVal(not bad), path=p,
               info=dict(trace=names))
        n += 1
    if n == 0:
        vc.undecided.append(__import__('pyvc.api').api.Undecided(fk, 'VACUOUS: no incomplete path explored for %s' % tag))


# ------------------------------------------------------------------------------------------------ checkpoint.py

def sym_checkpoint(vc):
    """checkpoint._preprocess_chain: decided by os.path.exists(<path>/<name>/stream.ndjson) only;
         exists  -> exactly (unstream(that file),)          -- none of the swallowed steps, nothing opened for writing
         absent  -> swallowed steps ++ (stream(that file), notify)
       handle_flow_checkpoint swallows the links that precede it in the parent chain"""
    import z3
    from pyvc.api import real_function, check, cover, sym_str, term, StrS, PyList, ufunc, GenObj, FuncDefV
    from pyvc import lib
    import pyvc.loader as L
    fk = vc.under_contract(P + 'checkpoint.py', ['checkpoint', '_preprocess_chain'])
    vc.under_contract(P + 'checkpoint.py', ['checkpoint', 'handle_flow_checkpoint'])
    vc.under_contract(P + 'checkpoint.py', ['checkpoint', 'filename'])
    vc.under_contract(P + 'checkpoint.py', ['checkpoint', '__init__'])

    def thunk(it, with_resources=False):
        CP = real_function(it, 'dataflows.processors.checkpoint', 'checkpoint')
        name, base = sym_str(it, 'cpname'), sym_str(it, 'cppath')
        s1, s2 = ufunc('step1', pure=False), ufunc('step2', pure=False)
        kw = dict(checkpoint_path=base)
        if with_resources:
            # the documented `resources` argument: whatever it selects, CHAINING a checkpoint evaluates nothing and decides by the
            # existence of the final file alone (C06 / C08: the steps run when -- and only when -- the stream is consumed)
            kw['resources'] = sym_str(it, 'cp_resources')
        cp = it.call(CP, [name], kw)
        # the same checkpoint object may be run again (a Flow object run in a loop, retried by a scheduler): whatever its
        # methods may have cached on it earlier is arbitrary
        from contracts.common import havoc_mutable_scalars
        havoc_mutable_scalars(it, cp, containers=True, memo_none=True)
        r = it.call(it.lib.getattr_(it, cp, 'handle_flow_checkpoint'), [PyList([s1, s2])])
        check(it, 'swallows-parent-links-returns-itself', isinstance(r, PyList) and len(r.items) == 1 and r.items[0] is cp)
        # ... and KEEPS them, whatever is on disk at that moment: whether they run is decided when the chain is built (the file may
        # be deleted between two runs of the same flow object)
        pc = cp.attrs.get('parent_chain')
        pci = list(pc) if isinstance(pc, tuple) else getattr(pc, 'items', None)
        check(it, 'the-links-handed-over-are-kept-whatever-the-file-system-says', pci is not None and len(pci) == 2 and pci[0] is s1 and pci[1] is s2)
        n0 = len(it.path.events)
        chain = it.call(it.lib.getattr_(it, cp, '_preprocess_chain'), [])
        evs = it.path.events[n0:]
        j2 = z3.Function('os.path.join2', StrS, StrS, StrS)
        final = j2(j2(base.t, name.t), z3.StringVal('stream.ndjson'))
        ex = calls(evs, target='os.path.exists')
        check(it, 'existence-tested-on-the-final-name', len(ex) >= 1 and _b(True))
        for x_ in ex:
            check(it, 'existence-test-names-the-final-file', term(x_.objs[0], StrS) == final)
        exists = L.FS_EXISTS(final)
        opens = calls(evs, target='open')
        if isinstance(chain, tuple):
            # resume branch
            check(it, 'resume-only-if-final-exists', exists)
            ok = len(chain) == 1 and isinstance(chain[0], FuncDefV) and fn_named(chain[0], 'func') and \
                'unstream' in chain[0].qualname
            check(it, 'resume-chain-is-exactly-the-reader', ok)
            check(it, 'resume-opens-the-final-file-for-reading-only', len(opens) == 1 and
                  _b(opens[0].objs[1] == 'r') and True)
            if len(opens) == 1:
                check(it, 'resume-reads-the-final-name', term(opens[0].objs[0], StrS) == final)
            check(it, 'resume-touches-nothing-else', [n for n in effect_names(evs)] == ['open'])
            cover(it, 'resume-reachable')
        else:
            check(it, 'save-only-if-final-absent', z3.Not(exists))
            def flat(x):
                if isinstance(x, (tuple, list)):
                    return [z for y in x for z in flat(y)]
                if isinstance(x, PyList):
                    return [z for y in x.items for z in flat(y)]
                if hasattr(x, 'parts'):
                    return [z for y in x.parts for z in flat(y)]
                return [x]
            links = flat(chain)
            check(it, 'save-chain-is-the-swallowed-steps-once-then-writer-and-notify', len(links) == 4 and links[0] is s1
                  and links[1] is s2 and isinstance(links[2], FuncDefV) and 'stream' in links[2].qualname
                  and fn_named(links[2], 'func') and isinstance(links[3], FuncDefV) and fn_named(links[3], 'step'))
            # the same checkpoint object chained again (the flow object is run a second time and the file is still / again
            # absent): the chain is rebuilt from the links handed over THIS time -- nothing accumulates from the first run
            r2 = it.call(it.lib.getattr_(it, cp, 'handle_flow_checkpoint'), [PyList([s1, s2])])
            chain2 = it.call(it.lib.getattr_(it, cp, '_preprocess_chain'), [])
            if isinstance(chain2, tuple):
                check(it, 'second-chaining-takes-the-same-branch', False)
            else:
                links2 = flat(chain2)
                check(it, 'second-chaining-of-the-same-object-gives-the-same-chain', len(links2) == 4 and links2[0] is s1
                      and links2[1] is s2 and isinstance(links2[2], FuncDefV) and fn_named(links2[2], 'func')
                      and isinstance(links2[3], FuncDefV) and fn_named(links2[3], 'step'))
            if len(opens) == 1:
                check(it, 'save-writes-under-the-active-name', z3.And(
                    term(opens[0].objs[0], StrS) == z3.Concat(final, z3.StringVal('.active')), _b(opens[0].objs[1] == 'w')))
            check(it, 'save-opens-exactly-one-file', len(opens) == 1)
            cover(it, 'save-reachable')
        check(it, 'chaining-runs-none-of-the-steps', not [e for e in it.path.events if e.kind == 'Call' and
                                                         getattr(e, 'target', None) in ('step1', 'step2', s1, s2)])
    paths = vc.explore(fk, thunk, min_paths=2)
    expect_no_raise_or_same(vc, fk, paths)
    paths = vc.explore(fk, lambda it: thunk(it, with_resources=True), min_paths=2)
    expect_no_raise_or_same(vc, fk, paths)


def sym_notify(vc):
    """_notify_checkpoint_saved.step: transparent (package, then one lazy pass-through per resource)"""
    from pyvc.api import real_function, check, LoopSpec, yields_of, cover
    fk = vc.under_contract(P + 'checkpoint.py', ['_notify_checkpoint_saved', 'step'])

    def thunk(it):
        mk = real_function(it, 'dataflows.processors.checkpoint', '_notify_checkpoint_saved')
        step = it.call(mk, ['name'])
        package = mk_package2(it)

        def at_end(it, env, res, events):
            ys = yields_of(events)
            from pyvc import lib
            ok = len(ys) == 1 and isinstance(ys[0].obj, lib.GenExp)
            check(it, 'each-resource-passed-lazily', ok and not res.stream.drained)
            if ok:
                g = ys[0].obj
                import ast
                simple = isinstance(g.node.elt, ast.Name) and len(g.node.generators) == 1 and not g.node.generators[0].ifs \
                    and isinstance(g.node.generators[0].target, ast.Name) and g.node.generators[0].target.id == g.node.elt.id
                check(it, 'pass-through-is-the-identity-comprehension', simple and it.eval(g.node.generators[0].iter, g.env) is res)
            cover(it, 'iter-reachable')
        it.loops['step#L0'] = LoopSpec(at_start=lambda it, env, r: r, at_end=at_end)
        it.run_generator(it.call(step, [package]))
        ys = yields_of(it.path.events)
        check(it, 'package-first', len(ys) >= 1 and ys[0].obj is package.attrs['pkg'])
    vc.explore(fk, thunk, min_paths=2)


# ------------------------------------------------------------------------------------------------ unstream.py

def sym_unstream(vc):
    """unstream(name): opens exactly the given name for reading (never the .active name); nothing else at construction"""
    import z3
    from pyvc.api import real_function, check, cover, sym_str, term, StrS, LoopSpec, yields_of, GenObj
    fk = vc.under_contract(P + 'unstream.py', ['unstream'])
    # (read / res_reader / func have their own contract: C07.sym_res_reader, also an item of C08)

    def thunk(it):
        un = real_function(it, 'dataflows.processors.unstream', 'unstream')
        name = sym_str(it, 'file')
        n0 = len(it.path.events)
        func = it.call(un, [name])
        opens = calls(it.path.events[n0:], target='open')
        check(it, 'opens-exactly-the-given-name', len(opens) == 1 and _b(True))
        if opens:
            check(it, 'opened-name-is-the-argument', term(opens[0].objs[0], StrS) == name.t)
            check(it, 'opened-for-reading', opens[0].objs[1] == 'r')
    vc.explore(fk, thunk)


# ------------------------------------------------------------------------------------------------ printer

def mk_schema_obj(it):
    """datapackage Schema object: .fields = opaque list of Field objects (name, type)"""
    import z3
    from pyvc.api import Opaque, SymSeq, IntS, StrS, wrap
    schema = Opaque('Schema', 'schema')
    FN = z3.Function('field_name', IntS, StrS)
    FT = z3.Function('field_type', IntS, StrS)

    def mk(it_):
        ft = it_.fresh('fld', IntS)
        f = Opaque('Field', 'fld', term=ft)
        f.attrs['name'] = wrap(FN(ft))
        f.attrs['type'] = wrap(FT(ft))
        return f, ft
    schema.attrs['fields'] = SymSeq('schema.fields', it.fresh('schema.fields', IntS), mk)
    return schema


def sym_printer(vc):
    """printer(...).func(rows) on a selected resource: every row is re-yielded, the same object, contents untouched, before
    the next row is pulled; header printed before the first row is pulled, table printed after the last; no buffering of
    the stream (the printer keeps formatted copies of a bounded number of rows)"""
    import z3
    from pyvc.api import real_function, LoopSpec, check, cover, yields_of, ufunc, same_row
    fk = vc.under_contract(P + 'printer.py', ['printer', 'func'])
    vc.under_contract(P + 'printer.py', ['truncate_cell'])
    for opts in ({}, {'num_rows': 2, 'last_rows': 3}, {'fields': True}):
        def thunk(it, opts=opts):
            pr = real_function(it, 'dataflows.processors.printer', 'printer')
            hp = ufunc('header_print', pure=False)
            tp = ufunc('table_print', pure=False)
            kw = dict(header_print=hp, table_print=tp)
            for k, v in opts.items():
                if k == 'fields':
                    from pyvc.api import str_seq, SymList
                    kw['fields'] = SymList(str_seq(it, 'printfields'), [])
                else:
                    kw[k] = v
            step = it.call(pr, [], kw)
            func = step.env.lookup('func')      # the row printer handed to selected resources by printer.step
            it.track_row_reads = True
            r = mk_resource(it, 'rows')
            r.attrs['res'].attrs['schema'] = mk_schema_obj(it)
            tag = '[%s]' % ','.join(sorted(opts)) if opts else '[default]'

            def at_start(it, env, elem):
                i, row = elem
                return row, row.snapshot()

            def at_end(it, env, cap, events):
                row, before = cap
                ys = yields_of(events)
                check(it, 'row-re-yielded-once' + tag, len(ys) == 1)
                if len(ys) == 1:
                    check(it, 'row-contents-untouched' + tag, same_row(ys[0].value, before))
                check(it, 'row-never-written' + tag, not [e for e in events if e.kind in ('RowWrite', 'RowUpdate', 'RowDelete',
                                                                                         'RowMapLoop') and e.obj is row])
                # what is reported must be the row as it ENTERED: the printer may keep formatted copies, never the live row
                # object that later steps are free to edit in place
                from contracts.common import retained_in
                check(it, 'no-live-row-kept-past-its-yield' + tag, not retained_in(env, row))
                # ... and whatever is reported about the row is read off it BEFORE it is handed on
                yi = [i for i, e in enumerate(events) if e.kind == 'Yield']
                check(it, 'row-not-looked-at-again-after-it-was-handed-downstream' + tag, len(yi) == 1 and
                      not [e for e in events[yi[0] + 1:] if e.kind == 'RowRead' and e.obj is row])
                check(it, 'nothing-printed-mid-stream' + tag, not calls(events, target='header_print') and
                      not calls(events, target='table_print'))
                check(it, 'no-buffering' + tag, not [e for e in events if e.kind == 'Drain'])
                cover(it, 'iter-reachable' + tag)
            it.loops['func#L0'] = LoopSpec(at_start=at_start, at_end=at_end,
                                           at_exit=lambda it, env: it.path.info.__setitem__('exit_mark', len(it.path.events)))
            n0 = len(it.path.events)
            it.run_generator(it.call(func, [r]))
            evs = it.path.events[n0:]
            if 'exit_mark' in it.path.info:
                post = it.path.events[it.path.info['exit_mark']:]
                check(it, 'table-printed-once-after-the-last-row' + tag, len(calls(post, target='table_print')) == 1 and
                      not yields_of(post))
                pre = evs[:[i for i, e in enumerate(evs) if e.kind == 'Exhausted'][0]]
                check(it, 'header-printed-before-any-row' + tag, len(calls(pre, target='header_print')) == 1 and not yields_of(pre))
                check(it, 'drains' + tag, r.stream.drained is True)
        paths = vc.explore(fk, thunk, min_paths=3)
        expect_no_raise_or_same(vc, fk, paths)


# ------------------------------------------------------------------------------------------------ finalizer

def sym_finalizer(vc):
    """finalizer.get_iterator(...).func: passes the base iterator through (yield from) and calls the callback exactly once,
    only after the base iterator is exhausted; `stats` passed iff the callback declares it; never on abandonment"""
    from pyvc.api import real_function, check, cover, ufunc, Builtin, Stream, Opaque, yields_of
    fk = vc.under_contract(P + 'finalizer.py', ['finalizer', 'get_iterator', 'func'])
    vc.under_contract(P + 'finalizer.py', ['finalizer', '__init__'])
    from pyvc.symex import PyExc
    from pyvc import lib
    for with_stats, failing in ((False, False), (True, False), (True, True), (False, True)):
        def thunk(it, with_stats=with_stats, failing=failing):
            F = real_function(it, 'dataflows.processors.finalizer', 'finalizer')
            cb = ufunc('callback', pure=False, params=(['stats'] if with_stats else []))
            if failing:
                # a callback that runs (its side effects happen) and then fails -- with a TypeError of its own, which must not
                # be mistaken for "does not accept the argument": it still fires exactly once and its error gets out
                inner = cb.apply

                def apply(it_, a, k):
                    inner(it_, a, k)
                    raise PyExc(lib.ExcV('TypeError', ("unsupported operand type(s) for %: 'str' and 'NoneType'",)))
                cb.apply = apply
            fin = it.call(F, [cb])
            # the same finalizer object may sit in a flow that is run again (or in two flows): once per RUN, not once per object
            from contracts.common import havoc_mutable_scalars
            havoc_mutable_scalars(it, fin, containers=True)
            # the base class iterator is under its own contract (C01): here an opaque stream of resources
            base_stream = Stream('base_res_iter', lambda it_: mk_resource(it_, 'r'), may_raise=True)
            dsp = it.module('dataflows.base.datastream_processor').attrs['DataStreamProcessor']
            dsp.methods['get_iterator'] = Builtin('DataStreamProcessor.get_iterator',
                                                  lambda it_, self, ds: Builtin('base_func', lambda it2: base_stream))
            ds = Opaque('DataStream', 'datastream')
            ds.attrs['call:merge_stats'] = lambda it_, obj, a, k: 'MERGED-STATS'
            func = it.call(it.lib.getattr_(it, fin, 'get_iterator'), [ds])
            n0 = len(it.path.events)
            if failing:
                try:
                    it.run_generator(it.call(func, []))
                    raised = None
                except PyExc as pe:
                    raised = pe
                evs = it.path.events[n0:]
                if [e for e in evs if e.kind == 'YieldFrom'] and calls(evs, target='callback'):
                    check(it, 'a-failing-callback-fired-exactly-once[stats=%s]' % with_stats, len(calls(evs, target='callback')) == 1)
                    check(it, 'the-callbacks-own-error-gets-out[stats=%s]' % with_stats, raised is not None and raised.exc.cls == 'TypeError')
                    cover(it, 'failing-callback-reachable[stats=%s]' % with_stats)
                    return
                if raised is not None:
                    raise raised
                return
            it.run_generator(it.call(func, []))
            evs = it.path.events[n0:]
            names = effect_names(evs)
            check(it, 'trace-is-passthrough-then-one-callback[stats=%s]' % with_stats, names == ['YieldFrom', 'callback'])
            yf = [e for e in evs if e.kind == 'YieldFrom']
            check(it, 'passes-the-base-iterator-itself[stats=%s]' % with_stats, len(yf) == 1 and yf[0].src is base_stream)
            c = calls(evs, target='callback')
            if len(c) == 1:
                if with_stats:
                    check(it, 'stats-passed-to-a-callback-that-declares-it', set(c[0].kwargs) == {'stats'} and len(c[0].args) == 0)
                else:
                    check(it, 'no-argument-for-a-plain-callback', len(c[0].args) == 0)
            cover(it, 'reachable[stats=%s]' % with_stats)
        # the consumer may stop, or the base iterator may raise, while rows are being delegated: the callback must not have
        # fired on any such path ("exactly once, AFTER the last row has passed")
        paths = vc.explore(fk, thunk, min_paths=2, explore_abandon=True)
        if not failing:
            expect_no_raise_or_same(vc, fk, paths)
            check_no_commit_on_incomplete(vc, fk, paths, ('callback',), 'finalizer[stats=%s]' % with_stats)


# ------------------------------------------------------------------------------------------------ base class

def sym_dsp_base(vc):
    """DataStreamProcessor defaults: process_resource re-yields process_row(row) per row (identity by default), one row at
    a time; process_resources yields one lazy generator per resource without pulling rows; LazyIterator defers get_iterator
    until iteration starts"""
    import z3
    from pyvc.api import real_function, LoopSpec, check, cover, yields_of, same_row, Stream, GenObj, ufunc, Builtin
    F = 'dataflows/base/datastream_processor.py'
    fk = vc.under_contract(F, ['DataStreamProcessor', 'process_resource'])
    vc.under_contract(F, ['DataStreamProcessor', 'process_row'])

    def thunk(it):
        DSP = real_function(it, 'dataflows.base.datastream_processor', 'DataStreamProcessor')
        d = it.call(DSP, [])
        r = mk_resource(it, 'res')

        def at_start(it, env, row):
            return row, row.snapshot()

        def at_end(it, env, cap, events):
            row, before = cap
            ys = yields_of(events)
            check(it, 'default-row-step-is-identity', len(ys) == 1 and ys[0].obj is row)
            if len(ys) == 1:
                check(it, 'row-unchanged', same_row(ys[0].value, before))
            check(it, 'no-buffering', not [e for e in events if e.kind == 'Drain'])
            cover(it, 'iter-reachable')
        it.loops['DataStreamProcessor.process_resource#L0'] = LoopSpec(at_start=at_start, at_end=at_end)
        g = it.call(it.lib.getattr_(it, d, 'process_resource'), [r])
        # C04: the row step runs INSIDE a generator frame of the library: a StopIteration escaping a user's row function (a bare
        # next() on an exhausted iterator) is then turned into a RuntimeError (PEP 479) and fails the run.  Handed to map() /
        # filter() / a bare iterator protocol it would pass for the end of the stream: rows silently missing, run successful.
        check(it, 'row-step-runs-inside-a-generator-frame-so-its-StopIteration-cannot-end-the-stream', isinstance(g, GenObj))
        it.run_generator(g)
        if not [e for e in it.path.events if e.kind == 'Pull']:
            check(it, 'drains', r.stream.drained is True)
            check(it, 'silent-after-exhaustion', not yields_of(it.path.events))
    paths = vc.explore(fk, thunk, min_paths=2)
    expect_no_raise_or_same(vc, fk, paths)
    fk2 = vc.under_contract(F, ['DataStreamProcessor', 'process_resources'])

    def thunk2(it):
        DSP = real_function(it, 'dataflows.base.datastream_processor', 'DataStreamProcessor')
        d = it.call(DSP, [])
        resources = Stream('resources', lambda it_: mk_resource(it_, 'r'))

        def at_end(it, env, r, events):
            ys = yields_of(events)
            ok = len(ys) == 1 and isinstance(ys[0].obj, GenObj) and fn_named(ys[0].obj, 'process_resource') and \
                ys[0].obj.args[-1] is r
            check(it, 'one-lazy-generator-per-resource', ok)
            check(it, 'no-row-pulled-when-handing-out-the-generator', r.stream.drained is False and
                  not [e for e in events if e.kind in ('Drain',)])
            cover(it, 'iter-reachable')
        it.loops['DataStreamProcessor.process_resources#L0'] = LoopSpec(at_start=lambda it, env, r: r, at_end=at_end)
        it.run_generator(it.call(it.lib.getattr_(it, d, 'process_resources'), [resources]))
        if not [e for e in it.path.events if e.kind == 'Pull']:
            check(it, 'drains-the-resource-stream', resources.drained is True)
    vc.explore(fk2, thunk2, min_paths=2)
    fk3 = vc.under_contract(F, ['LazyIterator', '__iter__'])

    def thunk3(it):
        LI = real_function(it, 'dataflows.base.datastream_processor', 'LazyIterator')
        g = ufunc('get_iterator', pure=False)
        n0 = len(it.path.events)
        li = it.call(LI, [g])
        check(it, 'construction-does-not-start-the-iterator', not calls(it.path.events[n0:], target='get_iterator'))
        m = it.lib.find_method(li.cls, '__iter__')
        r = it.call(m, [li])
        check(it, 'iteration-calls-get_iterator-once', len(calls(it.path.events[n0:], target='get_iterator')) == 1)
    vc.explore(fk3, thunk3)
