"""C16  Resource-level restructuring conserves rows.

  concatenate.concatenator : per input row exactly one output row = {target: None} overlaid with the row's non-null cells
                             mapped through field_mapping (fresh dict); all rows of all given streams, in order
  concatenate.func         : package phase is the automaton  before-run / in-run / after-run  (target descriptor placed where
                             the first selected resource was; a selected resource after the run ended is rejected);
                             stream phase chains exactly the matched run (first matched stream ++ the next n-1) and passes
                             every other stream as the same object
  duplicate.func           : descriptor copy (deep) right after the source or at the end; stream phase yields saver(original)
                             then loader(copy) (or all loaders at the end); other streams pass as the same object
  duplicate.saver / loader : saver re-yields every row (same object) while storing it; loader replays what was stored
  delete_resource          : (C10 contract) descriptors and streams filtered with the same matcher, dropped streams drained
  iterable_loader / load / sources . process_resources : existing streams first (untouched), new streams appended
"""
from contracts import findings_natives as KF
from contracts.common import fn_named
from contracts.common import (same_stream, Item, mk_resource, mk_package2, resource_desc, run_spec, ghost_row, expect_no_raise_or_same,
                              row_transducer, _b, selector, tree_writes_under)
from contracts import C10 as K10, base as BA
from contracts.streams import calls, effect_names

P = 'dataflows/processors/'
TRUSTED = ['T1 pyvc model of Python (DESIGN 3)', 'T6 kvfile.KVFile: insert_generator yields each pair and stores it AFTER the yield; '
           'items() returns the stored pairs in key order', 'T3 copy.deepcopy', 'T16 z3 / cvc5']
ASSUMPTIONS = ['descriptor list and stream list carry the same names in the same order (C01 pairing)',
               'concatenate: the construction of the target schema / field mapping from `fields` is covered by the bounded '
               'end-to-end run only']

SPEC = '''
def concat_row(row, all_target_fields, field_mapping):
    out = dict((k, None) for k in all_target_fields)
    out.update(dict((field_mapping[k], v) for (k, v) in row.items() if k in field_mapping and v is not None))
    return [out]


def place(state, match):
    # automaton of the consecutive-run detection: returns (new state, what is appended: 'r' resource, 't' target)
    if state == 'before':
        if match:
            return 'run', []
        return 'before', ['r']
    if state == 'run':
        if match:
            return 'run', []
        return 'after', ['t', 'r']
    if match:
        raise AssertionError()
    return 'after', ['r']
'''


def sym_concatenator(vc):
    """concatenator(resources, all_target_fields, field_mapping): for every stream, for every row: one fresh output row"""
    import z3
    from pyvc.api import (SpecModule, real_function, LoopSpec, check, cover, yields_match, yields_of, str_seq, sym_row, SymList,
                          Stream, Cell)
    fk = vc.under_contract(P + 'concatenate.py', ['concatenator'])
    spec = SpecModule(SPEC)

    def thunk(it):
        f = real_function(it, 'dataflows.processors.concatenate', 'concatenator')
        atf = SymList(str_seq(it, 'all_target_fields'), [])
        fm = sym_row(it, 'field_mapping')
        k = z3.Const('fmk', z3.StringSort())
        it.assume(z3.ForAll([k], z3.Implies(fm.dom[k], Cell.is_str(fm.val[k]))))
        cnt = [0]

        def mk(it_):
            cnt[0] += 1
            return mk_resource(it_, 'resource_%d' % cnt[0])
        resources = Stream('resources', mk)
        sp = spec.bind(it)
        st = {}
        it.path.info['allowed_exc'] = {'AssertionError': z3.BoolVal(True)}

        def res_start(it, env, r):
            st['r'] = r
            return r

        def res_end(it, env, r, events):
            check(it, 'each-stream-drained-before-the-next', r.stream.drained is True)
            check(it, 'nothing-yielded-between-streams', not yields_of(events))
            cover(it, 'stream-iter-reachable')

        def row_start(it, env, row):
            g = ghost_row(row.snapshot(), row)
            exp = run_spec(it, sp.attrs['concat_row'], [g, atf, fm])
            return exp, row

        def row_end(it, env, cap, events):
            exp, row = cap
            if exp.exc is not None:
                return
            check(it, 'one-output-row-per-input-row', yields_match(it, events, exp.value))
            ys = yields_of(events)
            check(it, 'output-is-a-fresh-dict', all(y.obj is not row for y in ys))
            check(it, 'input-row-not-written', not [e for e in events if e.kind in ('RowWrite', 'RowUpdate') and e.obj is row])
            check(it, 'no-buffering', not [e for e in events if e.kind == 'Drain'])
            cover(it, 'row-iter-reachable')
        it.loops['concatenator#L0'] = LoopSpec(at_start=res_start, at_end=res_end)
        it.loops['concatenator#L1'] = LoopSpec(at_start=row_start, at_end=row_end)
        it.run_generator(it.call(f, [resources, atf, fm]))
        check(it, 'all-streams-consumed', resources.drained is True)
        check(it, 'silent-after-the-last-stream', not yields_of(it.path.events))
    paths = vc.explore(fk, thunk, min_paths=4)
    expect_no_raise_or_same(vc, fk, paths)


def sym_concatenate_func(vc):
    import z3
    from pyvc.api import (real_function, LoopSpec, check, cover, SpecModule, yields_of, GenObj, PyDict, PyList, sym_str, term, IntS,
                          SymList, str_seq)
    from pyvc import lib
    fk = vc.under_contract(P + 'concatenate.py', ['concatenate', 'func'])
    spec = SpecModule(SPEC)
    for kind in ('list', 'str', 'none'):
        def thunk(it, kind=kind):
            maker = real_function(it, 'dataflows.processors.concatenate', 'concatenate')
            sel, want = selector(it, kind)
            fields = PyDict({'t1': PyList(['s1']), 't2': PyList([])})
            target = PyDict({'name': 'target', 'path': 'target.csv'})
            func = it.call(maker, [fields], dict(target=target, resources=sel))
            package = mk_package2(it)
            sp = spec.bind(it)
            it.path.info['allowed_exc'] = {'AssertionError': z3.BoolVal(True)}
            tag = '[%s]' % kind

            def state_of(env):
                p, s = env.lookup('prefix'), env.lookup('suffix')
                return p, s

            def p_start(it, env, rd):
                p, s = state_of(env)
                pt, stt = _b(it.truth(p)), _b(it.truth(s))
                it.assume(z3.Not(z3.And(pt, stt)))          # invariant of the encoding: never both
                # fix the automaton state of this iteration
                d = it.decide(3, lambda i: True)
                st = ['before', 'run', 'after'][d]
                it.assume({'before': pt, 'run': z3.And(z3.Not(pt), z3.Not(stt)), 'after': stt}[st])
                m = want(package, rd.children['name'].t)
                mb = it.branch(m)
                n0 = env.lookup('num_concatenated')
                exp = run_spec(it, sp.attrs['place'], [st, mb])
                if exp.exc is not None:
                    it.path.info['expect_exc'] = exp.exc.cls
                return rd, exp, st, mb, n0

            def p_end(it, env, cap, events):
                rd, exp, st, mb, n0 = cap
                if exp.exc is not None:
                    return
                st2, app = exp.value
                nr = env.lookup('new_resources')
                got = [e.value for e in events if e.kind == 'Append' and e.obj is nr]
                # compare appended objects: 'r' -> this resource descriptor, 't' -> the target descriptor
                tgt = env.lookup('target')
                wantobjs = [rd if a == 'r' else tgt for a in app.items]
                gotobjs = [e for e in events if e.kind == 'Append' and e.obj is nr]
                check(it, 'descriptor-placement-step' + tag, len(gotobjs) == len(wantobjs))
                p, s = state_of(env)
                pt, stt = _b(it.truth(p)), _b(it.truth(s))
                enc = {'before': pt, 'run': z3.And(z3.Not(pt), z3.Not(stt)), 'after': stt}[st2]
                check(it, 'automaton-state-step' + tag, z3.And(enc, z3.Not(z3.And(pt, stt))))
                n1 = env.lookup('num_concatenated')
                check(it, 'run-length-counts-selected-resources' + tag, term(n1, IntS) == term(n0, IntS) + (1 if mb else 0))
                check(it, 'resource-descriptor-untouched-by-placement' + tag, not tree_writes_under(events, rd))
                cover(it, 'pkg-iter-reachable' + tag)
            it.loops['func#L0'] = LoopSpec(modes=('exit',))
            it.loops['func#L1'] = LoopSpec(modes=('exit',))
            it.loops['func#L2'] = LoopSpec(modes=('exit',))
            it.loops['func#L3'] = LoopSpec(modes=('exit',))
            it.loops['func#L4'] = LoopSpec(modes=('exit',))
            it.loops['func#L5'] = LoopSpec(at_start=p_start, at_end=p_end)
            it.loops['func#L6'] = LoopSpec(modes=('exit',))
            it.run_generator(it.call(func, [package]))
        paths = vc.explore(fk, thunk, min_paths=4)
        expect_no_raise_or_same(vc, fk, paths)
    # stream phase
    for kind, mode, aliases in [(k, m, True) for k in ('list', 'str') for m in ('selected', 'unselected')] + [('list', 'selected', False)]:
        for _once in (0,):
            def thunk2(it, kind=kind, mode=mode, aliases=aliases):
                maker = real_function(it, 'dataflows.processors.concatenate', 'concatenate')
                sel, want = selector(it, kind)
                # with and without source aliases: rows of a selected run ALWAYS go through the mapping onto the target fields
                # (projection and nulls for absent fields are needed even when nothing is renamed and the run has one resource)
                fields = PyDict({'t1': PyList(['s1']), 't2': PyList([])}) if aliases else PyDict({'t1': PyList([]), 't2': PyList([])})
                func = it.call(maker, [fields], dict(target=PyDict({'name': 'target', 'path': 'target.csv'}), resources=sel))
                package = mk_package2(it)
                it.path.info['allowed_exc'] = {'AssertionError': z3.BoolVal(True)}
                tag = '[%s,%s%s]' % (kind, mode, '' if aliases else ',no-aliases')

                def at_start(it, env, r):
                    m = want(package, r.attrs['res'].attrs['name'].t)
                    it.assume(m if mode == 'selected' else z3.Not(m))
                    return r

                def at_end(it, env, r, events):
                    ys = yields_of(events)
                    if len(ys) != 1:
                        check(it, 'one-output-per-loop-step' + tag, False)
                        return
                    y = ys[0].obj
                    if mode == 'unselected':
                        check(it, 'unselected-same-object' + tag, same_stream(it, y, r) and r.stream.drained is False)
                    else:
                        n = env.lookup('num_concatenated')
                        ok = isinstance(y, GenObj) and fn_named(y, 'concatenator')
                        if ok:
                            ch = y.args[0]
                            parts = getattr(ch, 'parts', None)
                            ok = parts is not None and len(parts) == 2 and isinstance(parts[0], PyList) and \
                                parts[0].items == [r] and parts[1].__class__.__name__ == 'IsliceV' and \
                                parts[1].src is package.stream and len(parts[1].args) == 1
                            if ok:
                                check(it, 'chains-exactly-the-matched-run' + tag, term(parts[1].args[0], IntS) == term(n, IntS) - 1)
                            fm = y.args[2]
                            check(it, 'uses-the-mapping-built-in-the-package-phase' + tag, fm is env.lookup('field_mapping'))
                            # for fields = {'t1': ['s1'], 't2': []}: aliases map to their target, every target maps to itself
                            check(it, 'mapping-sends-aliases-and-targets-to-the-target' + tag,
                                  isinstance(fm, PyDict) and fm.d == ({'s1': 't1', 't1': 't1', 't2': 't2'} if aliases else {'t1': 't1', 't2': 't2'}))
                            check(it, 'all-target-fields-in-order' + tag, isinstance(y.args[1], PyList) and y.args[1].items == ['t1', 't2'])
                        check(it, 'selected-run-concatenated' + tag, ok)
                    cover(it, 'iter-reachable' + tag)
                for l in range(6):
                    it.loops['func#L%d' % l] = LoopSpec(modes=('exit',))
                it.loops['func#L6'] = LoopSpec(at_start=at_start, at_end=at_end,
                                               at_exit=lambda it, env: it.path.info.__setitem__('n_conc', env.lookup('num_concatenated')))
                it.run_generator(it.call(func, [package]))
                ys = yields_of(it.path.events)
                check(it, 'package-first' + tag, len(ys) >= 1 and ys[0].obj is package.attrs['pkg'])
                if 'n_conc' in it.path.info:
                    # after the last resource: when NOTHING was selected the target (listed last in the descriptor) still gets its
                    # stream -- an empty one --, so that streams and descriptors pair up; otherwise nothing more is yielded
                    n = term(it.path.info['n_conc'], IntS)
                    extra = ys[1:]
                    check(it, 'one-more-stream-exactly-when-nothing-was-selected' + tag, _b(len(extra) == 1) == (n == 0) if len(extra) <= 1 else False)
                    if len(extra) == 1:
                        y = extra[0].obj
                        ok = isinstance(y, GenObj) and fn_named(y, 'concatenator')
                        if ok:
                            kind_, items_ = it.lib.iterate(it, y.args[0])
                            ok = kind_ == 'concrete' and not list(items_)
                        check(it, 'the-stream-of-an-empty-selection-is-empty' + tag, ok)
                else:
                    check(it, 'only-the-package-outside-the-loop' + tag, len(ys) == 1)
            paths = vc.explore(fk, thunk2, min_paths=2)
            expect_no_raise_or_same(vc, fk, paths)


# ------------------------------------------------------------------------------------------------ duplicate

def mk_kvfile(it):
    """assumed contract T6 of kvfile.KVFile"""
    from pyvc.api import Opaque, Stream
    from pyvc.symex import Ev
    db = Opaque('KVFile', 'db')
    db.stored = []

    def insert_generator(it_, obj, a, k):
        it_.emit(Ev('Call', target=obj, method='insert_generator', args=(), kwargs=dict(k), result=None, objs=tuple(a)))
        src = a[0]
        g = Opaque('insert_generator', 'gen')
        g.attrs['source'] = src
        g.attrs['db'] = obj
        return g
    db.attrs['call:insert_generator'] = insert_generator
    return db


def sym_saver(vc):
    """duplicate.saver / saver.copies: per source row, in order: the pair handed to the key/value store is ('%08x' % position, a DEEP
    copy of the row) -- disjoint from the row, nested lists / objects included, because the store serialises the value only after
    the row itself has travelled on and a later step may have edited it or anything inside it in place (T6) -- and the row itself
    is queued to be re-yielded"""
    import z3
    from pyvc.api import real_function, LoopSpec, check, cover, row_stream, Opaque, term, StrS, IntS, Row, same_row
    from pyvc.symex import Ev
    fk = vc.under_contract(P + 'duplicate.py', ['saver'])
    vc.under_contract(P + 'duplicate.py', ['saver', 'copies'])

    def thunk(it):
        saver = real_function(it, 'dataflows.processors.duplicate', 'saver')
        rows = row_stream(it, 'resource')
        db = Opaque('KVFile', 'db')

        def insert_generator(it_, obj, a, k):
            # T6: the store pulls the pairs one by one (and yields each back before serialising it): run the real generator
            it_.emit(Ev('Call', target=obj, method='insert_generator', args=(), kwargs=dict(k), result=None, objs=tuple(a)))
            it_.run_generator(a[0])
            from pyvc.api import PyList
            return PyList([])        # (the re-yielding of the queued rows by the outer loop is decided by the bounded conservation runs)
        db.attrs['call:insert_generator'] = insert_generator

        def at_start(it, env, elem):
            idx, row = elem
            return idx, row, row.snapshot()

        def at_end(it, env, cap, events):
            idx, row, snap = cap
            ys = [e for e in events if e.kind == 'Yield']
            if len(ys) != 1 or not isinstance(ys[0].value, tuple) or len(ys[0].value) != 2:
                check(it, 'one-pair-per-row', False)
                return
            key, val = ys[0].value
            stored = ys[0].obj[1] if isinstance(ys[0].obj, tuple) else None
            HEX8 = z3.Function('py_format[08x]', lib_cell(), StrS)
            check(it, 'key-is-the-position-in-8-hex-digits', term(key, StrS) == HEX8(lib_cell().int(term(idx, IntS))))
            check(it, 'stored-value-is-a-deep-copy-of-the-row-not-the-row-and-not-a-shallow-copy',
                  isinstance(stored, Row) and stored is not row and getattr(stored, 'deep_copy_of', None) is row)
            check(it, 'stored-value-has-the-content-of-the-row', same_row(val, snap) if hasattr(val, 'dom') else False)
            q = env.lookup('originals')
            check(it, 'the-row-itself-is-queued-for-re-yielding', getattr(q, 'items', None) is not None and len(q.items) >= 1 and q.items[-1] is row)
            cover(it, 'iter-reachable')
        it.loops['copies#L0'] = LoopSpec(at_start=at_start, at_end=at_end)
        it.run_generator(it.call(saver, [rows, db, 1000]))
    paths = vc.explore(fk, thunk, min_paths=2)
    expect_no_raise_or_same(vc, fk, paths)


def lib_cell():
    from pyvc.api import Cell
    return Cell


def sym_duplicate_func(vc):
    """duplicate.func stream phase and descriptor phase"""
    import z3
    from pyvc.api import real_function, LoopSpec, check, cover, yields_of, GenObj, sym_str, PyList, Tree, Opaque, UFunc
    fk = vc.under_contract(P + 'duplicate.py', ['duplicate', 'func'])
    vc.under_contract(P + 'duplicate.py', ['duplicate', 'func', 'traverse_resources'])
    for to_end in (False, True, 'defaults'):
        for mode in ('source', 'other'):
            def thunk(it, to_end=to_end, mode=mode):
                maker = real_function(it, 'dataflows.processors.duplicate', 'duplicate')
                defaults = to_end == 'defaults'
                to_end = False if defaults else to_end
                package = mk_package2(it)
                if defaults:
                    # duplicate(): the FIRST resource is copied, the copy is called '<name>_copy' and kept in '<name>_copy.csv'
                    from pyvc.api import wrap, StrS
                    func = it.call(maker, [], {})
                    it.path.info['allowed_exc'] = {'IndexError': package.nres == 0}
                    src_name = wrap(package.RESNAME(z3.IntVal(0)))
                    tgt_name = wrap(z3.Concat(src_name.t, z3.StringVal('_copy')))
                    tgt_path = wrap(z3.Concat(tgt_name.t, z3.StringVal('.csv')))
                else:
                    src_name, tgt_name, tgt_path = sym_str(it, 'source'), sym_str(it, 'target_name'), sym_str(it, 'target_path')
                    func = it.call(maker, [], dict(source=src_name, target_name=tgt_name, target_path=tgt_path, duplicate_to_end=to_end))
                m = it.module('dataflows.processors.duplicate')
                dbs_made = []

                def KV(it_, a, k):
                    db = mk_kvfile(it_)
                    db.ctor_args = (tuple(a), dict(k))
                    dbs_made.append(db)
                    return db
                m.attrs['KVFile'] = UFunc('KVFile', KV, False)
                tag = '[to_end=%s,%s]' % ('defaults' if defaults else to_end, mode)
                # T6 (what is read back equals what was stored, for every cell type: datetimes with a fraction of a second or a zone,
                # Decimals, tuples) is assumed for the store as it is created BY DEFAULT; another serializer is another contract
                it.path.info['kv_check'] = lambda: all(d.ctor_args == ((), {}) for d in dbs_made)

                def d_start(it, env, rd):
                    eq = rd.children['name'].t == src_name.t
                    it.assume(eq if mode == 'source' else z3.Not(eq))
                    return rd

                def d_end(it, env, rd, events):
                    ys = yields_of(events)
                    check(it, 'descriptor-passes-first' + tag, len(ys) >= 1 and ys[0].obj is rd and not tree_writes_under(events, rd))
                    if mode == 'other':
                        check(it, 'other-descriptor-only' + tag, len(ys) == 1)
                    elif not to_end:
                        ok = len(ys) == 2 and isinstance(ys[1].obj, Tree) and ys[1].obj is not rd and \
                            getattr(ys[1].obj, 'copy_of', None) is rd
                        check(it, 'copy-placed-right-after-the-source' + tag, ok)
                        if ok:
                            c = ys[1].obj
                            if defaults:
                                from pyvc.api import term, StrS as _S
                                check(it, 'copy-of-the-first-resource-named-and-pathed-after-it' + tag, z3.And(
                                    term(c.children.get('name'), _S) == tgt_name.t, term(c.children.get('path'), _S) == tgt_path.t))
                            else:
                                check(it, 'copy-renamed-and-repathed' + tag, c.children.get('name') is tgt_name and
                                      c.children.get('path') is tgt_path)
                    else:
                        check(it, 'copy-deferred-to-the-end' + tag, len(ys) == 1 and
                              len([e for e in events if e.kind == 'Append']) == 1)
                    cover(it, 'descriptor-iter-reachable' + tag)

                def s_start(it, env, r):
                    eq = r.attrs['res'].attrs['name'].t == src_name.t
                    it.assume(eq if mode == 'source' else z3.Not(eq))
                    return r

                def s_end(it, env, r, events):
                    ys = yields_of(events)
                    if mode == 'other':
                        check(it, 'other-stream-same-object' + tag, len(ys) == 1 and same_stream(it, ys[0].obj, r) and r.stream.drained is False)
                    else:
                        ok = len(ys) >= 1 and isinstance(ys[0].obj, GenObj) and fn_named(ys[0].obj, 'saver') and \
                            ys[0].obj.args[0] is r and len(dbs_made) >= 1 and ys[0].obj.args[1] is dbs_made[-1]
                        check(it, 'original-goes-through-the-saver' + tag, ok)
                        check(it, 'the-copy-is-kept-in-a-store-with-the-default-lossless-serializer' + tag, it.path.info['kv_check']())
                        if not to_end:
                            ok2 = len(ys) == 2 and isinstance(ys[1].obj, GenObj) and fn_named(ys[1].obj, 'loader') and \
                                ys[1].obj.args[0] is dbs_made[-1]
                            check(it, 'copy-replayed-right-after' + tag, ok2)
                        else:
                            check(it, 'copy-replay-deferred' + tag, len(ys) == 1 and
                                  len([e for e in events if e.kind == 'Append']) == 1)
                    cover(it, 'stream-iter-reachable' + tag)
                it.loops['traverse_resources#L0'] = LoopSpec(at_start=d_start, at_end=d_end)
                it.loops['traverse_resources#L1'] = LoopSpec()      # (the deferred descriptors are re-yielded: nothing claimed per iteration)
                it.loops['func#L0'] = LoopSpec(at_start=s_start, at_end=s_end)
                it.run_generator(it.call(func, [package]))
            paths = vc.explore(fk, thunk, min_paths=2, inline={'duplicate.<locals>.func.<locals>.traverse_resources'})
            expect_no_raise_or_same(vc, fk, paths)


def sym_sources_package(vc):
    """sources.process_datapackage -- BOUNDED STRUCTURE (one existing resource, two sources with one resource each; concrete names:
    all three auto-named res_1, all different, the second source colliding): the source streams are opened IN THIS CALL (per run, not
    when the step was built); the existing resource keeps its place and name; the sources' resources are appended in order; the
    names of the combined package are pairwise distinct (C02), a name that is free is kept, and a renamed resource's auto-generated
    path is renamed with it; a second run opens the streams again"""
    from pyvc.api import real_function, check, cover, Opaque, PyDict, PyList, UFunc
    fk = vc.under_contract(P + 'sources.py', ['sources', 'process_datapackage'])
    vc.under_contract(P + 'sources.py', ['sources', '__init__'])
    vc.bounded_label = 'sources package phase'
    vc.bounded_notes.append('sources.process_datapackage: 1 existing resource, 2 sources with 1 resource each, concrete names '
                            '(colliding / distinct / second colliding)')
    for label, given in (('colliding', ('res_1', 'res_1', 'res_1')), ('distinct', ('first', 'cities', 'countries')),
                         ('second-collides', ('res_1', 'cities', 'res_1'))):
        def thunk(it, label=label, given=given):
            m = it.module('dataflows.processors.sources')
            SRC = m.attrs['sources']
            opened = []
            specs = [Opaque('spec', 'source_spec_a'), Opaque('spec', 'source_spec_b')]
            descs = {}

            def FlowStub(it_, a, k):
                i = specs.index(a[0])
                f = Opaque('Flow', 'subflow%d' % i)

                def datastream(it2, o, a2, k2):
                    ds = Opaque('DataStream', 'ds%d' % i)
                    dp = Opaque('Package', 'sdp%d' % i)
                    rl = PyList([PyDict({'name': given[i + 1], 'path': given[i + 1] + '.csv', 'schema': PyDict({'fields': PyList([])})})])
                    descs[i] = rl
                    dp.attrs['descriptor'] = PyDict({'resources': rl, 'profile': 'data-package'})
                    ds.attrs['dp'] = dp
                    opened.append(i)
                    return ds
                f.attrs['call:datastream'] = datastream
                return f
            m.attrs['Flow'] = UFunc('Flow', FlowStub, False)
            s = it.call(SRC, specs)
            check(it, 'no-source-stream-is-opened-when-the-step-is-built[%s]' % label, not opened)
            existing = [PyDict({'name': given[0], 'path': 'x.csv'})]
            dp = Opaque('Package', 'dp')
            dp.attrs['descriptor'] = PyDict({'resources': PyList(list(existing))})
            dp.attrs['call:commit'] = lambda it_, o, a, k: None
            it.call(it.lib.getattr_(it, s, 'process_datapackage'), [dp])
            check(it, 'every-source-stream-opened-in-this-call-in-order[%s]' % label, opened == [0, 1])
            res = dp.attrs['descriptor'].d['resources']
            ok = isinstance(res, PyList) and len(res.items) == 3 and res.items[0] is existing[0] and \
                res.items[1] is descs[0].items[0] and res.items[2] is descs[1].items[0]
            check(it, 'existing-resource-first-then-the-sources-resources-in-order[%s]' % label, ok)
            if ok:
                nm = [r.d['name'] for r in res.items]
                check(it, 'existing-name-kept[%s]' % label, nm[0] == given[0])
                check(it, 'all-names-pairwise-distinct[%s]' % label, all(isinstance(x, str) for x in nm) and len(set(nm)) == 3)
                if all(isinstance(x, str) for x in nm):
                    for j in (1, 2):
                        check(it, 'auto-generated-path-follows-the-name[%s,%d]' % (label, j), res.items[j].d['path'] == nm[j] + '.csv')
                        if given[j] not in nm[:j]:
                            check(it, 'a-name-that-is-free-is-kept[%s,%d]' % (label, j), nm[j] == given[j])
            # a second run opens the streams again (the first run consumed them)
            dp2 = Opaque('Package', 'dp_second_run')
            dp2.attrs['descriptor'] = PyDict({'resources': PyList([])})
            dp2.attrs['call:commit'] = lambda it_, o, a, k: None
            it.call(it.lib.getattr_(it, s, 'process_datapackage'), [dp2])
            check(it, 'a-second-run-opens-the-source-streams-again[%s]' % label, opened == [0, 1, 0, 1])
            cover(it, 'reachable[%s]' % label)
        vc.explore(fk, thunk)
    vc.bounded_label = None


def sym_appenders(vc):
    """iterable_loader / sources / load .process_resources: first every upstream stream through the default per-resource
    pass-through (yield from super().process_resources(resources)), then the new streams, in order"""
    from pyvc.api import real_function, check, cover, Stream, GenObj, Opaque, yields_of, PyList, LoopSpec, Instance, ufunc
    fk = vc.under_contract('dataflows/helpers/iterable_loader.py', ['iterable_loader', 'process_resources'])

    def base_ok(evs, resources):
        yf = [e for e in evs if e.kind == 'YieldFrom']
        return len(yf) == 1 and isinstance(yf[0].src, GenObj) and yf[0].src.fn.qualname == 'DataStreamProcessor.process_resources' \
            and yf[0].src.args[-1] is resources

    def thunk(it):
        IL = real_function(it, 'dataflows.helpers.iterable_loader', 'iterable_loader')
        il = it.call(IL, [PyList([])])
        newstream = Opaque('rowiter', 'new_rows')
        res = Opaque('Resource', 'self.res')
        res.attrs['call:iter'] = lambda it_, o, a, k: newstream if k.get('keyed') is True else None
        il.attrs['res'] = res
        resources = Stream('resources', lambda it_: mk_resource(it_, 'r'))
        it.run_generator(it.call(it.lib.getattr_(it, il, 'process_resources'), [resources]))
        evs = it.path.events
        names = [e.kind for e in evs if e.kind in ('YieldFrom', 'Yield')]
        check(it, 'upstream-streams-first-then-the-new-one', names == ['YieldFrom', 'Yield'] and base_ok(evs, resources))
        ys = yields_of(evs)
        y = ys[0].obj if len(ys) == 1 else None
        if isinstance(y, GenObj):
            # a generator of the step around the keyed row iterator: it hands on exactly that iterator's rows
            n0 = len(it.path.events)
            it.run_generator(y)
            inner = [e for e in it.path.events[n0:] if e.kind in ('YieldFrom', 'Yield')]
            check(it, 'new-stream-is-the-keyed-row-iterator', len(inner) == 1 and inner[0].kind == 'YieldFrom' and inner[0].src is newstream)
        else:
            check(it, 'new-stream-is-the-keyed-row-iterator', y is newstream)
    vc.explore(fk, thunk)

    # C04: what the source raised while its rows are streamed reaches the caller as it was raised (the row stream runs through
    # tabulator, which replaces any exception by SourceError(str(error)); the loader has recorded the original)
    from pyvc.symex import PyExc
    from pyvc import lib

    def thunk_err(it):
        IL = real_function(it, 'dataflows.helpers.iterable_loader', 'iterable_loader')
        il = it.call(IL, [PyList([])])
        original = lib.symbolic_exception(it, 'raised_by_the_source')
        recorded = it.decide(2, lambda i: True) == 1
        # the library iterator may fail (with ITS exception: tabulator's SourceError); when the failure came from the source,
        # the loader's handle_iterable has recorded the original before
        if recorded:
            il.attrs['exc'] = original
        keyed = Stream('keyed_rows', lambda it_: it_.fresh_row('row'), may_raise=True)
        res = Opaque('Resource', 'self.res')
        res.attrs['call:iter'] = lambda it_, o, a, k: keyed
        il.attrs['res'] = res
        resources = Stream('resources', lambda it_: mk_resource(it_, 'r'))
        gen = it.call(it.lib.getattr_(it, il, 'process_resources'), [resources])
        it.run_generator(gen)
        ys = yields_of(it.path.events)
        y = ys[0].obj if len(ys) == 1 else None
        try:
            if isinstance(y, GenObj):
                it.run_generator(y)
            else:
                it.lib.yield_from(it, y)
        except PyExc as pe:
            up = [e for e in it.path.events if e.kind == 'PullRaises']
            check(it, 'source-error-during-the-row-stream-reaches-the-caller-as-raised[recorded=%s]' % recorded,
                  len(up) == 1 and pe.exc is (original if recorded else up[0].exc))
            cover(it, 'row-stream-failure-reachable[recorded=%s]' % recorded)
            return
    vc.explore(fk, thunk_err, min_paths=2, explore_abandon=True)
    fk2 = vc.under_contract(P + 'sources.py', ['sources', 'process_resources'])

    def thunk2(it):
        SRC = real_function(it, 'dataflows.processors.sources', 'sources')
        s = it.call(SRC, [])
        cnt = [0]

        def mk_ds(i):
            ds = Opaque('DataStream', 'src%d' % i)
            ds.attrs['res_iter'] = Stream('src%d.res_iter' % i, lambda it_: mk_resource(it_, 'sr%d' % i))
            return ds
        ds_list = [mk_ds(0), mk_ds(1)]
        s.attrs['sources'] = PyList(ds_list)
        resources = Stream('resources', lambda it_: mk_resource(it_, 'r'))

        def at_end(it, env, r, events):
            ys = yields_of(events)
            # the ROWS of the source's resource are handed on (the very stream, nothing pulled), not the source's wrapper: the
            # base class pairs them by position with the resource as THIS package describes it (its name made unique there)
            check(it, 'rows-of-the-source-resource-appended-as-they-are', len(ys) == 1 and ys[0].obj is r.attrs['it'] and
                  r.stream.drained is False)
            cover(it, 'iter-reachable')
        it.loops['sources.process_resources#L1'] = LoopSpec(at_start=lambda it, env, r: r, at_end=at_end)
        it.run_generator(it.call(it.lib.getattr_(it, s, 'process_resources'), [resources]))
        evs = it.path.events
        check(it, 'upstream-first', [e.kind for e in evs if e.kind in ('YieldFrom', 'Yield')][:1] == ['YieldFrom'] and base_ok(evs, resources))
        check(it, 'every-source-drained-in-order', all(d.attrs['res_iter'].drained for d in ds_list))
    vc.explore(fk2, thunk2, min_paths=2)
    fk3 = vc.under_contract(P + 'load.py', ['load', 'process_resources'])
    for strip, limit, kind in ((True, None, 'file'), (False, 5, 'file'), (True, 3, 'file'), (True, 0, 'file'), (False, 0, 'file'),
                               (True, None, 'datapackage'), (True, 2, 'datapackage'), (True, None, 'pair'), (False, 0, 'pair')):
        def thunk3(it, strip=strip, limit=limit, kind=kind):
            L = real_function(it, 'dataflows.processors.load', 'load')
            src_arg = (Opaque('descriptor', 'given_descriptor'), Opaque('iterators', 'given_iterators')) if kind == 'pair' else \
                ('pkg/datapackage.json' if kind == 'datapackage' else 'x.csv')
            ld = it.call(L, [src_arg], dict(strip=strip, limit_rows=limit))
            if kind == 'datapackage':
                ld.attrs['load_dp'] = Opaque('Package', 'loaded_package')     # what safe_process_datapackage leaves for such a source
            d1, d2 = Opaque('descriptor', 'd1'), Opaque('descriptor', 'd2')
            i1, i2 = Opaque('rowiter', 'i1'), Opaque('rowiter', 'i2')
            ld.attrs['resource_descriptors'] = PyList([d1, d2])
            ld.attrs['iterators'] = PyList([i1, i2])
            resources = Stream('resources', lambda it_: mk_resource(it_, 'r'))
            it.run_generator(it.call(it.lib.getattr_(it, ld, 'process_resources'), [resources]))
            evs = it.path.events
            kinds = [e.kind for e in evs if e.kind in ('YieldFrom', 'Yield')]
            check(it, 'upstream-first-then-one-stream-per-loaded-resource[%s,%s]' % (strip, limit),
                  kinds == ['YieldFrom', 'Yield', 'Yield'] and base_ok(evs, resources))
            ys = yields_of(evs)
            for y, src in zip(ys, (i1, i2)):
                # wrappers: caster -> stripper (if strip) -> limiter (if limit_rows)
                chain = []
                g = y.obj
                while isinstance(g, GenObj):
                    chain.append(g.fn.name)
                    g = g.args[-1]
                # a limit is honoured whenever one is given (0 included); white space is stripped from values parsed from a file,
                # never from the values of a data package (datapackage.json or a (descriptor, iterators) pair)
                want = (['limiter'] if limit is not None else []) + (['stripper'] if strip and kind == 'file' else [])
                check(it, 'wrapper-order-limit(strip(cast(iterator)))[%s,%s,%s]' % (strip, limit, kind), chain == want and g is src)
            # a (descriptor, iterators) pair: after the last loaded stream was handed on, the source's stream of resources is read to
            # its end, so that a flow behind it finishes (its dumps get their descriptor, its checkpoints their final name, its
            # finalizers are called: C05); nothing of the kind for files and data packages
            drains = [i for i, e in enumerate(evs) if e.kind == 'Drain' and e.src is ld.attrs['iterators']]
            last_yield = max([i for i, e in enumerate(evs) if e.kind == 'Yield'] or [-1])
            if kind == 'pair':
                check(it, 'pair-source-read-to-its-end-after-the-last-stream[%s,%s]' % (strip, limit), len(drains) == 1 and drains[0] > last_yield)
            else:
                check(it, 'nothing-drained-for-file-and-package-sources[%s,%s,%s]' % (strip, limit, kind), not drains)
        vc.explore(fk3, thunk3)


def nat_restructure(h):
    """bounded end-to-end conservation: concatenate / duplicate / delete_resource / appending sources on real packages"""
    import os, tempfile, shutil
    from dataflows import Flow, concatenate, duplicate, delete_resource, load, sources, dump_to_path, update_resource
    for _ in range(h.n(40, 400)):
        nres = h.rng.randint(1, 5)
        cols_pool = ['a', 'b', 'c', 'd']
        data, cols = [], []
        for k in range(nres):
            cs = h.rng.sample(cols_pool, h.rng.randint(1, 3))
            n = h.rng.choice([0, 1, 3, 1100]) if h.tier == 'thorough' else h.rng.choice([0, 1, 2, 4])
            data.append([{c: '%s%d_%d' % (c, k, i) if h.rng.random() < 0.9 else None for c in cs} for i in range(n)])
            cols.append(cs)
        kind = h.rng.choice(['concatenate', 'duplicate', 'delete', 'append'])

        def base():
            return [x for k, rs in enumerate(data) for x in ([dict(r) for r in rs], update_resource(-1, name='r%d' % k))]
        cfg = (kind, data)
        if kind == 'duplicate':
            src = h.rng.randint(0, nres - 1)
            to_end = h.rng.random() < 0.5
            bs = h.rng.choice([1, 2, 1000])
            got = h.run(lambda: Flow(*base(), duplicate('r%d' % src, 'copy', 'copy.csv', batch_size=bs, duplicate_to_end=to_end)).results())
            if got[0] != 'ok':
                h.check(False, P + 'duplicate.py', cfg, 'ok', got[:2])
                continue
            res, dp, _ = got[1]
            names = [r['name'] for r in dp.descriptor['resources']]
            exp_names = ['r%d' % k for k in range(nres)]
            exp_data = list(data)
            if to_end:
                exp_names.append('copy')
                exp_data = exp_data + [data[src]]
            else:
                exp_names.insert(src + 1, 'copy')
                exp_data = exp_data[:src + 1] + [data[src]] + exp_data[src + 1:]
            h.check(names == exp_names and res == exp_data, P + 'duplicate.py::duplicate.func', (cfg, src, to_end, bs), (exp_names, exp_data), (names, res))
        elif kind == 'delete' and h.rng.random() < 0.4:
            # duplicate, then delete the original: the copy is filled while the original is consumed, so the deleted
            # original must be drained
            src = h.rng.randint(0, nres - 1)
            to_end = h.rng.random() < 0.5
            got = h.run(lambda: Flow(*base(), duplicate('r%d' % src, 'copy', 'copy.csv', duplicate_to_end=to_end),
                                     delete_resource('r%d' % src)).results())
            ok = got[0] == 'ok' and dict(zip([r['name'] for r in got[1][1].descriptor['resources']], got[1][0])).get('copy') == data[src]
            h.check(ok, P + 'delete_resource.py::delete_resource.func', (cfg, src, to_end), data[src], got[:2] if got[0] != 'ok' else got[1][0])
        elif kind == 'delete':
            sel = h.subset(['r%d' % k for k in range(nres)], 0.5)
            got = h.run(lambda: Flow(*base(), delete_resource(sel)).results())
            ok = got[0] == 'ok' and [r['name'] for r in got[1][1].descriptor['resources']] == ['r%d' % k for k in range(nres) if 'r%d' % k not in sel] \
                and got[1][0] == [d for k, d in enumerate(data) if 'r%d' % k not in sel]
            h.check(ok, P + 'delete_resource.py::delete_resource.func', (cfg, sel), None, got[:2])
        elif kind == 'append':
            extra = [{'z': i} for i in range(h.rng.randint(0, 3))]
            got = h.run(lambda: Flow(*base(), [dict(r) for r in extra]).results())
            ok = got[0] == 'ok' and got[1][0] == data + [extra] and \
                [r['name'] for r in got[1][1].descriptor['resources']][:nres] == ['r%d' % k for k in range(nres)]
            h.check(ok, 'dataflows/helpers/iterable_loader.py::iterable_loader.process_resources', cfg, data + [extra], got[:2])
        else:
            lo = h.rng.randint(0, nres - 1)
            hi = h.rng.randint(lo, nres - 1)
            sel = ['r%d' % k for k in range(lo, hi + 1)]
            # the target may be given the name of one of the resources it replaces (the 'rename columns in place' idiom)
            tname = 'cat' if h.rng.random() < 0.6 else h.rng.choice(sel)
            allc = sorted({c for k in range(lo, hi + 1) for c in cols[k]})
            fields = {c: [] for c in allc}
            rows_in = [r for k in range(lo, hi + 1) for r in data[k]]
            if h.rng.random() < 0.5 and len(allc) >= 2:
                # alias: source column allc[1] is an alias of target allc[0]; some resources use the alias, some the
                # target name itself -- both must land in the target column
                tgtc, alias = allc[0], allc[1]
                if not any(tgtc in r and alias in r for r in rows_in):
                    fields = {c: [] for c in allc if c != alias}
                    fields[tgtc] = [alias]
                    got = h.run(lambda: Flow(*base(), concatenate(fields, dict(name=tname), resources=sel)).results())
                    keep = [c for c in allc if c != alias]
                    exp_rows = [{c: (r.get(c) if c != tgtc else (r.get(tgtc) if r.get(tgtc) is not None else r.get(alias)))
                                 for c in keep} for r in rows_in]
                    if any(all(v is None for v in r.values()) for r in rows_in):
                        continue
                    ok = got[0] == 'ok' and got[1][0][lo] == [{c: r[c] for c in got[1][0][lo][0]} for r in exp_rows] if exp_rows else got[0] == 'ok'
                    h.check(ok, P + 'concatenate.py::concatenate.func', (cfg, sel, fields, tname), exp_rows, got[:2] if got[0] != 'ok' else got[1][0][lo])
                    continue
            if any(all(v is None for v in r.values()) for r in rows_in):
                continue      # documented: an all-null row is rejected by concatenate
            got = h.run(lambda: Flow(*base(), concatenate(fields, dict(name=tname), resources=sel)).results())
            exp_rows = [{c: r.get(c) for c in allc} for r in rows_in]
            exp_data = data[:lo] + [exp_rows] + data[hi + 1:]
            exp_names = ['r%d' % k for k in range(lo)] + [tname] + ['r%d' % k for k in range(hi + 1, nres)]
            ok = got[0] == 'ok' and got[1][0] == exp_data and [r['name'] for r in got[1][1].descriptor['resources']] == exp_names
            h.check(ok, P + 'concatenate.py::concatenate.func', (cfg, sel, tname), (exp_names, exp_data), got[:2] if got[0] != 'ok' else (got[1][0],))


def nat_concatenate_in_place(h):
    """concatenate used to rename columns of ONE resource in place: the target carries the name of the resource it replaces"""
    from dataflows import Flow, concatenate, update_resource
    for _ in range(h.n(6, 60)):
        n = h.rng.randint(1, 4)
        nother = h.rng.randint(0, 2)
        rows = [{'id': i, 'f': 'f%d' % i, 'c': 'c%d' % i} for i in range(n)]
        others = [[{'z': k * 10 + i} for i in range(h.rng.randint(0, 2))] for k in range(nother)]
        pos = h.rng.randint(0, nother)
        srcs = others[:pos] + [rows] + others[pos:]
        steps = []
        for k, rs in enumerate(srcs):
            steps += [[dict(r) for r in rs], update_resource(-1, name=('main' if k == pos else 'o%d' % k))]
        fields = {'id': [], 'name': ['f'], 'place': ['c']}
        tname = h.rng.choice(['main', 'renamed'])
        got = h.run(lambda: Flow(*steps, concatenate(dict(fields), dict(name=tname), resources='main')).results())
        want = [{'id': r['id'], 'name': r['f'], 'place': r['c']} for r in rows]
        ok = got[0] == 'ok' and got[1][0][pos] == want and [len(x) for x in got[1][0]] == [len(x) for x in srcs]
        h.check(ok, P + 'concatenate.py::concatenator', (tname, n, pos), want, got[:2] if got[0] != 'ok' else got[1][0][pos])


def nat_concatenate_projection(h):
    """a single selected resource and no renamed fields: the rows are still mapped onto the target fields (surplus source fields
    dropped, absent target fields null) -- observed by a step placed right after concatenate, before any re-cast"""
    from dataflows import Flow, concatenate
    for nsrc in (1, 2):
        seen = []

        def observe(rows):
            if rows.res.name == 'target':
                for r in rows:
                    seen.append(dict(r))
                    yield r
            else:
                yield from rows
        srcs = [[{'id': i, 'kind': 'k%d' % i, 'surplus': 's'} for i in range(3)], [{'id': 10, 'kind': 'z', 'surplus': 't'}]][:nsrc]
        got = h.run(lambda: Flow(*[[dict(r) for r in s] for s in srcs],
                                 concatenate({'id': [], 'kind': [], 'extra': []}, dict(name='target', path='target.csv')), observe).results())
        want = [{'id': r['id'], 'kind': r['kind'], 'extra': None} for s in srcs for r in s]
        fields = [f['name'] for f in got[1][1].descriptor['resources'][0]['schema']['fields']] if got[0] == 'ok' else None
        h.check(got[0] == 'ok' and seen == want and fields == ['id', 'kind', 'extra'], P + 'concatenate.py::concatenate.func',
                ('projection without renames', nsrc), want, (seen, fields) if got[0] == 'ok' else got[:2])


def nat_concatenate_keys(h):
    """the target's primary key: the (renamed) key fields of the concatenated resources that made it into the target, no key
    entry at all when there is none -- and the rows still validate against it"""
    from dataflows import Flow, concatenate, set_primary_key
    a = [{'id': i, 'kind': 'k%d' % i} for i in range(3)]
    b = [{'ident': 10 + i, 'kind': 'z%d' % i} for i in range(2)]
    for keyed, want_pk in (((), None), ((0,), ['id']), ((0, 1), ['id'])):
        steps = [set_primary_key(['id'] if k == 0 else ['ident'], resources=k) for k in keyed]
        got = h.run(lambda: Flow([dict(r) for r in a], [dict(r) for r in b], *steps,
                                 concatenate({'id': ['ident'], 'kind': []}, dict(name='target', path='target.csv'))).results())
        ok = got[0] == 'ok' and got[1][1].descriptor['resources'][0]['schema'].get('primaryKey') == want_pk and \
            got[1][0] == [[{'id': r.get('id', r.get('ident')), 'kind': r['kind']} for r in a + b]] and got[1][1].valid
        h.check(ok, P + 'concatenate.py::concatenate.func', ('primary keys of the concatenated resources', keyed), want_pk,
                (got[1][1].descriptor['resources'][0]['schema'].get('primaryKey'), got[1][0]) if got[0] == 'ok' else got[:2])


def nat_load_reuse(h):
    """a flow with a load step run twice (process() then results(); the documented way to get both stats and rows), and one load
    object used in two flows: every run appends the loaded resources once, after the existing ones, with all their rows"""
    import os, tempfile, shutil
    from dataflows import Flow, load, dump_to_path
    d = tempfile.mkdtemp(prefix='c16l_')
    try:
        a = [{'a': i} for i in range(3)]
        b = [{'b': 'x%d' % i} for i in range(5)]
        Flow([dict(r) for r in a], [dict(r) for r in b], dump_to_path(d)).process()
        for what, mk, want_names, want_rows in (
                ('datapackage', lambda: load(os.path.join(d, 'datapackage.json')), ['first', 'res_1', 'res_2'], [1, 3, 5]),
                ('csv file', lambda: load(os.path.join(d, 'res_2.csv'), name='loaded'), ['first', 'loaded'], [1, 5])):
            from dataflows import update_resource
            step = mk()
            f = Flow([{'c': 1}], update_resource(-1, name='first'), step)
            for run in (1, 2, 3):
                got = h.run(lambda: f.results())
                ok = got[0] == 'ok' and [r['name'] for r in got[1][1].descriptor['resources']] == want_names and \
                    [len(r) for r in got[1][0]] == want_rows
                h.check(ok, 'dataflows/processors/load.py::load.safe_process_datapackage', (what, 'run %d of the same flow' % run),
                        (want_names, want_rows), ([r['name'] for r in got[1][1].descriptor['resources']], [len(r) for r in got[1][0]])
                        if got[0] == 'ok' else got[:2])
            got = h.run(lambda: Flow([{'c': 1}], update_resource(-1, name='first'), step).results())
            ok = got[0] == 'ok' and [r['name'] for r in got[1][1].descriptor['resources']] == want_names and [len(r) for r in got[1][0]] == want_rows
            h.check(ok, 'dataflows/processors/load.py::load.safe_process_datapackage', (what, 'the same load object in another flow'),
                    (want_names, want_rows), got[:2] if got[0] != 'ok' else [len(r) for r in got[1][0]])
    finally:
        shutil.rmtree(d, ignore_errors=True)


def nat_duplicate_aliasing(h):
    """duplicate followed by an in-place row edit: the copy must still equal the original input rows (known finding)"""
    from dataflows import Flow, duplicate
    for _ in range(h.n(3, 20)):
        n = h.rng.randint(1, 4)
        data = [{'a': i} for i in range(n)]

        def bump(row):
            row['a'] += 100
        got = h.run(lambda: Flow([dict(r) for r in data], duplicate(), bump).results()[0])
        want = [[{'a': i + 100} for i in range(n)]] * 2      # step-by-step evaluation: both resources edited once
        h.check(got[0] == 'ok' and got[1] == want, P + 'duplicate.py::saver', data, want, got[:2])


from contracts import C10 as _K10   # noqa: E402  (ResourceMatcher: the contract every selector-taking step is checked against)

def nat_duplicate_value_kinds(h):
    """bounded: the copy made by duplicate equals the original cell by cell, TYPE by type: datetimes with a fraction of a second or a
    zone, times, Decimals of several exponents, nested arrays / objects, booleans next to integers, empty strings, long texts"""
    import datetime, decimal
    from dataflows import Flow, duplicate
    tz = datetime.timezone(datetime.timedelta(hours=-5))
    rows = [{'ts': datetime.datetime(2020, 1, 2, 3, 4, 5, 678901), 'aware': datetime.datetime(2020, 1, 2, 10, 30, tzinfo=tz),
             't': datetime.time(3, 4, 5, 250000), 'd': datetime.date(2020, 2, 29), 'dec': decimal.Decimal('1.50'), 'n': 7, 'b': True,
             's': '', 'big': 'x' * 5000, 'arr': [1, 'a', None, [2]], 'obj': {'k': {'m': 1.5}}},
            {'ts': datetime.datetime(1999, 12, 31, 23, 59, 59, 1), 'aware': datetime.datetime(2020, 6, 1, 0, 0, 0, 7, tzinfo=datetime.timezone.utc),
             't': datetime.time(0, 0), 'd': datetime.date(1, 1, 1), 'dec': decimal.Decimal('-2E+3'), 'n': 0, 'b': False,
             's': ' é ', 'big': '', 'arr': [], 'obj': {}}]
    for to_end in (False, True):
        for bs in (1, 1000):
            got = h.run(lambda: Flow([dict(r) for r in rows], duplicate('res_1', batch_size=bs, duplicate_to_end=to_end)).results(on_error=None)[0])
            ok = got[0] == 'ok' and len(got[1]) == 2 and all(
                a == b and all(type(a[k]) is type(b[k]) and repr(a[k]) == repr(b[k]) for k in a) for a, b in zip(got[1][0], got[1][1])) \
                and len(got[1][0]) == len(rows) == len(got[1][1])
            h.check(ok, P + 'duplicate.py::loader', (to_end, bs), 'copy == original, cell by cell and type by type',
                    [(k, repr(a[k]), repr(b[k])) for a, b in zip(got[1][0], got[1][1]) for k in a if repr(a[k]) != repr(b[k])] if got[0] == 'ok' else got[:2])


def nat_duplicate_row_shapes(h):
    """bounded: duplicate of a resource whose rows are keyed in ANOTHER order than its schema lists the fields (after a select /
    concatenate / a custom row step), or lack a declared field: the copy has the same rows as the original, field by field"""
    from dataflows import Flow, duplicate, select_fields, concatenate, update_resource
    data = [{'name': 'person-%d' % i, 'city': 'city-%d' % i, 'n': i} for i in range(5)]

    def reorder(rows):
        for r in rows:
            yield dict(reversed(list(r.items())))

    def sparse(rows):
        for i, r in enumerate(rows):
            if i % 2:
                r = {k: v for k, v in r.items() if k != 'city'}
            yield r
    cases = {
        'select-reorders-the-schema': [select_fields(['city', 'name'])],
        'concatenate-with-another-field-order': [concatenate(dict(city=[], name=[]), dict(name='res_1', path='res_1.csv'))],
        'rows-function-reverses-the-keys': [reorder],
        'rows-without-one-declared-field': [sparse],
    }
    for cname, steps in cases.items():
        for to_end in (False, True):
            for bs in (1, 1000):
                got = h.run(lambda: Flow([dict(r) for r in data], *steps, duplicate('res_1', batch_size=bs, duplicate_to_end=to_end)).results(on_error=None))
                if got[0] != 'ok':
                    h.check(False, P + 'duplicate.py::saver', (cname, to_end, bs), 'runs', got[:2])
                    continue
                res, dp, _ = got[1]
                h.check(len(res) == 2 and res[0] == res[1] and len(res[0]) == len(data), P + 'duplicate.py::saver', (cname, to_end, bs), res[0][:2], res[1][:2] if len(res) > 1 else res)


ITEMS = [
    _K10._mk_matcher_item(),
    Item('concatenate.concatenator', sym_concatenator, [], P + 'concatenate.py::concatenator'),
    Item('concatenate.func', sym_concatenate_func, [], P + 'concatenate.py::concatenate.func'),
    Item('duplicate.func', sym_duplicate_func, [], P + 'duplicate.py::duplicate.func'),
    Item('duplicate.saver', sym_saver, [('row-shapes', nat_duplicate_row_shapes), ('value-kinds', nat_duplicate_value_kinds)], P + 'duplicate.py::saver'),
    Item('iterable_loader.naming', BA.sym_iterable_loader_naming, [], 'dataflows/helpers/iterable_loader.py::iterable_loader.process_datapackage'),
    Item('delete_resource.func', K10.sym_delete_resource, [], P + 'delete_resource.py::delete_resource.func'),
    Item('appenders', sym_appenders, [], 'dataflows/helpers/iterable_loader.py::iterable_loader.process_resources'),
    Item('pipelines', None, [('whole-resource-steps', K10.nat_whole_resource_steps), ('conservation', nat_restructure), ('concatenate-in-place', nat_concatenate_in_place), ('concatenate-projection', nat_concatenate_projection), ('concatenate-keys', nat_concatenate_keys), ('load-reuse', nat_load_reuse), ('duplicate-aliasing', nat_duplicate_aliasing)], None),
    Item('sources.package-phase', sym_sources_package, [], P + 'sources.py::sources.process_datapackage'),
    Item('recorded-findings', None, [('bounded', KF.nat_findings_c16)], 'dataflows/processors/sources.py::sources.process_datapackage'),
]

from contracts import reuse as _REUSE   # noqa: E402
ITEMS.append(Item('second-use', None, [('catalogue', _REUSE.nat_second_use_for('C16'))], 'dataflows/processors/concatenate.py::concatenate.func'))
