"""C06  Row-wise pipelines stream with bounded look-ahead.

Per stage the look-ahead constant is proved from the generator's structure under the cut-loop semantics: a stage has
look-ahead 0 iff (i) it never drains / lists / sorts its input (no Drain event), (ii) every row it yields is yielded inside
the iteration that pulled it (the per-iteration step obligations), (iii) nothing is yielded after exhaustion, and, for
dispatchers, (iv) handing out a resource's generator pulls none of its rows and generators are created lazily
(LazyIterator, process_resources).  Look-ahead of a pipeline <= sum of the stages' constants (induction over the fold,
C01).  The schema-inference sample (iterable_loader: 100 rows, load: sample_size) is the only non-zero constant; it lives
in tableschema / tabulator and in `itertools.islice(.., SAMPLE_SIZE)` and is measured by the bounded end-to-end test.
"""
from contracts.common import Item
from contracts import streams as S, dumpers as DM, natives as N, base as BA
from contracts import C17 as K17, C15 as K15, C14 as K14, C10 as K10, C13 as K13

TRUSTED = ['T1 pyvc model of Python (DESIGN 3)', 'T15 tabulator / tableschema iterate lazily apart from their sample', 'T16 z3 / cvc5']
ASSUMPTIONS = ['buffering steps (sort_rows, join, duplicate replay, deduplicate key set) are outside the property\'s class',
               'user row / rows functions are assumed to be generators that do not buffer']

ITEMS = [
    Item('DataStreamProcessor.defaults', S.sym_dsp_base, [], 'dataflows/base/datastream_processor.py::DataStreamProcessor.process_resource'),
    Item('filter_rows.process_resource', K17.sym_filter_process_resource, [], 'dataflows/processors/filter_rows.py::process_resource'),
    Item('filter_rows.func', K17.sym_filter_func, [], 'dataflows/processors/filter_rows.py::filter_rows.func'),
    Item('unpivot.unpivot_rows', K17.sym_unpivot_rows, [], 'dataflows/processors/unpivot.py::unpivot_rows'),
    Item('delete_fields.process_resource', K15.sym_delete_rows, [], 'dataflows/processors/delete_fields.py::process_resource'),
    Item('select_fields.process_resource', K15.sym_select_rows, [], 'dataflows/processors/select_fields.py::process_resource'),
    Item('rename_fields.process_resource', K15.sym_rename_rows, [], 'dataflows/processors/rename_fields.py::process_resource'),
    Item('add_computed_field.process_resource', K15.sym_computed_rows, [], 'dataflows/processors/add_computed_field.py::process_resource'),
    Item('find_replace._find_replace', K15.sym_find_replace_rows, [], 'dataflows/processors/find_replace.py::_find_replace'),
    Item('schema_validator', K14.sym_schema_validator, [], 'dataflows/base/schema_validator.py::schema_validator'),
    Item('set_type.transformer', K14.sym_set_type_transformer, [], 'dataflows/processors/set_type.py::set_type.transformer'),
    Item('validate.custom', K14.sym_validate_custom, [], 'dataflows/processors/validate.py::validate.rows_validator.func'),
    Item('printer.func', S.sym_printer, [], 'dataflows/processors/printer.py::printer.func'),
    Item('stream.res_writer', S.sym_res_writer, [], 'dataflows/processors/stream.py::stream.res_writer'),
    Item('stream.func', S.sym_stream_func, [], 'dataflows/processors/stream.py::stream.func'),
    Item('checkpoint.notify', S.sym_notify, [], 'dataflows/processors/checkpoint.py::_notify_checkpoint_saved.step'),
    Item('DumperBase.process_resources', DM.sym_process_resources, [], DM.D + 'dumper_base.py::DumperBase.process_resources'),
    Item('DumperBase.row_counter', DM.sym_row_counter, [], DM.D + 'dumper_base.py::DumperBase.row_counter'),
    Item('FileDumper.rows_processor', DM.sym_rows_processor, [], DM.D + 'file_dumper.py::FileDumper.rows_processor'),
    Item('FileDumper.dispatch', DM.sym_file_dumper_dispatch, [], DM.D + 'file_dumper.py::FileDumper.process_datapackage'),
    Item('iterable_storage.describe', BA.sym_iterable_storage, [], 'dataflows/helpers/iterable_loader.py::iterable_storage.describe'),
    Item('iterable_loader.lazy', BA.sym_iterable_loader_lazy, [], 'dataflows/helpers/iterable_loader.py::iterable_loader.process_datapackage'),
    Item('LazyIterator+get_iterator', BA.sym_get_iterator, [], BA.B + 'datastream_processor.py::DataStreamProcessor.get_iterator'),
    # building the chain runs nothing (a first-run checkpoint is the steps + stream + notify, whatever an earlier run left behind)
    Item('checkpoint', S.sym_checkpoint, [], 'dataflows/processors/checkpoint.py::checkpoint._preprocess_chain'),
    Item('load.limiter', K13.sym_limiter, [], 'dataflows/processors/load.py::load.limiter'),
    Item('load.stringer', K13.sym_stringer, [], 'dataflows/processors/load.py::load.stringer'),
    Item('load.stripper', K13.sym_stripper, [], 'dataflows/processors/load.py::load.stripper'),
    Item('pipelines', None, [('look-ahead', N.nat_lookahead), ('sql-source', N.nat_lookahead_sql_source)], None),
]
