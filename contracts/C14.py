"""C14  set_type and validate cast valid values and apply the error policy exactly.

schema_validator is proved in two layers (nested cut loops):
  field step   (arbitrary row contents, arbitrary `okay`, arbitrary field of the checked field list):
        castable(f, row.get(f.name))  => row[f.name] := cast(f, .) ; okay unchanged ; no handler call ; no other key written
        otherwise                     => exactly one handler call (res_name, row, i, e, f) with e = that CastError ;
                                         okay := okay and truthy(result) ; row changed only as the handler changes it
  row step     after the field loop: the row is yielded (same object) iff okay ; okay starts as True for every row
 and for the four predefined policies (raise / drop / ignore / clear) and the default the field step is compared with the
 documented policy; wrap_handler's arity adapter, set_type's field selection / transform-before-cast, validate's custom
 validators are separate items.  `cast` is tableschema's Field.cast_value: assumed total function to value | CastError (T5).
"""
from contracts import findings_natives as KF
from contracts.common import fn_named
from contracts.common import (same_row_object, Item, mk_resource, run_spec, ghost_row, expect_no_raise_or_same, _b)

TRUSTED = ['T1 pyvc model of Python (DESIGN 3)', 'T5 tableschema Field.cast_value: value | CastError, deterministic',
           'T2 re (set_type field pattern: compile(^name$).match uninterpreted)', 'T16 z3 / cvc5']
ASSUMPTIONS = ['a custom on_error handler is a deterministic function of its arguments (it may edit the row it is given)',
               'user transform / validator callables are deterministic functions of their arguments']

SV_FILE = 'dataflows/base/schema_validator.py'

SPEC = '''
def field_step(res_name, row, i, field, okay, handler):
    v = row.get(field.name)
    if castable(field, v):
        row[field.name] = cast(field, v)
        return okay
    e = cast_error(field, v)
    if not handler(res_name, row, i, e, field):
        return False
    return okay


def policy_step(policy, res_name, row, i, field, okay):
    v = row.get(field.name)
    if castable(field, v):
        row[field.name] = cast(field, v)
        return okay
    if policy == 'raise':
        raise ValidationError(res_name, row, i, cast_error(field, v))
    if policy == 'drop':
        return False
    if policy == 'clear':
        row[field.name] = None
    return okay


def row_step(row, okay):
    if okay:
        return [row]
    return []


def transform_step(row, field_name, transform):
    row[field_name] = transform(row.get(field_name), field_name, row)
    return row


def custom_row_step(res_name, row, i, row_validator, handler, field):
    # field: the schema field a ONE-FIELD validator looks at (the handler needs it: `clear` nulls exactly that field), None for a
    # validator of whole rows
    if not row_validator(row):
        if not handler(res_name, row, i, None, field):
            return []
    return [row]
'''


def cast_model():
    """z3 symbols of the assumed contract of Field.cast_value (T5)"""
    import z3
    from pyvc.api import IntS, StrS, Cell, BoolS
    return dict(CASTOK=z3.Function('castable', IntS, Cell, BoolS), CAST=z3.Function('cast', IntS, Cell, Cell),
                CASTERR=z3.Function('cast_error', IntS, Cell, IntS), FIELDNAME=z3.Function('field_name', IntS, StrS))


def mk_field(it, hint='field'):
    from pyvc.api import Opaque, SV, IntS, wrap
    from pyvc.symex import PyExc
    from pyvc.values import ExcV
    M = cast_model()
    ft = it.fresh(hint, IntS)
    f = Opaque('Field', hint, term=ft)
    f.attrs['name'] = wrap(M['FIELDNAME'](ft))

    def cast_value(it_, obj, args, kwargs):
        c = it_.cell_of(args[0])
        if it_.branch(M['CASTOK'](ft, c)):
            return it_.uncell(M['CAST'](ft, c))
        e = ExcV('CastError', (), term=M['CASTERR'](ft, c))
        raise PyExc(e)
    f.attrs['call:cast_value'] = cast_value
    return f, ft


def spec_free(it):
    """free functions of the spec, tied to the same z3 symbols as the cast model"""
    from pyvc.api import UFunc, wrap
    from pyvc.values import ExcV
    M = cast_model()

    def castable(it_, args, kw):
        return wrap(M['CASTOK'](args[0].term, it_.cell_of(args[1])))

    def cast(it_, args, kw):
        return it_.uncell(M['CAST'](args[0].term, it_.cell_of(args[1])))

    def cast_error(it_, args, kw):
        return ExcV('CastError', (), term=M['CASTERR'](args[0].term, it_.cell_of(args[1])))
    return dict(castable=UFunc('castable', castable), cast=UFunc('cast', cast), cast_error=UFunc('cast_error', cast_error))


def mk_validated_resource(it, as_resource=True):
    """resource (datapackage.Resource or plain descriptor dict) with schema.fields = opaque list of Fields"""
    from pyvc.api import Opaque, SymSeq, IntS, sym_str, Tree, PyDict
    rw = mk_resource(it, 'res')
    res = rw.attrs['res']
    schema = Opaque('Schema', 'schema')

    def mk(it_):
        f, ft = mk_field(it_, 'fld')
        return f, ft
    schema.attrs['fields'] = SymSeq('schema.fields', it.fresh('schema.fields', IntS), mk)
    res.attrs['schema'] = schema
    return rw, res


def calls_of(events, name):
    return [e for e in events if e.kind == 'Call' and e.target == name]


def same_call(it, a, b):
    """two handler Call events have the same arguments (rows compared by content at call time)"""
    from pyvc.api import value_matches, conj
    if len(a.args) != len(b.args):
        return False
    ka, kb = getattr(a, 'kwargs', None) or {}, getattr(b, 'kwargs', None) or {}
    if set(ka) != set(kb):
        return False           # (the same keyword arguments, by name)
    return conj([value_matches(it, x, y) for x, y in zip(a.args, b.args)] + [value_matches(it, ka[k], kb[k]) for k in sorted(ka)])


# ------------------------------------------------------------------------------------------------ schema_validator

def sym_schema_validator(vc):
    import z3
    from pyvc.api import (SpecModule, real_function, LoopSpec, check, cover, yields_of, ufunc, same_row, Row, str_seq,
                          SymList, row_stream, yields_match, PyList)
    fk = vc.under_contract(SV_FILE, ['schema_validator'])
    spec = SpecModule(SPEC)
    policies = {'H5': None, 'H4': None, 'raise': 'raise_exception', 'ignore': 'ignore', 'drop': 'drop', 'clear': 'clear',
                'default': None}
    for pol in policies:
        for fn_kind in ('all', 'subset'):
            def thunk(it, pol=pol, fn_kind=fn_kind):
                svm = it.module('dataflows.base.schema_validator')
                f = svm.attrs['schema_validator']
                rw, res = mk_validated_resource(it)
                rows = row_stream(it, 'rows')
                if pol == 'H5':
                    handler = ufunc('on_error', pure=False, mutates_row=1, params=['res_name', 'row', 'i', 'e', 'field'])
                    on_error = handler
                elif pol == 'H4':
                    h4 = ufunc('on_error4', pure=False, mutates_row=1, params=['res_name', 'row', 'i', 'e'])
                    on_error = h4
                    # the contract-level view of a 4-argument handler: the 5th argument is dropped
                    from pyvc.api import UFunc
                    handler = UFunc('adapt', lambda it_, a, k: it_.call(h4, list(a)[:4]), False)
                elif pol == 'default':
                    on_error = None
                    handler = None
                else:
                    on_error = svm.attrs[policies[pol]]
                    handler = None
                field_names = None if fn_kind == 'all' else SymList(str_seq(it, 'field_names'), [])
                sp = spec.bind(it, ValidationError=svm.attrs['ValidationError'], **spec_free(it))
                st = {}

                def rows_start(it, env, elem):
                    it.path.info['in_iter'] = True
                    st['row'] = elem[1]
                    st['i'] = elem[0]
                    return None

                def rows_end(it, env, cap, events):
                    # reached after the field loop is exhausted (okay / row contents arbitrary)
                    okay = env.lookup('okay')
                    want = run_spec(it, sp.attrs['row_step'], [st['row'], okay]).value
                    ys = yields_of(events)
                    check(it, 'row-emitted-iff-okay[%s]' % pol, len(ys) == len(want.items) and
                          all(y.obj is w for y, w in zip(ys, want.items)))
                    cover(it, 'row-iter-reachable[%s,%s]' % (pol, fn_kind))

                def f_entry(it, env):
                    check(it, 'okay-starts-true[%s]' % pol, _b(env.lookup('okay') is True))

                def f_start(it, env, field):
                    row = st['row']
                    okay0 = env.lookup('okay')
                    g = ghost_row(row.snapshot(), row)
                    name = res.attrs['descriptor'].children['name']
                    if handler is not None:
                        exp = run_spec(it, sp.attrs['field_step'], [name, g, st['i'], field, okay0, handler])
                    else:
                        p = 'raise' if pol == 'default' else pol
                        exp = run_spec(it, sp.attrs['policy_step'], [p, name, g, st['i'], field, okay0])
                    if exp.exc is not None:
                        it.path.info['expect_exc'] = exp.exc.cls
                        it.path.info['expect_exc_obj'] = exp.exc
                    return exp, g, row.snapshot(), field

                def f_end(it, env, cap, events):
                    exp, g, before, field = cap
                    if exp.exc is not None:
                        return
                    row = st['row']
                    okay1 = env.lookup('okay')
                    check(it, 'field-step-okay[%s]' % pol, _b(it.truth(okay1)) == _b(it.truth(exp.value)))
                    check(it, 'field-step-row[%s]' % pol, same_row(row, g))
                    hname = 'on_error' if pol == 'H5' else 'on_error4'
                    if pol in ('H5', 'H4'):
                        cc, sc = calls_of(events, hname), calls_of(exp.events, hname)
                        check(it, 'handler-called-as-spec[%s]' % pol,
                              _b(len(cc) == len(sc)) if len(cc) != len(sc) else
                              (z3.And(*[_b(same_call(it, a, b)) for a, b in zip(cc, sc)]) if cc else True))
                        if cc:
                            check(it, 'handler-gets-the-row-object[%s]' % pol, cc[0].objs[1] is row)
                    # frame: only key field.name may differ from the row before, unless a custom handler ran
                    if pol not in ('H5', 'H4'):
                        k = z3.Const('k', z3.StringSort())
                        fname = field.attrs['name'].t
                        check(it, 'only-this-field-written[%s]' % pol,
                              z3.ForAll([k], z3.Implies(k != fname, z3.And(row.dom[k] == before.dom[k],
                                                                          z3.Implies(before.dom[k], row.val[k] == before.val[k])))))
                    check(it, 'no-yield-inside-field-loop[%s]' % pol, len(yields_of(events)) == 0)
                    cover(it, 'field-iter-reachable[%s,%s]' % (pol, fn_kind))
                it.loops['schema_validator#L0'] = LoopSpec(at_start=rows_start, at_end=rows_end, at_exit=lambda it, env:
                                                           it.path.info.__setitem__('exit_mark', len(it.path.events)))
                it.loops['schema_validator#L1'] = LoopSpec(at_entry=f_entry, at_start=f_start, at_end=f_end)
                kwargs = dict(on_error=on_error)
                if field_names is not None:
                    kwargs['field_names'] = field_names
                it.run_generator(it.call(f, [res, rows], kwargs))
                n0 = it.path.info.get('exit_mark', 0)
                check(it, 'post-silent[%s]' % pol, len(yields_of(it.path.events[n0:])) == 0)
                check(it, 'drains[%s]' % pol, rows.drained is True)
            paths = vc.explore(fk, thunk, min_paths=4)
            check_validation_errors(vc, fk, paths, pol)


def check_validation_errors(vc, fk, paths, pol):
    """raise policy: the ValidationError carries the row object, the row index and the cast error"""
    import z3
    from pyvc.api import short
    for p in paths or []:
        tag = 'p' + '.'.join(str(d) for d in p.trail)
        if p.end != 'raise':
            if p.info.get('expect_exc') and p.end in ('iter-end',):
                vc.add('%s.missing-raise[%s][%s]' % (short(fk), pol, tag), p.pc, z3.BoolVal(False), path=p)
            continue
        got = p.exc
        exp = p.info.get('expect_exc_obj')
        if exp is None or got.cls != exp.cls:
            vc.add('%s.unexpected-raise[%s][%s]' % (short(fk), pol, tag), p.pc, z3.BoolVal(False), path=p,
                   info=dict(got=got.cls))
            continue
        ga, ea = got.attrs, exp.attrs
        ok_row = ga.get('row') is getattr(ea.get('row'), 'alias_of', None)
        gi, ei = ga.get('index'), ea.get('index')
        from pyvc.api import term
        ok_idx = term(gi) == term(ei)
        ge, ee = ga.get('cast_error'), ea.get('cast_error')
        ok_err = ge.term == ee.term
        gn, en = ga.get('resource_name'), ea.get('resource_name')
        vc.add('%s.validation-error-carries-row-index-cause[%s][%s]' % (short(fk), pol, tag), p.pc,
               z3.And(z3.BoolVal(ok_row), ok_idx, ok_err, term(gn) == term(en)), path=p)


def nat_schema_validator(h):
    from dataflows.base.schema_validator import schema_validator, ValidationError, ignore, drop, clear, raise_exception
    from datapackage import Resource
    import tableschema
    types = ['integer', 'number', 'string', 'boolean', 'date']
    # native values that Python's == / hash identify although Table Schema does not (1, True, 1.0 ; 0, False, 0.0) are mixed
    # into every column: an implementation must treat them by type, whatever it saw before in that column
    lex = {'integer': ['1', '-7', 'x', '', '1.5', 3, 1, True, 1.0, 0, False], 'number': ['1.5', 'abc', '2', 4.5, 1, True, 1.0, 0, False],
           'string': ['a', '', 5, 1, True], 'boolean': ['true', 'maybe', True, 'False', 1, 0, 1.0, False],
           'date': ['2020-01-02', '02/01/2020', 'nope']}

    def typed(rows):
        return [sorted((k, type(v).__name__, repr(v)) for k, v in r.items()) for r in rows]
    pols = {'raise': raise_exception, 'ignore': ignore, 'drop': drop, 'clear': clear, 'default': None}
    for _ in range(h.n(60, 600)):
        nf = h.rng.randint(1, 3)
        ftypes = [h.rng.choice(types) for _ in range(nf)]
        names = ['f%d' % j for j in range(nf)]
        desc = {'name': 'res', 'path': 'x.csv', 'schema': {'fields': [{'name': n, 'type': t} for n, t in zip(names, ftypes)]}}
        res = Resource(desc)
        rows = []
        for _r in range(h.rng.randint(0, 5)):
            rows.append({n: h.rng.choice(lex[t] + [None]) for n, t in zip(names, ftypes) if h.rng.random() < 0.9})
        pol = h.rng.choice(sorted(pols))
        checked = names if h.rng.random() < 0.6 else h.subset(names, 0.5)
        fields = [f for f in res.schema.fields if f.name in checked]

        def expect():
            out = []
            for i, row0 in enumerate(rows):
                row = dict(row0)
                keep = True
                for f in fields:
                    try:
                        row[f.name] = f.cast_value(row.get(f.name))
                    except tableschema.exceptions.CastError as e:
                        if pol in ('raise', 'default'):
                            return ('exc', 'ValidationError', i, dict(row))
                        if pol == 'drop':
                            keep = False
                        elif pol == 'clear':
                            row[f.name] = None
                if keep:
                    out.append(row)
            return ('ok', out)
        want = expect()
        inp = [dict(r) for r in rows]
        kw = {'on_error': pols[pol]} if pols[pol] is not None else {}
        if checked is not names:
            kw['field_names'] = checked
        got = h.run(lambda: list(schema_validator(res, iter(inp), **kw)))
        if want[0] == 'ok':
            ok = got[0] == 'ok' and typed(got[1]) == typed(want[1])
        else:
            ok = got[0] == 'exc' and got[1] == 'ValidationError' and got[2].index == want[2] and got[2].row == want[3] \
                and got[2].row is inp[want[2]]
        h.check(ok, SV_FILE + '::schema_validator', (desc['schema'], rows, pol, checked), want, got[:2])


def nat_python_values_by_type(h):
    """bounded: PYTHON values (an iterable source, a row function) of a kind related to, but not valid for, the declared type: a
    datetime in a date field, a date in a datetime field, a bool in an integer / number field, an int in a boolean field, a float
    with a fraction in an integer field, equal values of different types next to each other (1, True, 1.0, Decimal(1)).  Each cell
    is judged on its own by tableschema (a fresh Field per cell is the oracle); the policy is applied to exactly the invalid ones"""
    import datetime, decimal
    import tableschema
    from dataflows import Flow, validate, set_type
    from dataflows.base.schema_validator import ignore, drop, clear
    pools = {
        'date': [datetime.date(2020, 1, 2), datetime.datetime(2020, 1, 2, 0, 0), datetime.datetime(2020, 1, 2, 10, 30), '2020-01-03', None, 5],
        'datetime': [datetime.datetime(2020, 1, 2, 3, 4), datetime.date(2020, 1, 2), '2020-01-02T03:04:05', None],
        'integer': [1, True, 1.0, decimal.Decimal(1), 1.5, '7', False, 0, None, decimal.Decimal('2.0')],
        'number': [0, False, 1, True, 2.5, decimal.Decimal('2.5'), 'x', None],
        'boolean': [True, 1, False, 0, 'true', 1.0, None],
        'string': ['a', 1, None, ''],
    }

    def oracle(typ, v):
        try:
            return ('ok', tableschema.Field({'name': 'f', 'type': typ}).cast_value(v))
        except tableschema.exceptions.CastError:
            return ('bad', None)
    for typ, pool in pools.items():
        for _ in range(h.n(6, 40)):
            vals = [h.rng.choice(pool) for _ in range(h.rng.randint(1, 7))]
            for pol, hd in (('drop', drop), ('clear', clear), ('ignore', ignore)):
                def src():
                    # a rows-function feeds the python values in as they are, under a schema that declares the type
                    for i, v in enumerate(vals):
                        yield {'i': i, 'f': v}

                def retype(package):
                    package.pkg.descriptor['resources'][0]['schema']['fields'] = [{'name': 'i', 'type': 'integer'}, {'name': 'f', 'type': typ}]
                    yield package.pkg
                    yield from package
                got = h.run(lambda: Flow([{'i': -1, 'f': None}], retype, lambda rows: src(), validate(on_error=hd)).results(on_error=None)[0][0])
                want = []
                for i, v in enumerate(vals):
                    o = oracle(typ, v)
                    if o[0] == 'ok':
                        want.append({'i': i, 'f': o[1]})
                    elif pol == 'clear':
                        want.append({'i': i, 'f': None})
                    elif pol == 'ignore':
                        want.append({'i': i, 'f': v})
                same = got[0] == 'ok' and len(got[1]) == len(want) and all(
                    g['i'] == w['i'] and g['f'] == w['f'] and type(g['f']) is type(w['f']) for g, w in zip(got[1], want))
                h.check(same, SV_FILE + '::schema_validator', (typ, [repr(v) for v in vals], pol), [(w['i'], repr(w['f'])) for w in want],
                        [(g['i'], repr(g['f'])) for g in got[1]] if got[0] == 'ok' else got[:2])


def nat_custom_handlers(h):
    """bounded: custom on_error handlers of the documented shapes -- 4 parameters (res_name, row, i, e) or 5 (.., field), the
    fifth with or without a default, plain functions and callable objects -- get exactly the arguments they declare, once per
    offending field, and their answer decides the row"""
    from dataflows import Flow, set_type, validate
    calls = []

    def h4(res_name, row, i, e):
        calls.append(('h4', i, None))
        return False                      # drop the row

    def h5(res_name, row, i, e, field):
        calls.append(('h5', i, field.name))
        row[field.name] = None
        return True                       # keep the row, offending field nulled

    def h5d(res_name, row, i, e, field=None):
        calls.append(('h5d', i, field.name if field is not None else None))
        if field is None:
            return False
        row[field.name] = None
        return True

    class H5:
        def __call__(self, res_name, row, i, e, field):
            calls.append(('H5', i, field.name))
            row[field.name] = None
            return True

    def strict_a(res_name, row, i, e, field):
        # a handler whose answer is not the same for every field: a bad `a` drops the row, a bad `b` is nulled and tolerated
        calls.append(('strict_a', i, field.name))
        if field.name == 'a':
            return False
        row[field.name] = None
        return True

    def strict_b(res_name, row, i, e, field):
        calls.append(('strict_b', i, field.name))
        if field.name == 'b':
            return False
        row[field.name] = None
        return True
    for _ in range(h.n(40, 300)):
        n = h.rng.randint(1, 6)
        rows = [{'a': h.rng.choice(['1', '2', 'x', '']), 'b': h.rng.choice(['3', 'y', '4'])} for _r in range(n)]
        name, handler = h.rng.choice([('h4', h4), ('h5', h5), ('h5d', h5d), ('H5', H5()), ('strict_a', strict_a), ('strict_b', strict_b)])
        via = h.rng.choice(['set_type', 'validate'])
        del calls[:]
        if via == 'set_type':
            steps = [set_type('a', type='integer', on_error=handler), set_type('b', type='integer', on_error=handler)]
        else:
            from dataflows import update_resource

            def retype(package):
                for f in package.pkg.descriptor['resources'][0]['schema']['fields']:
                    f['type'] = 'integer'
                yield package.pkg
                yield from package
            steps = [retype, validate(on_error=handler)]
        got = h.run(lambda: Flow([dict(r) for r in rows], *steps).results(on_error=None)[0])
        bad = lambda v: v in ('x', 'y')
        conv = lambda v: None if v == '' else int(v)
        if name == 'h4':
            want = [{'a': conv(r['a']), 'b': conv(r['b'])} for r in rows if not bad(r['a']) and not bad(r['b'])]
        elif name in ('strict_a', 'strict_b'):
            sf = name[-1]
            want = [{'a': None if bad(r['a']) else conv(r['a']), 'b': None if bad(r['b']) else conv(r['b'])} for r in rows if not bad(r[sf])]
        else:
            want = [{'a': None if bad(r['a']) else conv(r['a']), 'b': None if bad(r['b']) else conv(r['b'])} for r in rows]
        ok = got[0] == 'ok' and got[1] == [want]
        h.check(ok, SV_FILE + '::wrap_handler', (name, via, rows), want, got[1] if got[0] == 'ok' else got[:2])
        if name != 'h4' and got[0] == 'ok':
            h.check(all(c[2] in ('a', 'b') for c in calls), SV_FILE + '::wrap_handler', (name, via, 'field argument'), 'field passed',
                    [c for c in calls if c[2] not in ('a', 'b')][:3])


def sym_wrap_handler(vc):
    from pyvc.api import real_function, check, cover, ufunc, sym_row, sym_str, sym_int, sym_cell
    fk = vc.under_contract(SV_FILE, ['wrap_handler'])
    for arity in (4, 5, '5-with-default'):
        def thunk(it, arity=arity):
            wh = real_function(it, 'dataflows.base.schema_validator', 'wrap_handler')
            if arity == '5-with-default':
                # a five-parameter handler stays one when its last parameter has a default (`field=None`): it is handed the field
                h = ufunc('handler', pure=False, params=['res_name', 'row', 'i', 'e', 'field='])
                check(it, 'five-args-identity[field=None]', it.call(wh, [h]) is h)
                return
            params = ['res_name', 'row', 'i', 'e', 'field'][:arity]
            h = ufunc('handler', pure=False, params=params)
            w = it.call(wh, [h])
            if arity == 5:
                check(it, 'five-args-identity', w is h)
                return
            args = [sym_str(it, 'rn'), sym_row(it, 'row'), sym_int(it, 'i'), sym_cell(it, 'e'), sym_cell(it, 'f')]
            n0 = len(it.path.events)
            r = it.call(w, args)
            calls = [e for e in it.path.events[n0:] if e.kind == 'Call']
            want = it.call(ufunc('handler', pure=True, params=params), args[:4])
            from pyvc.api import term
            check(it, 'four-args-adapter-drops-fifth', len(calls) == 1 and len(calls[0].args) == 4 and
                  all(a is b for a, b in zip(calls[0].objs, args[:4])))
            check(it, 'four-args-adapter-returns-result', it.cell_of(r) == it.cell_of(want))
            cover(it, 'reachable[%d]' % arity)
        vc.explore(fk, thunk)


def sym_handlers(vc):
    """the predefined handlers against the documented policy"""
    from pyvc.api import real_function, check, sym_row, sym_str, sym_int, same_row, Opaque
    from pyvc.symex import PyExc
    import z3
    for name in ('ignore', 'drop', 'clear', 'raise_exception'):
        fk = vc.under_contract(SV_FILE, [name])

        def thunk(it, name=name):
            hfn = real_function(it, 'dataflows.base.schema_validator', name)
            row = sym_row(it, 'row')
            before = row.snapshot()
            fld, ft = mk_field(it)
            from pyvc.values import ExcV
            e = ExcV('CastError', (), term=it.fresh('e', z3.IntSort()))
            args = [sym_str(it, 'rn'), row, sym_int(it, 'i'), e]
            if name == 'clear':
                args.append(fld)
            try:
                r = it.call(hfn, args)
            except PyExc as pe:
                check(it, 'raise-policy-raises-validation-error', name == 'raise_exception' and pe.exc.cls == 'ValidationError'
                      and pe.exc.attrs.get('row') is row and pe.exc.attrs.get('cast_error') is e)
                return
            t = it.truth(r)
            if name == 'ignore':
                check(it, 'ignore-keeps-row', _b(t) == z3.BoolVal(True))
                check(it, 'ignore-row-unchanged', same_row(row, before))
            elif name == 'drop':
                check(it, 'drop-returns-falsy', _b(t) == z3.BoolVal(False))
                check(it, 'drop-row-unchanged', same_row(row, before))
            elif name == 'clear':
                k = z3.Const('k', z3.StringSort())
                fname = fld.attrs['name'].t
                check(it, 'clear-keeps-row', _b(t) == z3.BoolVal(True))
                check(it, 'clear-nulls-exactly-the-field', z3.And(
                    row.dom[fname], it.cell_of(None) == row.val[fname],
                    z3.ForAll([k], z3.Implies(k != fname, z3.And(row.dom[k] == before.dom[k], row.val[k] == before.val[k])))))
            else:
                check(it, 'raise-policy-never-returns', False)
        vc.explore(fk, thunk)
    # clear with NO field at fault (a whole-row check names none): there is nothing to null -- "clear nulls exactly the offending
    # fields" -- so the row cannot be kept as valid: it is left out, untouched
    fk = vc.under_contract(SV_FILE, ['clear'])

    def thunk_nofield(it):
        hfn = real_function(it, 'dataflows.base.schema_validator', 'clear')
        row = sym_row(it, 'row')
        before = row.snapshot()
        r = it.call(hfn, [sym_str(it, 'rn'), row, sym_int(it, 'i'), None, None])
        check(it, 'clear-without-a-field-leaves-the-row-out', _b(it.truth(r)) == z3.BoolVal(False))
        check(it, 'clear-without-a-field-leaves-the-row-untouched', same_row(row, before))
    vc.explore(fk, thunk_nofield)


# ------------------------------------------------------------------------------------------------ set_type

P = 'dataflows/processors/'


def sym_set_type_transformer(vc):
    import z3
    from pyvc.api import (SpecModule, real_function, LoopSpec, check, cover, yields_of, ufunc, same_row, row_stream, str_seq,
                          SymList, yields_match, UFunc)
    fk = vc.under_contract(P + 'set_type.py', ['set_type', 'transformer'])
    vc.under_contract(P + 'set_type.py', ['set_type', 'wrap_transformer'])
    spec = SpecModule(SPEC)
    for sig in (['v'], ['v', 'field_name'], ['v', 'row'], ['v', 'field_name', 'row']):
        def thunk(it, sig=sig):
            ST = real_function(it, 'dataflows.processors.set_type', 'set_type')
            tr = ufunc('transform', pure=False, params=sig)
            st_obj = it.call(ST, ['name'], dict(transform=tr, type='string'))
            rows = row_stream(it, 'rows')
            fns = SymList(str_seq(it, 'field_names'), [])
            sp = spec.bind(it)
            # spec-side transform: always sees (value, field_name, row) and uses what its signature declares
            def t3(it_, a, k):
                kw = {}
                if 'row' in sig:
                    kw['row'] = a[2]
                if 'field_name' in sig:
                    kw['field_name'] = a[1]
                return it_.call(tr, [a[0]], kw)
            T = UFunc('T', t3, False)
            st = {}

            def rows_start(it, env, row):
                it.path.info['in_iter'] = True
                st['row'] = row
                return None

            def rows_end(it, env, cap, events):
                check(it, 'row-yielded-once', len(yields_of(events)) == 1 and same_row_object(it, yields_of(events)[0].obj, st['row']))
                cover(it, 'row-iter-reachable%s' % sig)

            def f_start(it, env, fname):
                g = ghost_row(st['row'].snapshot(), st['row'])
                exp = run_spec(it, sp.attrs['transform_step'], [g, fname, T])
                return exp, g

            def f_end(it, env, cap, events):
                exp, g = cap
                check(it, 'transform-writes-this-field%s' % sig, same_row(st['row'], g))
                cc, sc = [e for e in events if e.kind == 'Call'], [e for e in exp.events if e.kind == 'Call']
                check(it, 'transform-called-once-with-declared-args%s' % sig,
                      len(cc) == 1 and len(sc) == 1 and _b(same_call(it, cc[0], sc[0])))
                cover(it, 'field-iter-reachable%s' % sig)
            it.loops['set_type.transformer#L0'] = LoopSpec(at_start=rows_start, at_end=rows_end)
            it.loops['set_type.transformer#L1'] = LoopSpec(at_start=f_start, at_end=f_end)
            it.run_generator(it.call(it.lib.getattr_(it, st_obj, 'transformer'), [rows, fns]))
            check(it, 'drains', rows.drained is True)
        paths = vc.explore(fk, thunk, min_paths=3)
        expect_no_raise_or_same(vc, fk, paths)


def sym_set_type_selection(vc):
    """process_datapackage: options go to exactly the fields whose name the pattern matches, in matched resources;
    those names are registered for the stream phase; nothing found -> AssertionError.
       process_resources: transform (if any) is applied before the cast, to the registered fields"""
    import z3
    from pyvc.api import real_function, LoopSpec, check, cover, sym_str, Stream, yields_of, GenObj, ufunc
    from pyvc import lib
    from contracts.common import mk_package2, tree_writes_under
    fk = vc.under_contract(P + 'set_type.py', ['set_type', 'process_datapackage'])
    vc.under_contract(P + 'set_type.py', ['set_type', '__init__'])
    for regex in (True, False):
        def thunk(it, regex=regex):
            ST = real_function(it, 'dataflows.processors.set_type', 'set_type')
            pat = sym_str(it, 'fieldpat')
            from pyvc.api import PyDict as _PD
            cons = _PD({'minimum': 0})
            st = it.call(ST, [pat], dict(resources=None, regex=regex, type='integer', constraints=cons))
            # the step object may have been used before (another flow, an earlier run): whatever it registered then is arbitrary
            from contracts.common import havoc_mutable_scalars
            havoc_mutable_scalars(it, st, containers=True)
            before = st.attrs.get('field_names')
            opts0 = st.attrs.get('options')
            opts0_items = dict(opts0.d) if isinstance(opts0, _PD) else None
            pw = mk_package2(it)
            it.path.info['allowed_exc'] = {'AssertionError': z3.BoolVal(True)}
            eff = pat.t if regex else lib.RE_ESCAPE(pat.t)

            def want(fname):
                return lib.RE_FULLMATCH(eff, fname)      # the pattern (escaped when regex=False) matches the WHOLE field name

            def f_start(it, env, field):
                return field, field.children['name'].t

            def f_end(it, env, cap, events):
                field, fname = cap
                m = want(fname)
                ws = tree_writes_under(events, field)
                opts = [e for e in ws if e.kind == 'TreeWrite' and e.key == 'type' and e.value == 'integer']
                regs = [e for e in events if e.kind == 'Append']
                cw = [e for e in ws if e.kind == 'TreeWrite' and e.key == 'constraints']
                check(it, 'matched-field-gets-options[regex=%s]' % regex, z3.Implies(m, _b(len(opts) == 1 and len(cw) == 1 and len(ws) == 2)))
                check(it, 'unmatched-field-untouched[regex=%s]' % regex, z3.Implies(z3.Not(m), _b(len(ws) == 0 and len(regs) == 0)))
                check(it, 'matched-field-registered[regex=%s]' % regex,
                      z3.Implies(m, _b(len(regs) == 1 and it.cell_of(regs[0].value) == it.cell_of(field.children['name'])
                                       if len(regs) == 1 else False)))
                cover(it, 'field-iter-reachable[regex=%s]' % regex)
            it.loops['set_type.process_datapackage#L1'] = LoopSpec(at_start=f_start, at_end=f_end)
            # (the loop over the resources: nothing is claimed about it here beyond what its cut leaves unknown; the frame obligation
            #  below is about state the loops do not touch)
            it.loops['set_type.process_datapackage#L0'] = LoopSpec()
            it.call(it.lib.getattr_(it, st, 'process_datapackage'), [pw.attrs['pkg']])
            after = st.attrs.get('field_names')
            check(it, 'registered-names-are-those-of-this-package-only[regex=%s]' % regex,
                  after is not before and getattr(after, 'history', None) is None)
            # frame: the options the step was built with are READ, not consumed -- the next use of the same step object (the flow run
            # again, the step shared by two flows) sets the same type, format and constraints
            opts1 = st.attrs.get('options')
            check(it, 'the-options-of-the-step-are-left-as-they-were-given[regex=%s]' % regex, opts0_items is not None and opts1 is opts0 and
                  isinstance(opts1, _PD) and set(opts1.d) == set(opts0_items) and all(opts1.d[k] is opts0_items[k] for k in opts0_items)
                  and cons.d == {'minimum': 0})
        paths = vc.explore(fk, thunk, min_paths=3)
        expect_no_raise_or_same(vc, fk, paths)
    # added-flag: if no field was registered the step fails
    fk2 = vc.under_contract(P + 'set_type.py', ['set_type', 'process_resources'])

    def thunk2(it):
        from contracts.common import mk_resource
        ST = real_function(it, 'dataflows.processors.set_type', 'set_type')
        tr = ufunc('transform', pure=False, params=['v'])
        st = it.call(ST, ['x'], dict(resources=None, transform=tr, type='integer'))
        pw = mk_package2(it)
        it.path.info['allowed_exc'] = {'AssertionError': z3.BoolVal(True)}
        it.loops['set_type.process_datapackage#L0'] = LoopSpec(modes=('exit',))
        it.call(it.lib.getattr_(it, st, 'process_datapackage'), [pw.attrs['pkg']])
        resources = Stream('resources', lambda it_: mk_resource(it_, 'r'))

        def at_start(it, env, r):
            return r

        def at_end(it, env, r, events):
            ys = yields_of(events)
            if len(ys) != 1:
                check(it, 'one-output-per-resource', False)
                return
            y = ys[0].obj
            if isinstance(y, GenObj):
                # validator over the transformer over the resource: transform before cast
                inner = y.args[1] if len(y.args) > 1 else None
                ok = fn_named(y, 'schema_validator') and isinstance(inner, GenObj) and fn_named(inner, 'transformer') \
                    and inner.args[1] is r and y.args[0] is r.attrs['res']
                check(it, 'transform-before-cast-on-registered-fields', ok and
                      y.kwargs.get('field_names') is inner.args[2] and y.kwargs.get('on_error') is None)
            else:
                check(it, 'no-registered-fields-pass-through', y is r)
            cover(it, 'iter-reachable')
        it.loops['set_type.process_resources#L0'] = LoopSpec(at_start=at_start, at_end=at_end)
        it.run_generator(it.call(it.lib.getattr_(it, st, 'process_resources'), [resources]))
    paths = vc.explore(fk2, thunk2, min_paths=2)
    expect_no_raise_or_same(vc, fk2, paths)


def nat_set_type(h):
    from dataflows import Flow, set_type, validate
    import decimal
    pols = ['raise', 'drop', 'ignore', 'clear']
    from dataflows.base.schema_validator import ignore, drop, clear, raise_exception
    pf = {'raise': raise_exception, 'ignore': ignore, 'drop': drop, 'clear': clear}
    for _ in range(h.n(40, 400)):
        vals = [h.rng.choice(['1', '2', 'x', '', '3.5', '-4']) for _ in range(h.rng.randint(1, 6))]
        rows = [{'a': v, 'b': 'k%d' % i} for i, v in enumerate(vals)]
        pol = h.rng.choice(pols)

        def castable(v):
            try:
                int(v)
                return True
            except ValueError:
                return False
        want_rows = []
        err = None
        for i, r in enumerate(rows):
            if r['a'] == '':
                want_rows.append({'a': None, 'b': r['b']})      # '' is a missing value: casts to null, valid
            elif castable(r['a']):
                want_rows.append({'a': int(r['a']), 'b': r['b']})
            elif pol == 'raise':
                err = i
                break
            elif pol == 'ignore':
                want_rows.append(dict(r))
            elif pol == 'clear':
                want_rows.append({'a': None, 'b': r['b']})
        got = h.run(lambda: Flow([dict(r) for r in rows], set_type('a', type='integer', on_error=pf[pol])).results(on_error=None)[0][0])
        if err is not None:
            ok = got[0] == 'exc' and got[1] == 'ProcessorError' and type(got[2].cause).__name__ == 'ValidationError' \
                and got[2].cause.index == err
        else:
            ok = got[0] == 'ok' and got[1] == want_rows
        h.check(ok, P + 'set_type.py::set_type', (vals, pol), (err, want_rows), got[:2])
    # field-name patterns with alternatives, prefixes of other names, and regex=False names with metacharacters: exactly the
    # fields whose WHOLE name the pattern matches are retyped / checked; all other fields and all valid rows are untouched
    import re as _re
    cols = ['year', 'year_label', 'month', 'a.b', 'axb', 'id', 'id_old']
    for pat, rx in (('year|month', True), ('id|ident', True), ('a.b', False), ('a.b', True), ('year', True), ('(year|month)_label', True)):
        rows = [{c: ('%d' % (i + 1) if c in ('year', 'month', 'id') else 'txt%d' % i) for c in cols} for i in range(3)]
        hit = [c for c in cols if (_re.fullmatch(pat, c) if rx else c == pat)]
        got = h.run(lambda: Flow([dict(r) for r in rows], set_type(pat, type='integer', regex=rx, on_error=pf['clear'])).results(on_error=None))
        if not hit:
            continue          # nothing matched: set_type refuses (AssertionError), outside this check
        if got[0] != 'ok':
            h.check(False, P + 'set_type.py::set_type.process_datapackage', (pat, rx, hit), 'runs', got[:2])
            continue
        res, dp, _ = got[1]
        types = {f['name']: f['type'] for f in dp.descriptor['resources'][0]['schema']['fields']}
        okt = all((types[c] == 'integer') == (c in hit) for c in cols)

        def cast(c, v):
            if c not in hit:
                return v
            return int(v) if v.isdigit() else None
        okr = res[0] == [{c: cast(c, r[c]) for c in cols} for r in rows]
        h.check(okt and okr, P + 'set_type.py::set_type.process_datapackage', (pat, rx, hit), 'only the fully matched fields retyped',
                ({c: t for c, t in types.items() if t == 'integer'}, res[0][:1]))


def nat_set_type_multi(h):
    """set_type with a field-name pattern over several resources: every resource is cast / transformed on ITS OWN matching
    fields only; rows carry no undeclared keys"""
    from dataflows import Flow, set_type
    for _ in range(h.n(20, 200)):
        a = [{'id': i, 'ship_date': '2020-01-%02d' % (i + 1)} for i in range(h.rng.randint(1, 3))]
        b = [{'id': i, 'order_date': '2021-02-%02d' % (i + 1), 'note': 'n'} for i in range(h.rng.randint(1, 3))]
        use_transform = h.rng.random() < 0.7
        kw = dict(transform=(lambda v: v.replace('-', '/') if v else v)) if use_transform else {}
        got = h.run(lambda: Flow([dict(r) for r in a], [dict(r) for r in b],
                                 set_type('.*_date', type='string', resources=None, **kw)).results())
        if not h.check(got[0] == 'ok', P + 'set_type.py::set_type', (a, b, use_transform), 'ok', got[:2]):
            continue
        res, dp, _ = got[1]
        f = (lambda v: v.replace('-', '/')) if use_transform else (lambda v: v)
        want = [[dict(r, ship_date=f(r['ship_date'])) for r in a], [dict(r, order_date=f(r['order_date'])) for r in b]]
        h.check(res == want, P + 'set_type.py::set_type.process_resources', (a, b, use_transform), want, res)


    # the same step object on a second table whose matching fields differ (same default resource name): the second table is cast
    # on ITS matching fields, uncastable values are handled as on_error says, and no row gains a key its schema does not declare
    from dataflows.base.schema_validator import drop
    for use_transform in (False, True):
        kw = dict(transform=(lambda v, **_k: v)) if use_transform else {}
        step = set_type('.*_n', type='integer', on_error=drop, **kw)
        t1 = [{'a_n': '1', 'x': 'p'}, {'a_n': '2', 'x': 'q'}]
        t2 = [{'b_n': '7', 'c_n': 'oops', 'x': 'r'}, {'b_n': '8', 'c_n': '9', 'x': 's'}]
        r1 = h.run(lambda: Flow([dict(r) for r in t1], step).results(on_error=None)[0])
        r2 = h.run(lambda: Flow([dict(r) for r in t2], step).results(on_error=None)[0])
        h.check(r1[0] == 'ok' and r1[1] == [[{'a_n': 1, 'x': 'p'}, {'a_n': 2, 'x': 'q'}]], P + 'set_type.py::set_type.process_datapackage',
                ('first use', use_transform), 'a_n cast', r1[:2])
        h.check(r2[0] == 'ok' and r2[1] == [[{'b_n': 8, 'c_n': 9, 'x': 's'}]], P + 'set_type.py::set_type.process_datapackage',
                ('second use of the same step object, other matching fields', use_transform), [[{'b_n': 8, 'c_n': 9, 'x': 's'}]], r2[:2])


# ------------------------------------------------------------------------------------------------ validate

def sym_validate_custom(vc):
    import z3
    from pyvc.api import (SpecModule, real_function, LoopSpec, check, cover, yields_of, ufunc, yields_match, UFunc, FuncDefV)
    fk = vc.under_contract(P + 'validate.py', ['validate', 'rows_validator', 'func'])
    vc.under_contract(P + 'validate.py', ['validate', 'row_validator', 'func'])
    vc.under_contract(P + 'validate.py', ['validate', '__init__'])
    spec = SpecModule(SPEC)
    for form in ('row', 'field'):
        for arity in (4, 5):
            def thunk(it, form=form, arity=arity):
                V = real_function(it, 'dataflows.processors.validate', 'validate')
                params = ['res_name', 'row', 'i', 'e', 'field'][:arity]
                hraw = ufunc('on_error', pure=False, mutates_row=1, params=params)
                handler = hraw if arity == 5 else UFunc('adapt', lambda it_, a, k: it_.call(hraw, list(a)[:4]), False)
                # validators must be plain functions (isfunction): use spec-defined python functions over a UF
                chk = ufunc('user_check')
                vm = SpecModule('def row_ok(row):\n    return user_check(row)\n\ndef value_ok(v):\n    return user_check(v)\n').bind(it, user_check=chk)
                if form == 'row':
                    v = it.call(V, [vm.attrs['row_ok']], dict(on_error=hraw))
                    rv = vm.attrs['row_ok']
                else:
                    v = it.call(V, ['fld', vm.attrs['value_ok']], dict(on_error=hraw))
                    rv = UFunc('rv', lambda it_, a, k: it_.call(chk, [it_.lib._row_get(it_, a[0], 'fld')]), True)
                sp = spec.bind(it)
                r = mk_resource(it, 'res')
                from pyvc.api import Opaque
                fld_obj = Opaque('Field', 'schema_field_fld')
                schema = Opaque('Schema', 'schema')
                schema.attrs['call:get_field'] = lambda it_, o, a, k: fld_obj if a and a[0] == 'fld' else None
                r.attrs['res'].attrs['schema'] = schema

                def at_start(it, env, elem):
                    it.path.info['in_iter'] = True
                    i, row = elem
                    g = ghost_row(row.snapshot(), row)
                    exp = run_spec(it, sp.attrs['custom_row_step'], [r.attrs['res'].attrs['name'], g, i, rv, handler,
                                                                     fld_obj if form == 'field' else None])
                    return exp, g, row

                def at_end(it, env, cap, events):
                    exp, g, row = cap
                    check(it, 'row-kept-iff-valid-or-handler-truthy[%s,%d]' % (form, arity),
                          yields_match(it, events, exp.value, same_object=True))
                    cc = [e for e in events if e.kind == 'Call' and e.target == 'on_error']
                    sc = [e for e in exp.events if e.kind == 'Call' and e.target == 'on_error']
                    check(it, 'handler-called-as-spec[%s,%d]' % (form, arity),
                          _b(len(cc) == len(sc)) if len(cc) != len(sc) or not cc else _b(same_call(it, cc[0], sc[0])))
                    cover(it, 'iter-reachable[%s,%d]' % (form, arity))
                it.loops['func#L0'] = LoopSpec(at_start=at_start, at_end=at_end)
                validator = it.lib.getattr_(it, v, 'validator')
                it.run_generator(it.call(validator, [r]))
                check(it, 'drains[%s,%d]' % (form, arity), r.stream.drained is True)
            paths = vc.explore(fk, thunk, min_paths=3)
            expect_no_raise_or_same(vc, fk, paths)


def sym_falsy_handler(vc):
    """a custom handler is a callable OBJECT as well as a function; one that happens to be falsy when the step is built (an error
    collector with __len__, still empty) is the handler all the same: only `None` stands for the default policy -- in validate,
    and in schema_validator itself (set_type and load hand theirs on unchanged)"""
    from pyvc.api import real_function, check, cover, Opaque, PyDict, row_stream
    fk = vc.under_contract(P + 'validate.py', ['validate', '__init__'])

    def collector(it):
        hdl = Opaque('callable', 'error_collector')
        hdl.attrs['__truth__'] = False          # len(collector) == 0 when the step is built
        hdl.attrs['__callable__'] = True
        hdl.attrs['__signature__'] = PyDict({p: p for p in ['res_name', 'row', 'i', 'e', 'field']})
        return hdl

    def thunk(it):
        V = real_function(it, 'dataflows.processors.validate', 'validate')
        hdl = collector(it)
        v = it.call(V, [], dict(on_error=hdl))
        check(it, 'a-falsy-handler-object-is-still-the-handler[validate]', v.attrs.get('on_error') is hdl)
        rex = real_function(it, 'dataflows.base.schema_validator', 'raise_exception')
        v0 = it.call(V, [], {})
        w0 = v0.attrs.get('on_error')         # (the four-argument raise policy behind wrap_handler's adapter)
        check(it, 'no-handler-means-the-raise-policy[validate]', getattr(w0, 'name', None) == 'func' and w0.env.lookup('on_error') is rex)
    vc.explore(fk, thunk)
    fk2 = vc.under_contract(P + 'set_type.py', ['set_type', '__init__'])

    def thunk2(it):
        ST = real_function(it, 'dataflows.processors.set_type', 'set_type')
        hdl = collector(it)
        st = it.call(ST, ['f'], dict(type='integer', on_error=hdl))
        check(it, 'a-falsy-handler-object-is-still-the-handler[set_type]', st.attrs.get('on_error') is hdl)
    vc.explore(fk2, thunk2)


def sym_validate_failing_check(vc):
    """validate(<check>) with a check that RAISES (a comparison with a null, int('n/a'), a bug in the check): the exception is the
    step's failure -- it leaves the validator as it was raised, the error policy is not consulted and the row is not passed on
    (C04: a failing step never yields a successful run; the policy is for INVALID VALUES, not for failing code)"""
    from pyvc.api import SpecModule, real_function, LoopSpec, check, cover, yields_of, ufunc, UFunc
    from pyvc.symex import PyExc
    from pyvc import lib
    fk = vc.under_contract(P + 'validate.py', ['validate', 'rows_validator', 'func'])
    for form in ('row', 'field'):
        for cls in ('TypeError', 'ValueError', 'KeyError'):
            def thunk(it, form=form, cls=cls):
                V = real_function(it, 'dataflows.processors.validate', 'validate')
                hraw = ufunc('on_error', pure=False, mutates_row=1, params=['res_name', 'row', 'i', 'e', 'field'])
                boom = lib.ExcV(cls, ('raised by the check',))
                chk = UFunc('user_check', lambda it_, a, k: (_ for _ in ()).throw(PyExc(boom)), True)
                vm = SpecModule('def row_ok(row):\n    return user_check(row)\n\ndef value_ok(v):\n    return user_check(v)\n').bind(it, user_check=chk)
                v = it.call(V, [vm.attrs['row_ok']] if form == 'row' else ['fld', vm.attrs['value_ok']], dict(on_error=hraw))
                r = mk_resource(it, 'res')
                from pyvc.api import Opaque
                schema = Opaque('Schema', 'schema')
                schema.attrs['call:get_field'] = lambda it_, o, a, k: Opaque('Field', 'schema_field_fld')
                r.attrs['res'].attrs['schema'] = schema
                tag = '[%s,%s]' % (form, cls)

                def at_end(it, env, cap, events):
                    check(it, 'a-row-whose-check-raised-is-not-passed-on-and-the-policy-is-not-consulted' + tag, False)
                it.loops['func#L0'] = LoopSpec(at_start=lambda it, env, e: e, at_end=at_end)
                try:
                    it.run_generator(it.call(it.lib.getattr_(it, v, 'validator'), [r]))
                except PyExc as pe:
                    evs = it.path.events
                    check(it, 'the-exception-of-the-check-gets-out-as-raised' + tag, pe.exc is boom)
                    check(it, 'error-policy-not-consulted-for-a-failing-check' + tag, not [e for e in evs if e.kind == 'Call' and e.target == 'on_error'])
                    check(it, 'no-row-passed-on' + tag, not yields_of(evs))
                    cover(it, 'raise-reachable' + tag)
                    it.path.info['expect_exc'] = cls
                    it.path.info['in_iter'] = True
                    raise
            paths = vc.explore(fk, thunk, min_paths=2)
            # (the only exceptional end is the check's own exception)
            for p_ in paths or []:
                if p_.end == 'raise':
                    p_.info['upstream_raise'] = True


def sym_validate_with_schema(vc):
    from pyvc.api import real_function, check, GenObj
    fk = vc.under_contract(P + 'validate.py', ['validate', 'validate_with_schema', 'func'])

    def thunk(it):
        V = real_function(it, 'dataflows.processors.validate', 'validate')
        v = it.call(V, [], {})
        r = mk_resource(it, 'res')
        validator = it.lib.getattr_(it, v, 'validator')
        it.run_generator(it.call(validator, [r]))
        yf = [e for e in it.path.events if e.kind == 'YieldFrom']
        ok = len(yf) == 1 and isinstance(yf[0].src, GenObj) and fn_named(yf[0].src, 'schema_validator') and \
            yf[0].src.args[0] is r.attrs['res'] and yf[0].src.args[1] is r and \
            yf[0].src.kwargs.get('on_error') is it.lib.getattr_(it, v, 'on_error')
        check(it, 'schema-mode-delegates-to-schema_validator-over-all-fields', ok and 'field_names' not in yf[0].src.kwargs)
    vc.explore(fk, thunk)


def nat_validate(h):
    from dataflows import Flow, validate
    grid = [(m, u) for m in ('drop', 'ignore', 'raise', 'clear') for u in (False, True)]
    for t in range(h.n(30, 300)):
        vals = [h.rng.randint(0, 5) for _ in range(h.rng.randint(0, 6))] if t >= len(grid) else [1, 5, 2, 4, 0]
        rows = [{'a': v} for v in vals]
        # (every policy x validator form once on a fixed table, then at random)
        mode, use_field = grid[t] if t < len(grid) else (h.rng.choice(['drop', 'ignore', 'raise', 'clear']), h.rng.random() < 0.5)
        from dataflows.base.schema_validator import ignore, drop, raise_exception, clear
        hd = {'drop': drop, 'ignore': ignore, 'raise': raise_exception, 'clear': clear}[mode]
        args = ('a', lambda v: v < 3) if use_field else (lambda row: row['a'] < 3,)
        got = h.run(lambda: Flow([dict(r) for r in rows], validate(*args, on_error=hd)).results(on_error=None)[0][0])
        bad = [i for i, v in enumerate(vals) if not v < 3]
        if mode == 'raise' and bad:
            ok = got[0] == 'exc' and type(got[2].cause).__name__ == 'ValidationError' and got[2].cause.index == bad[0]
        elif mode == 'drop' or (mode == 'clear' and not use_field):
            # (a whole-row validator names no field: clear has nothing to null and can only leave the row out)
            ok = got[0] == 'ok' and got[1] == [r for r in rows if r['a'] < 3]
        elif mode == 'clear':
            # the one-field form: clear nulls exactly the offending field and keeps the row
            ok = got[0] == 'ok' and got[1] == [({'a': None} if not r['a'] < 3 else r) for r in rows]
        else:
            ok = got[0] == 'ok' and got[1] == rows
        h.check(ok, P + 'validate.py::validate', (vals, mode, use_field), None, got[:2])
        # the handler's call log: every bad row is reported once, with ITS index in the incoming stream (whatever happened to the
        # bad rows before it), its own row object contents, and the field for the one-field form; a handler that drops some and
        # raises on a later one aborts with that row's index
        log = []
        stop_at = h.rng.choice([None, None] + bad[1:2])

        def handler(res_name, row, i, e, field=None):
            log.append((res_name, dict(row), i, getattr(field, 'name', None)))
            if i == stop_at:
                raise RuntimeError('handler gives up at %d' % i)
            return False if i % 2 == 0 else True      # (drops some, keeps some)
        got = h.run(lambda: Flow([dict(r) for r in rows], validate(*args, on_error=handler)).results(on_error=None)[0][0])
        upto = [i for i in bad if stop_at is None or i <= stop_at]
        want_log = [('res_1', rows[i], i, 'a' if use_field else None) for i in upto]
        want_rows = [r for i, r in enumerate(rows) if i not in bad or i % 2 == 1]
        okl = log == want_log and ((got[0] == 'ok' and got[1] == want_rows) if stop_at is None else got[0] == 'exc')
        h.check(okl, P + 'validate.py::validate.rows_validator', (vals, 'handler log', use_field, stop_at), (want_log, want_rows),
                (log, got[1] if got[0] == 'ok' else got[:2]))


from contracts import C10 as _K10   # noqa: E402  (ResourceMatcher: the contract every selector-taking step is checked against)

ITEMS = [
    _K10._mk_matcher_item(),
    Item('schema_validator', sym_schema_validator, [('differential', nat_schema_validator), ('python-values-by-type', nat_python_values_by_type)],
         SV_FILE + '::schema_validator'),
    Item('wrap_handler', sym_wrap_handler, [('custom-handlers', nat_custom_handlers)], SV_FILE + '::wrap_handler'),
    Item('handlers', sym_handlers, [], SV_FILE + '::clear'),
    Item('set_type.transformer', sym_set_type_transformer, [], P + 'set_type.py::set_type.transformer'),
    Item('set_type.selection', sym_set_type_selection, [('policy-differential', nat_set_type), ('multi-resource', nat_set_type_multi)],
         P + 'set_type.py::set_type.process_datapackage'),
    Item('validate.custom', sym_validate_custom, [('differential', nat_validate)], P + 'validate.py::validate.rows_validator.func'),
    Item('validate.schema', sym_validate_with_schema, [], P + 'validate.py::validate.validate_with_schema.func'),
    Item('handlers.falsy-object', sym_falsy_handler, [], P + 'validate.py::validate.__init__'),
    Item('validate.failing-check', sym_validate_failing_check, [], P + 'validate.py::validate.rows_validator.func'),
    Item('recorded-findings', None, [('bounded', KF.nat_findings_c14)], 'dataflows/base/schema_validator.py::schema_validator'),
]

from contracts import reuse as _REUSE   # noqa: E402
ITEMS.append(Item('second-use', None, [('catalogue', _REUSE.nat_second_use_for('C14'))], 'dataflows/processors/set_type.py::set_type.process_datapackage'))
