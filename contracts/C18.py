"""C18  parallelize delivers every row exactly once under every schedule.

Thread-modular: each activity is proved sequentially against its put/get contract for an unbounded number of rows and a
symbolic number N >= 1 of workers; the schedule quantifier is discharged by a composition lemma over event time stamps that
uses only those contracts, program order and the queue axioms (T12: a queue is linearizable FIFO; an item is got at most
once) -- it holds for every time-stamp assignment, i.e. every interleaving, and for every N (worker ids are uninterpreted).
  producer : per input row exactly one put of that very row: to q_in if the predicate holds, else to q_internal (bypass);
             after the last row exactly N end markers to q_in -- so every bypass put precedes every end marker
  work     : per got row: row_func applied exactly once, then exactly one put of that row to q_out (also when row_func
             raises); on the first end marker: stop, and exactly one end marker to q_out
  fetcher  : forwards every non-marker item to q_internal in order of receipt; counts markers; after the N-th one puts exactly
             one end marker to q_internal and stops
  fork     : rows before the first selected one are yielded untouched; from then on yields exactly the items of q_internal up
             to the first end marker, then joins
TERMINATION ("and then terminates") is a liveness claim and is NOT decided by this technique; a bounded run stands in.
"""
from contracts import findings_natives as KF
from contracts.common import Item, mk_resource, mk_package2, expect_no_raise_or_same, _b
from contracts.streams import calls, effect_names

PZ = 'dataflows/processors/parallelize.py'
TRUSTED = ['T1 pyvc model of Python (DESIGN 3)', 'T12 queue.Queue / multiprocessing.Queue: linearizable FIFO, an item is got at '
           'most once, get blocks until an item is available', 'T16 z3 / cvc5']
ASSUMPTIONS = ['termination / absence of deadlock is not decided (liveness): bounded run only',
               'row_func runs in another process on a pickled copy: "applied exactly once" is about the call, its effect on '
               'the delivered row is multiprocessing\'s',
               'an upstream exception inside the producer thread is swallowed (C04 finding F-C04-parallelize)']


def mk_queue(it, name, gets=None):
    from pyvc.api import Opaque
    q = Opaque('Queue', name)
    return q


def sym_producer(vc, check_error_propagation=False):
    import z3
    from pyvc.api import real_function, LoopSpec, check, cover, row_stream, ufunc, sym_int, term, IntS
    fk = vc.under_contract(PZ, ['producer'])

    def thunk(it):
        prod = real_function(it, 'dataflows.processors.parallelize', 'producer')
        rows = row_stream(it, 'res', may_raise=True)
        q_in, q_internal = mk_queue(it, 'q_in'), mk_queue(it, 'q_internal')
        pred = ufunc('predicate')
        N = sym_int(it, 'num_processors')
        it.assume(N.t >= 1)

        def at_start(it, env, row):
            return row

        def at_end(it, env, row, events):
            puts = calls(events, method='put')
            sel = it.truth(it.call(pred, [row]))
            ok1 = len(puts) == 1 and puts[0].objs[0] is row
            check(it, 'exactly-one-put-of-the-row-itself', ok1)
            if ok1:
                to_in = puts[0].target is q_in
                check(it, 'selected-rows-to-the-workers-others-bypass', z3.And(z3.Implies(_b(sel), _b(to_in)),
                                                                              z3.Implies(z3.Not(_b(sel)), _b(puts[0].target is q_internal))))
            cover(it, 'row-iter-reachable')

        def m_end(it, env, cap, events):
            puts = calls(events, method='put')
            check(it, 'end-marker-goes-to-the-workers-queue', len(puts) == 1 and puts[0].target is q_in and puts[0].objs[0] is None)
            cover(it, 'marker-iter-reachable')
        it.loops['producer#L0'] = LoopSpec(at_start=at_start, at_end=at_end)
        it.loops['producer#L1'] = LoopSpec(at_start=lambda it, env, x: x, at_end=m_end,
                                           at_exit=lambda it, env: it.path.info.__setitem__('markers_done', True))
        r = it.call(prod, [rows, q_in, q_internal, N, pred])
        up = [e for e in it.path.events if e.kind == 'PullRaises']
        if up:
            it.path.info['upstream_failed'] = True
            if check_error_propagation:
                # C04: the upstream exception must reach the consumer of fork()
                check(it, 'upstream-error-propagates-to-the-consumer', False)
            return
        if it.path.info.get('markers_done'):
            n = it.path.info['count:producer#L1']
            check(it, 'exactly-N-end-markers-after-the-last-row', n == N.t)
            check(it, 'returns-zero-on-success', r == 0)
            check(it, 'drains-the-input', rows.drained is True)
    paths = vc.explore(fk, thunk, min_paths=4)
    expect_no_raise_or_same(vc, fk, paths)


def sym_work(vc):
    import z3
    from pyvc.api import real_function, LoopSpec, check, cover, ufunc, Opaque, UFunc
    from pyvc.symex import PyExc, Ev
    from pyvc import lib
    fk = vc.under_contract(PZ, ['work'])

    def thunk(it):
        work = real_function(it, 'dataflows.processors.parallelize', 'work')
        q_in, q_out = mk_queue(it, 'q_in'), mk_queue(it, 'q_out')
        got = []

        def get(it_, o, a, k):
            it.module('queue')
            if (k.get('timeout') is not None or k.get('block') is False or a) and it_.decide(2, lambda i: True) == 1:
                # T12: a get with a timeout / non-blocking get may give up with queue.Empty although items are still to come
                got.append('EMPTY')
                it_.emit(Ev('Call', target=o, method='get', args=(), kwargs={}, result=None, objs=()))
                raise PyExc(lib.ExcV('Empty', ()))
            if it_.decide(2, lambda i: True) == 0:
                v = it_.fresh_row('got')
            else:
                v = None
            got.append(v)
            it_.emit(Ev('Call', target=o, method='get', args=(), kwargs={}, result=v, objs=()))
            return v
        q_in.attrs['call:get'] = get

        def rf(it_, a, k):
            it_.emit(Ev('Call', target='row_func', method='__call__', args=(a[0].snapshot(),), kwargs={}, result=None, objs=tuple(a)))
            if it_.decide(2, lambda i: True) == 1:
                raise PyExc(lib.symbolic_exception(it_, 'row_func_exc'))
            return None
        row_func = UFunc('row_func', rf, False)

        def at_end(it, env, cap, events):
            row = got[-1]
            names = effect_names(events)
            check(it, 'per-row-get-apply-once-put-once', names == ['q_in.get', 'row_func', 'q_out.put'])
            p = calls(events, method='put')
            f = calls(events, target='row_func')
            check(it, 'applies-and-forwards-the-very-row-it-got', len(p) == 1 and p[0].objs[0] is row and len(f) == 1 and f[0].objs[0] is row)
            cover(it, 'iter-reachable')

        def at_break(it, env, cap, events):
            check(it, 'stops-only-on-an-end-marker', got[-1] is None and effect_names(events) == ['q_in.get'])
        it.loops['work#L0'] = LoopSpec(at_start=lambda it, env, x: None, at_end=at_end, at_break=at_break, modes=('iter',))
        n0 = len(it.path.events)
        it.call(work, [q_in, q_out, row_func])
        tail = it.path.events[[i for i, e in enumerate(it.path.events) if e.kind == 'Call' and e.method == 'get'][-1]:]
        puts = calls(tail, method='put')
        check(it, 'exactly-one-end-marker-after-stopping', len(puts) == 1 and puts[0].target is q_out and puts[0].objs[0] is None)
    paths = vc.explore(fk, thunk, min_paths=3)
    expect_no_raise_or_same(vc, fk, paths)


def sym_fetcher(vc):
    import z3
    from pyvc.api import real_function, LoopSpec, check, cover, sym_int, term, IntS
    from pyvc.symex import Ev
    fk = vc.under_contract(PZ, ['fetcher'])

    def thunk(it):
        fetcher = real_function(it, 'dataflows.processors.parallelize', 'fetcher')
        q_out, q_internal = mk_queue(it, 'q_out'), mk_queue(it, 'q_internal')
        N = sym_int(it, 'num_processors')
        it.assume(N.t >= 1)
        got = []

        def get(it_, o, a, k):
            v = it_.fresh_row('got') if it_.decide(2, lambda i: True) == 0 else None
            got.append(v)
            it_.emit(Ev('Call', target=o, method='get', args=(), kwargs={}, result=v, objs=()))
            return v
        q_out.attrs['call:get'] = get
        st = {}

        def at_entry(it, env):
            check(it, 'starts-expecting-N-markers', term(env.lookup('expected_nones'), IntS) == N.t)

        def inv(it, env):
            return term(env.lookup('expected_nones'), IntS) >= 1

        def at_start(it, env, x):
            return term(env.lookup('expected_nones'), IntS)

        def at_end(it, env, e0, events):
            row = got[-1]
            e1 = term(env.lookup('expected_nones'), IntS)
            puts = calls(events, method='put')
            if row is None:
                check(it, 'marker-counted-not-forwarded', z3.And(e1 == e0 - 1, _b(len(puts) == 0)))
            else:
                check(it, 'row-forwarded-once-in-order-of-receipt', z3.And(e1 == e0, _b(len(puts) == 1 and puts[0].objs[0] is row and
                                                                                            puts[0].target is q_internal)))
            cover(it, 'iter-reachable')

        def at_break(it, env, e0, events):
            e1 = term(env.lookup('expected_nones'), IntS)
            puts = calls(events, method='put')
            check(it, 'stops-exactly-at-the-last-marker', z3.And(_b(got[-1] is None), e0 == 1, e1 == 0))
            check(it, 'signals-completion-exactly-once', len(puts) == 1 and puts[0].target is q_internal and puts[0].objs[0] is None)
        it.loops['fetcher#L0'] = LoopSpec(at_entry=at_entry, inv=inv, at_start=at_start, at_end=at_end, at_break=at_break, modes=('iter',))
        it.call(fetcher, [q_out, q_internal, N])
    paths = vc.explore(fk, thunk, min_paths=3)
    expect_no_raise_or_same(vc, fk, paths)


def sym_fork(vc):
    import z3
    from pyvc.api import real_function, LoopSpec, check, cover, row_stream, ufunc, sym_int, Opaque, UFunc, yields_of, same_row
    from pyvc.symex import Ev
    fk = vc.under_contract(PZ, ['fork'])
    for with_pred in (True, False):
        def thunk(it, with_pred=with_pred):
            fork = real_function(it, 'dataflows.processors.parallelize', 'fork')
            m = it.module('dataflows.processors.parallelize')
            rows = row_stream(it, 'res')
            pred = ufunc('predicate') if with_pred else None
            row_func = ufunc('row_func', pure=False)
            N = sym_int(it, 'num_processors')
            q_internal = mk_queue(it, 'q_internal')
            got = []

            def get(it_, o, a, k):
                v = it_.fresh_row('delivered') if it_.decide(2, lambda i: True) == 0 else None
                got.append(v)
                it_.emit(Ev('Call', target=o, method='get', args=(), kwargs={}, result=v, objs=()))
                return v
            q_internal.attrs['call:get'] = get
            made = {}
            mpm = it.module('multiprocessing')
            mpm.attrs['Queue'] = UFunc('mp.Queue', lambda it_, a, k: made.setdefault('q_in', mk_queue(it_, 'q_in')), False)
            qm = it.module('queue')
            qm.attrs['Queue'] = UFunc('queue.Queue', lambda it_, a, k: q_internal, False)
            th = it.module('threading')

            def Thread(it_, a, k):
                t = Opaque('Thread', 'producer_thread')
                made['thread_kw'] = k
                return t
            th.attrs['Thread'] = UFunc('Thread', Thread, False)
            m.attrs['init_mp'] = UFunc('init_mp', lambda it_, a, k: (made.__setitem__('init', a), ('PROCS', 'TFETCH'))[1], False)
            m.attrs['fini_mp'] = UFunc('fini_mp', lambda it_, a, k: made.__setitem__('fini', a), False)
            tag = '[predicate=%s]' % with_pred

            def at_start(it, env, row):
                return row, row.snapshot()

            def at_end(it, env, cap, events):
                # reached for a row that is not selected (before the pool starts), or after the pool finished
                row, snap = cap
                if 'init' not in made:
                    ys = yields_of(events)
                    check(it, 'unselected-leading-row-yielded-untouched' + tag, len(ys) == 1 and ys[0].obj is row)
                    if len(ys) == 1:
                        check(it, 'leading-row-unchanged' + tag, same_row(ys[0].value, snap))
                else:
                    names = effect_names(events)
                    check(it, 'pool-finished-after-the-end-marker' + tag, 'producer_thread.join' in names and 'fini' in made and
                          names.index('producer_thread.join') > max([i for i, n in enumerate(names) if n == 'q_internal.get']))
                    kw = made.get('thread_kw', {})
                    args = kw.get('args')
                    check(it, 'producer-gets-the-rest-of-the-stream-starting-with-this-row' + tag, args is not None and
                          args[0].__class__.__name__ == 'ChainV' and args[0].parts[0].items == [row] and args[0].parts[1] is rows and
                          args[1] is made.get('q_in') and args[2] is q_internal and args[3] is N)
                    ia = made.get('init')
                    check(it, 'workers-and-collector-wired-to-the-same-queues' + tag, ia is not None and ia[0] is N and
                          ia[1] is row_func and ia[2] is made.get('q_in') and ia[3] is q_internal)
                # exactly once per selected row means: by ONE worker (work's contract) and by nobody else -- the parent hands the
                # function to the pool and never applies it itself (not even to a copy: a shallow copy shares the nested values)
                check(it, 'row-function-applied-by-the-workers-only' + tag,
                      not [e for e in events if e.kind == 'Call' and getattr(e, 'target', None) in ('row_func', row_func)])
                cover(it, 'iter-reachable' + tag)

            def w_end(it, env, cap, events):
                ys = yields_of(events)
                check(it, 'every-non-marker-item-yielded-once' + tag, len(ys) == 1 and ys[0].obj is got[-1] and got[-1] is not None)

            def w_break(it, env, cap, events):
                check(it, 'stops-at-the-first-end-marker' + tag, got[-1] is None and not yields_of(events))
            it.loops['fork#L0'] = LoopSpec(at_start=at_start, at_end=at_end)
            it.loops['fork#L1'] = LoopSpec(at_start=lambda it, env, x: None, at_end=w_end, at_break=w_break, modes=('iter',))
            it.run_generator(it.call(fork, [rows, row_func, N, pred]))
        paths = vc.explore(fk, thunk, min_paths=3)
        expect_no_raise_or_same(vc, fk, paths)


def sym_composition(vc):
    """the schedule quantifier: for EVERY assignment of time stamps consistent with the thread contracts, program order and
    the queue axioms, every input row is delivered before the completion marker, for every number of workers"""
    import z3
    fk = vc.under_contract(PZ, ['fork'])
    vc.cur_fn = fk
    I = z3.IntSort()
    W = z3.DeclareSort('Worker')
    w = z3.Const('w', W)
    # a selected row i handled by worker wi
    tP, tG, tF, tO, tH, tI_, tD = z3.Ints('tP tG tF tO tH tI tD')
    wi = z3.Const('wi', W)
    # end markers: producer's marker consumed by worker w, that worker's marker to q_out, its receipt by the fetcher
    tPn = z3.Function('tPn', W, I)
    tGn = z3.Function('tGn', W, I)
    tOn = z3.Function('tOn', W, I)
    tHn = z3.Function('tHn', W, I)
    tIf, tDf = z3.Ints('tIf tDf')
    hyps = [
        # producer contract: every row put precedes every end-marker put (markers only after the last row)
        z3.ForAll([w], tP < tPn(w)),
        # q_in is a linearizable FIFO with one producer: gets follow the order of puts
        z3.ForAll([w], z3.Implies(tP < tPn(w), tG < tGn(w))),
        # worker contract (sequential): get row, apply once, put it, only then the next get; its marker comes last
        tP < tG, tG < tF, tF < tO, tO < tGn(wi), z3.ForAll([w], tGn(w) < tOn(w)),
        # q_out: FIFO per producer (the worker wi put the row before its own marker)
        z3.Implies(tO < tOn(wi), tH < tHn(wi)), tO < tH,
        # fetcher contract (sequential): forwards the row before its next get; the completion marker after the N-th marker
        tH < tI_, tI_ < tHn(wi), z3.ForAll([w], tHn(w) < tIf), z3.ForAll([w], tOn(w) < tHn(w)),
        # q_internal is a linearizable FIFO: gets follow the order of puts
        z3.Implies(tI_ < tIf, tD < tDf), tI_ < tD,
    ]
    vc.add('parallelize.composition.selected-row-delivered-before-completion', hyps, tD < tDf)
    # a bypassed (unselected) row j
    tB, tDb = z3.Ints('tB tDb')
    hyps2 = [
        z3.ForAll([w], tB < tPn(w)),                      # producer: bypass puts precede all end markers
        z3.ForAll([w], tPn(w) < tGn(w)), z3.ForAll([w], tGn(w) < tOn(w)), z3.ForAll([w], tOn(w) < tHn(w)),
        z3.ForAll([w], tHn(w) < tIf),                     # completion only after every worker's marker
        z3.Implies(tB < tIf, tDb < tDf), tB < tDb,        # q_internal FIFO
        tGn(wi) == tGn(wi),                               # at least one worker exists (N >= 1)
    ]
    vc.add('parallelize.composition.bypassed-row-delivered-before-completion', hyps2, tDb < tDf)
    vc.add('parallelize.composition.cover-selected', hyps, None, kind='cover')
    vc.add('parallelize.composition.cover-bypassed', hyps2, None, kind='cover')
    # sanity of the lemma: without the fetcher waiting for ALL markers the conclusion must NOT follow
    weak = [h for h in hyps if 'tHn(w) < tIf' not in str(h)]
    vc.add('parallelize.composition.canary-fetcher-must-wait-for-all-markers', weak, tD < tDf, kind='canary')


def nat_parallelize(h):
    """bounded: real runs, N = 1..4 x predicate patterns x lengths; multiset of delivered rows == sequential result, each
    selected row went through row_func exactly once; a hang is a failure (timeout)"""
    import multiprocessing as mp

    def child(conn, N, n, pattern):
        try:
            from dataflows import Flow, parallelize

            def f(row):
                row['seen'] = row.get('seen', 0) + 1
                row['tags'].append('x')          # a nested value edited in place: "exactly once" must hold for it too
            preds = {'default': None, 'all': (lambda r: True), 'none': (lambda r: False), 'some': (lambda r: r['i'] % 3 == 0),
                     'late': (lambda r: r['i'] >= n - 2), 'early': (lambda r: r['i'] < 20)}
            rows = [{'i': i, 'seen': 0, 'tags': []} for i in range(n)]
            res = Flow(rows, parallelize(f, num_processors=N, predicate=preds[pattern])).results(on_error=None)[0]
            conn.send(('ok', res))
        except BaseException as e:
            conn.send(('exc', repr(e)))
    combos = [(N, n, p) for N in (1, 2, 3, 4) for n in (0, 1, 5, 12) for p in ('default', 'all', 'none', 'some', 'late')]
    h.rng.shuffle(combos)
    # a long tail of unselected rows behind the last selected one (they bypass the workers: nothing may overtake them at the end)
    long_tail = [(N, 4000, 'early') for N in (1, 2, 4)]
    for N, n, pattern in long_tail + combos[:h.n(14, 80)]:
        if n == 0:
            continue
        a, b = mp.Pipe()
        p = mp.Process(target=child, args=(b, N, n, pattern))
        p.start()
        ok, note, got = False, 'timeout (hang)', None
        if a.poll(60):
            got = a.recv()
            sel = {'default': lambda i: True, 'all': lambda i: True, 'none': lambda i: False, 'some': lambda i: i % 3 == 0,
                   'late': lambda i: i >= n - 2, 'early': lambda i: i < 20}[pattern]
            want = sorted([(i, 1 if sel(i) else 0, 1 if sel(i) else 0) for i in range(n)])
            if got[0] == 'ok':
                out = sorted((r['i'], r['seen'], len(r['tags'])) for r in got[1][0]) if got[1] else []
                ok = out == want
                note = out
        p.join(5)
        if p.is_alive():
            p.kill()
        h.check(ok, PZ + '::fork', (N, n, pattern), 'every row once, selected ones processed once', note)
        if note == 'timeout (hang)':
            break       # one run that does not terminate decides; do not wait a minute for each remaining configuration


from contracts import C10 as _K10   # noqa: E402  (ResourceMatcher: the contract every selector-taking step is checked against)

ITEMS = [
    _K10._mk_matcher_item(),
    Item('producer', sym_producer, [], PZ + '::producer'),
    Item('work', sym_work, [], PZ + '::work'),
    Item('fetcher', sym_fetcher, [], PZ + '::fetcher'),
    Item('fork', sym_fork, [('runs', nat_parallelize)], PZ + '::fork'),
    Item('composition', sym_composition, [], PZ + '::fork'),
    Item('recorded-findings', None, [('bounded', KF.nat_findings_c18), ('bounded-1', KF.nat_findings_parallelize_errors)], 'dataflows/processors/parallelize.py::fork'),
]
