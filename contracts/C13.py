"""C13  load reproduces the source table faithfully.

In-repo obligations (tabulator's parsing itself is a dependency: assumed T15, exercised by the bounded CSV run):
  load.limiter           = take(limit_rows): every pulled row is yielded (same object) and counted; the loop stops right after
                           the limit-th row without pulling another one; fewer rows -> all of them
  load.stringer          = per row a fresh dict with every non-string cell replaced by str(cell)
  load.process_resources = upstream streams first, then one stream per loaded resource wrapped limit(strip(cast(..)))  (C16)
  load.safe_process_datapackage, (descriptor, iterators) source: descriptors and iterators are filtered by the SAME matcher,
                           position-wise, and appended after the existing resources
  ResourceMatcher        = C10 contract
  schema_validator       = C14 contract (cast_strategy=schema + on_error)
Bounded only: rename_duplicate_headers, stripper, missing_values_extractor, the file branch of safe_process_datapackage and
the end-to-end CSV fidelity run.
"""
from contracts import findings_natives as KF
from contracts.common import (Item, mk_resource, mk_package2, run_spec, ghost_row, expect_no_raise_or_same, row_transducer, _b,
                              selector)
from contracts import C14 as K14, C10 as K10, C16 as K16, natives as NAT

P = 'dataflows/processors/'
TRUSTED = ['T1 pyvc model of Python (DESIGN 3)', 'T15 tabulator.Stream: headers, rows in file order, one per data line, cell text '
           'preserved', 'T5 tableschema inference / cast', 'T16 z3 / cvc5']
ASSUMPTIONS = ['CSV parsing fidelity is tabulator\'s: not decided deductively, only exercised by the bounded run',
               'header de-duplication can produce a name that collides with an existing header: recorded finding F-C13-dedup']

SPEC = '''
def stringify(row):
    return [dict((k, str(v)) if not isinstance(v, str) else (k, v) for k, v in row.items())]
'''


STRIP_SPEC = '''
def strip_cell(v):
    if isinstance(v, str) and v != '' and (v[-1] in ' \\t\\n\\r' or v[0] in ' \\t\\n\\r'):
        return v.strip()
    else:
        return v


def strip_step(row):
    return [dict((k, strip_cell(v)) for k, v in row.items())]
'''


def mk_load(it, **kw):
    from pyvc.api import real_function
    L = real_function(it, 'dataflows.processors.load', 'load')
    return it.call(L, ['data.csv'], kw)


def sym_limiter(vc):
    import z3
    from pyvc.api import LoopSpec, check, cover, yields_of, row_stream, sym_int, term, IntS, same_row
    fk = vc.under_contract(P + 'load.py', ['load', 'limiter'])

    def thunk(it):
        lim = sym_int(it, 'limit_rows')
        it.assume(lim.t >= 0)                       # exactly the first n rows, for every n >= 0 (n = 0: no row, nothing read)
        ld = mk_load(it, limit_rows=lim)
        rows = row_stream(it, 'iterator')

        def inv_n(it, env, n):
            return z3.And(term(env.lookup('count'), IntS) == n, n < lim.t)

        def at_start(it, env, row):
            return row, row.snapshot()

        def at_end(it, env, cap, events):
            row, snap = cap
            ys = yields_of(events)
            check(it, 'every-pulled-row-is-yielded-once', len(ys) == 1)
            if len(ys) == 1:
                check(it, 'row-untouched', same_row(ys[0].value, snap))
            check(it, 'no-buffering', not [e for e in events if e.kind == 'Drain'])
            cover(it, 'iter-reachable')

        def at_break(it, env, cap, events):
            row, snap = cap
            ys = yields_of(events)
            n = it.path.info['count:limiter#L0']
            check(it, 'stops-exactly-at-the-limit', z3.And(_b(len(ys) == 1), same_row(ys[0].value, snap) if len(ys) == 1 else _b(False), n + 1 == lim.t))
            check(it, 'no-pull-after-the-last-delivered-row', len([e for e in events if e.kind == 'Pull']) == 0)
        it.loops['load.limiter#L0'] = LoopSpec(inv_n=inv_n, at_start=at_start, at_end=at_end, at_break=at_break,
                                               at_exit=lambda it, env: it.path.info.__setitem__('exit_mark', len(it.path.events)))
        it.run_generator(it.call(it.lib.getattr_(it, ld, 'limiter'), [rows]))
        tail = it.path.events[it.path.info['exit_mark']:] if 'exit_mark' in it.path.info else \
            [e for e in it.path.events[[i for i, e in enumerate(it.path.events) if e.kind == 'Break'][0]:]] if \
            [e for e in it.path.events if e.kind == 'Break'] else []
        check(it, 'nothing-after-the-loop', not yields_of(tail) and not [e for e in tail if e.kind == 'Pull'])
        if 'exit_mark' in it.path.info:
            n = it.path.info['count:limiter#L0']
            check(it, 'shorter-stream-delivered-completely', n < lim.t)
        if not [e for e in it.path.events if e.kind in ('Pull', 'Exhausted', 'Break')]:
            # the loop was never reached
            check(it, 'nothing-read-and-nothing-yielded-only-for-a-limit-of-zero', z3.And(lim.t == 0, _b(not yields_of(it.path.events))))
            cover(it, 'zero-limit-reachable')
    paths = vc.explore(fk, thunk, min_paths=3)
    expect_no_raise_or_same(vc, fk, paths)


def sym_stringer(vc):
    def get_fn(it):
        ld = mk_load(it)
        return it.lib.getattr_(it, ld, 'stringer')
    row_transducer(vc, P + 'load.py', ['load', 'stringer'], None, None, SPEC, 'stringify', lambda it, rows: ([rows], []),
                   'load.stringer#L0', identity=False, get_fn=get_fn, min_paths=2)


def sym_stripper(vc):
    """load.stripper: per row the SAME dict object is yielded with the same keys; a string cell that begins or ends with one of
    ' \\t\\n\\r' is replaced by its .strip(), every other cell (other strings, non-strings, None) is left exactly as it was"""
    def get_fn(it):
        ld = mk_load(it)
        return it.lib.getattr_(it, ld, 'stripper')
    row_transducer(vc, P + 'load.py', ['load', 'stripper'], None, None, STRIP_SPEC, 'strip_step', lambda it, rows: ([rows], []),
                   'load.stripper#L0', identity=None, get_fn=get_fn, min_paths=2)


def sym_rename_duplicate_headers(vc):
    """load.rename_duplicate_headers -- BOUNDED STRUCTURE (3 headers, symbolic text, loop unrolled): position-wise, a header whose
    key (the text, lower-cased unless case_sensitive) occurs once is returned as it is; the k-th occurrence of a repeated key is
    the header text followed by the format applied to k -- the header text itself is never interpreted as a template"""
    import z3
    from pyvc.api import real_function, check, cover, sym_str, PyList, term, StrS, IntS
    fk = vc.under_contract(P + 'load.py', ['load', 'rename_duplicate_headers'])
    vc.bounded_label = 'structure unrolled: exactly 3 headers'
    for cs in (True, False):
        def thunk(it, cs=cs):
            L = real_function(it, 'dataflows.processors.load', 'load')
            fn = L.methods.get('rename_duplicate_headers') or it.lib.getattr_(it, L, 'rename_duplicate_headers')
            hs = [sym_str(it, 'h%d' % i) for i in range(3)]
            out = it.call(fn, [PyList(list(hs))], dict(case_sensitive=cs, deduplicate_format=' (%s)'))
            from pyvc.lib import LOWER as LOW
            key = [h.t if cs else LOW(h.t) for h in hs]
            ok = isinstance(out, PyList) and len(out.items) == 3
            check(it, 'one-name-per-header[cs=%s]' % cs, ok)
            if not ok:
                return
            I2S = lambda n: z3.StringVal(str(n))
            for i in range(3):
                occ_before = sum([z3.If(key[j] == key[i], 1, 0) for j in range(i)]) if i else z3.IntVal(0)
                occ_total = sum([z3.If(key[j] == key[i], 1, 0) for j in range(3)])
                o = term(out.items[i], StrS)
                want = z3.If(occ_total == 1, hs[i].t,
                             z3.If(occ_before == 0, z3.Concat(hs[i].t, z3.StringVal(' (1)')),
                                   z3.If(occ_before == 1, z3.Concat(hs[i].t, z3.StringVal(' (2)')), z3.Concat(hs[i].t, z3.StringVal(' (3)')))))
                check(it, 'header-%d-kept-or-suffixed-with-its-ordinal[cs=%s]' % (i, cs), o == want)
            cover(it, 'reachable[cs=%s]' % cs)
        vc.explore(fk, thunk, min_paths=2)


def sym_tuple_source(vc):
    """load((descriptor, iterators)): the same matcher filters descriptors and iterators position-wise"""
    import z3
    from pyvc.api import real_function, LoopSpec, check, cover, PyDict, SymList, SymSeq, IntS, Opaque, Tree, PyList, Stream, yields_of
    from pyvc import lib
    from contracts.common import resource_desc
    fk = vc.under_contract(P + 'load.py', ['load', 'safe_process_datapackage'])
    for kind in ('none', 'list', 'str', 'int'):
        def thunk(it, kind=kind):
            L = real_function(it, 'dataflows.processors.load', 'load')
            sel, want = selector(it, kind)
            pw = mk_package2(it, 'src')
            src_desc = pw.attrs['pkg'].attrs['descriptor']
            given = []

            def mk_iter(it_):
                from pyvc.api import row_stream
                o = row_stream(it_, 'given_iterator%d' % len(given))
                given.append(o)
                return o
            iters = Stream('resource_iterator', mk_iter)
            ld = it.call(L, [(src_desc, iters)], dict(resources=sel))
            if kind == 'int':
                i = sel.t
                it.path.info['allowed_exc'] = {'IndexError': z3.Not(z3.And(i >= -pw.nres, i < pw.nres))}
            dp = Opaque('Package', 'dp')
            dpd = Tree('dpdesc')
            dpd.schema = {'resources': lambda it_, n, k: SymList(SymSeq('existing', it_.fresh('existing', IntS), None), [])}
            dp.attrs['descriptor'] = dpd
            tag = '[%s]' % kind

            def at_start(it, env, rd):
                return rd

            def at_end(it, env, rd, events):
                m = want(pw, rd.children['name'].t)
                aps = [e for e in events if e.kind == 'Append' and e.obj is ld.attrs['resource_descriptors']]
                check(it, 'descriptor-kept-iff-selected' + tag,
                      z3.And(z3.Implies(m, _b(len(aps) == 1 and aps[0].value is rd)), z3.Implies(z3.Not(m), _b(len(aps) == 0))))
                cover(it, 'iter-reachable' + tag)
            def at_entry(it, env):
                me = env.lookup('self')
                cur = me.attrs.get('resource_descriptors')
                check(it, 'collecting-starts-from-an-empty-list-whatever-an-earlier-use-left' + tag,
                      isinstance(cur, PyList) and cur.items == [])
            it.loops['load.safe_process_datapackage#L0'] = LoopSpec(at_start=at_start, at_end=at_end, at_entry=at_entry)
            # the step object may have been used before: whatever that run collected must not be loaded again
            stale_d, stale_i = Opaque('descriptor', 'descriptor_of_an_earlier_run'), Opaque('iterator', 'exhausted_iterator_of_an_earlier_run')
            for attr, stale in (('resource_descriptors', stale_d), ('iterators', stale_i)):
                if isinstance(ld.attrs.get(attr), PyList):
                    ld.attrs[attr].items.append(stale)
            before_d, before_i = ld.attrs.get('resource_descriptors'), ld.attrs.get('iterators')
            n_call = len(it.path.events)
            r = it.call(it.lib.getattr_(it, ld, 'safe_process_datapackage'), [dp])
            rds = ld.attrs['resource_descriptors']
            # (the collecting lists are started afresh by the call: what is appended to the package is a list made in this call, and no
            # append of this call went to a list that existed before it)
            old_appends = [e for e in it.path.events[n_call:] if e.kind == 'Append' and (e.obj is before_d or e.obj is before_i)]
            check(it, 'nothing-of-an-earlier-use-is-loaded-again' + tag, not (isinstance(rds, PyList) and stale_d in rds.items) and
                  not (isinstance(ld.attrs['iterators'], PyList) and stale_i in ld.attrs['iterators'].items) and
                  rds is not before_d and not old_appends)
            its = ld.attrs['iterators']
            # iterators: a LAZY filter over the pairs (k-th given iterator, k-th descriptor), by the same matcher on the
            # descriptor's name; the rows of a skipped iterator are consumed before the next pair is looked at (the iterators
            # may all read one sequential medium)
            from pyvc.api import GenObj
            ok = isinstance(its, (lib.GenExp, GenObj))
            check(it, 'iterators-filtered-lazily' + tag, ok and not [e for e in it.path.events if e.kind in ('Pull', 'Drain', 'Take')
                                                                      and getattr(e, 'src', None) in (iters, iters.name)])
            if ok:
                def p_end(it_, env_, cap, evs):
                    zs = (it_.path.info.get('zip_sources') or [None])[-1]
                    ys = yields_of(evs)
                    okz = zs is not None and zs.shortest and len(zs.parts) == 2 and zs.present == [True, True] and len(given) == 1 \
                        and getattr(getattr(zs.parts[0], 'stream', None), 'name', None) == iters.name
                    check(it_, 'pairs-are-kth-iterator-with-kth-descriptor' + tag, okz)
                    if okz:
                        k = zs.index
                        m = want(pw, pw.RESNAME(k))
                        check(it_, 'kth-iterator-kept-iff-kth-descriptor-selected' + tag, z3.And(
                            z3.Implies(m, _b(len(ys) == 1 and ys[0].obj is given[0])), z3.Implies(z3.Not(m), _b(len(ys) == 0))))
                        drained = bool([e for e in evs if e.kind == 'Drain' and e.src in (given[0], getattr(given[0], 'name', None))]) or \
                            given[0].drained is True
                        check(it_, 'skipped-iterator-consumed-selected-iterator-untouched' + tag, z3.And(
                            z3.Implies(m, _b(not drained)), z3.Implies(z3.Not(m), _b(drained))))
                    cover(it_, 'pair-reachable' + tag)
                # (one contract, whichever shape the lazy filter has: a generator expression or a generator function)
                it.loops['<top>#X0'] = it.loops['load.selected_iterators#L0'] = it.loops['selected_iterators#L0'] = LoopSpec(at_end=p_end)
                n_before = len(it.path.events)
                if isinstance(its, GenObj):
                    it.run_generator(its)
                else:
                    it.lib.yield_from(it, its)
                check(it, 'nothing-yielded-after-the-pairs-are-exhausted' + tag, not yields_of(it.path.events[n_before:]))
            ex = [e for e in it.path.events if e.kind == 'Call' and e.method == 'extend']
            check(it, 'selected-descriptors-appended-after-the-existing-resources' + tag,
                  len(ex) == 1 and ex[0].objs[0] is ld.attrs['resource_descriptors'])
        paths = vc.explore(fk, thunk, min_paths=2)
        expect_no_raise_or_same(vc, fk, paths)


# ------------------------------------------------------------------------------------------------ bounded natives

def nat_wrappers(h):
    from dataflows.processors.load import load
    for _ in range(h.n()):
        rows = h.rows(keys=['a', 'b', 'c'], vals=[' x', 'y ', ' z ', 'w', '', None, 5, 1.5, True, '\tq\n', ' '], total=h.rng.random() < 0.7)
        ld = load('x.csv', limit_rows=h.rng.choice([None, 0, 1, 2, 3, 10]))
        # stripper: leading/trailing whitespace of string cells removed, everything else untouched, in place
        inp = [dict(r) for r in rows]
        got = list(ld.stripper(iter(inp)))
        want = [{k: (v.strip() if isinstance(v, str) else v) for k, v in r.items()} for r in rows]
        h.check(got == want and all(a is b for a, b in zip(got, inp)), P + 'load.py::load.stripper', rows, want, got)
        # limiter
        if ld.limit_rows is not None:
            pulled = [0]

            def src():
                for r in rows:
                    pulled[0] += 1
                    yield r
            got = list(ld.limiter(src()))
            h.check(got == rows[:ld.limit_rows] and pulled[0] == min(len(rows), ld.limit_rows), P + 'load.py::load.limiter',
                    (rows, ld.limit_rows), (rows[:ld.limit_rows], min(len(rows), ld.limit_rows)), (got, pulled[0]))
        got = list(ld.stringer(iter(rows)))
        want = [{k: (v if isinstance(v, str) else str(v)) for k, v in r.items()} for r in rows]
        h.check(got == want and all(isinstance(v, str) for r in got for v in r.values()), P + 'load.py::load.stringer', rows, want, got)
        # missing values extractor
        ld2 = load('x.csv', extract_missing_values={'values': ['', 'w'], 'source': h.rng.choice([None, 'a', ['a', 'b']])})
        src_ = ld2.extract_missing_values['source']
        inp = [dict(r) for r in rows]
        got = list(ld2.missing_values_extractor(iter(inp)))
        want = [dict(r, missingValues={k: v for k, v in r.items() if (not src_ or k in src_) and v in ['', 'w']}) for r in rows]
        h.check(got == want, P + 'load.py::load.missing_values_extractor', (rows, src_), want, got)


def nat_headers(h):
    from dataflows.processors.load import load
    pool = ['a', 'A', 'b', 'a (1)', 'a (2)', 'c', 'B']
    # header text is data: format characters in it ('%', '{}') are part of the name, not of a template
    odd = ['share %', '100%', '%s', '50%%off', '{}', '{0}', '%(x)s', 'SHARE %']
    for _ in range(h.n(150, 1500)):
        src = pool[:3] + pool[5:] if h.rng.random() < 0.6 else odd + ['a']
        hdrs = [h.rng.choice(src) for _ in range(h.rng.randint(1, 5))]
        cs = h.rng.random() < 0.5
        fmt = h.rng.choice([' (%s)', '_%s'])
        res = h.run(lambda: load.rename_duplicate_headers(list(hdrs), case_sensitive=cs, deduplicate_format=fmt))
        if not h.check(res[0] == 'ok', P + 'load.py::load.rename_duplicate_headers', (hdrs, cs, fmt), 'headers made unique', res[:2]):
            continue
        out = res[1]
        keyf = (lambda s: s) if cs else (lambda s: s.lower())
        ok = len(out) == len(hdrs) and len(set(map(keyf, out))) == len(out)
        # position-wise: a header is kept, or is the header plus a formatted counter
        for o, hd in zip(out, hdrs):
            ok = ok and (o == hd or (o.startswith(hd) and o != hd))
        # headers that were already unique are untouched
        for o, hd in zip(out, hdrs):
            if [keyf(x) for x in hdrs].count(keyf(hd)) == 1:
                ok = ok and o == hd
        h.check(ok, P + 'load.py::load.rename_duplicate_headers', (hdrs, cs, fmt), 'unique, position-wise derived', out)


def nat_headers_finding(h):
    from dataflows.processors.load import load
    out = load.rename_duplicate_headers(['a', 'a', 'a (1)'])
    h.check(len(set(out)) == len(out), P + 'load.py::load.rename_duplicate_headers', ['a', 'a', 'a (1)'], 'pairwise distinct', out)


def nat_csv(h):
    """bounded: generated CSV files loaded by the real load(): one row per data line, file order, header names, cell text"""
    import csv, io, os, tempfile, shutil
    from dataflows import Flow, load
    from dataflows.base.schema_validator import ignore, drop, clear, raise_exception
    cells = ['x', 'a,b', 'q"uote', 'line\nbreak', ' pad ', '', '12', '-3.5', 'é😀', 'True', '2020-01-02', "it's"]
    for _ in range(h.n(30, 300)):
        ncol = h.rng.randint(1, 4)
        dup = h.rng.random() < 0.3
        hdr = ['h%d' % i for i in range(ncol)]
        if dup and ncol > 1:
            hdr[1] = hdr[0] if h.rng.random() < 0.5 else hdr[0].upper()
        nrow = h.rng.randint(1, 6)
        table = [[h.rng.choice(cells) for _c in range(ncol)] for _r in range(nrow)]
        # a fully empty line is skipped by the default skip_rows preset: keep at least one non-empty cell per row
        for r in table:
            if all(c == '' for c in r):
                r[0] = 'x'
        d = tempfile.mkdtemp(prefix='c13_')
        try:
            p = os.path.join(d, 't.csv')
            with open(p, 'w', newline='', encoding='utf-8') as f:
                w = csv.writer(f)
                w.writerow(hdr)
                w.writerows(table)
            strip = h.rng.random() < 0.5
            limit = h.rng.choice([None, None, 0, 1, 3])
            dedup = h.rng.random() < 0.6
            cs = h.rng.random() < 0.5
            exact_dup = len(set(hdr)) != len(hdr)
            lower_dup = len({x.lower() for x in hdr}) != len(hdr)
            has_dup = exact_dup if cs else lower_dup
            got = h.run(lambda: Flow(load(p, infer_strategy=load.INFER_STRINGS, cast_strategy=load.CAST_TO_STRINGS, strip=strip,
                                          limit_rows=limit, deduplicate_headers=dedup,
                                          deduplicate_headers_case_sensitive=cs)).results(on_error=None))
            cfg = (hdr, table, strip, limit, dedup, cs)
            if has_dup and not dedup:
                h.check(got[0] == 'exc', P + 'load.py::load.safe_process_datapackage', cfg, 'duplicate headers rejected', got[:2])
                continue
            if exact_dup != has_dup:
                continue      # headers equal up to case with case-sensitive handling: tabulator keys collide, outside the claim
            if not h.check(got[0] == 'ok', P + 'load.py::load', cfg, 'loads', got[:2]):
                continue
            res, dp, _ = got[1]
            names = [f['name'] for f in dp.descriptor['resources'][0]['schema']['fields']]
            if not has_dup:
                h.check(names == hdr, P + 'load.py::load.safe_process_datapackage', cfg, hdr, names)
            else:
                h.check(len(set(names)) == len(names) and len(names) == len(hdr), P + 'load.py::load.rename_duplicate_headers', cfg,
                        'unique names', names)
            exp = [[(c.strip() if strip else c) for c in r] for r in table]
            if limit is not None:
                exp = exp[:limit]
            gotrows = [[r[n] for n in names] for r in res[0]]
            if gotrows != exp and not strip and gotrows == [[c.lstrip(' ') for c in r] for r in exp]:
                # recorded finding F-C13-initial-space-sniffed: csv.Sniffer (through tabulator) guesses skipinitialspace=True for some
                # files (a quoted cell followed by ', '), and the blanks that open a cell are then dropped although strip=False
                h.cur = h.cur + '/initial-space-sniffed'
                h.check(False, P + 'load.py::load', cfg, exp, gotrows)
                h.cur = h.cur[:-len('/initial-space-sniffed')]
                continue
            h.check(gotrows == exp, P + 'load.py::load', cfg, exp, gotrows)
        finally:
            shutil.rmtree(d, ignore_errors=True)


def nat_empty_cells_through_results(h):
    """bounded: an empty cell of a delimited file observed through results() (which casts every row with the final schema) is null,
    whatever the other columns of the table are -- an all-text table is treated like a table with a numeric column"""
    import csv, os, tempfile, shutil
    from dataflows import Flow, load
    d = tempfile.mkdtemp(prefix='c13e_')
    try:
        for label, header, body in (('all-text', ['name', 'note'], [['ann', ''], ['', 'x'], ['bob', 'y']]),
                                    ('text-and-number', ['name', 'note', 'n'], [['ann', '', '1'], ['', 'x', '2'], ['bob', 'y', '']])):
            p = os.path.join(d, label + '.csv')
            with open(p, 'w', newline='', encoding='utf-8') as f:
                w = csv.writer(f)
                w.writerow(header)
                w.writerows(body)
            for kw in ({}, dict(infer_strategy=load.INFER_STRINGS), dict(infer_strategy=load.INFER_STRINGS, cast_strategy=load.CAST_TO_STRINGS)):
                got = h.run(lambda: Flow(load(p, **kw)).results()[0][0])
                want_text = [[(c if c != '' else None) for c in r[:2]] for r in body]
                ok = got[0] == 'ok' and [[r['name'], r['note']] for r in got[1]] == want_text
                h.check(ok, 'dataflows/base/datastream_processor.py::DataStreamProcessor.safe_process', (label, sorted(kw)), want_text,
                        [[r.get('name'), r.get('note')] for r in got[1]] if got[0] == 'ok' else got[:2])
    finally:
        shutil.rmtree(d, ignore_errors=True)


def nat_cast_on_error(h):
    import csv, os, tempfile, shutil
    from dataflows import Flow, load
    from dataflows.base.schema_validator import ignore, drop, clear, raise_exception
    for _ in range(h.n(15, 150)):
        n = h.rng.randint(2, 8)
        vals = [str(i) for i in range(n)]
        bad = h.rng.randint(1, n - 1)
        vals[bad] = 'oops'
        d = tempfile.mkdtemp(prefix='c13b_')
        try:
            p = os.path.join(d, 't.csv')
            with open(p, 'w', newline='') as f:
                w = csv.writer(f)
                w.writerow(['id', 'n', 'm'])
                for i, v in enumerate(vals):
                    w.writerow([i, v, 100 + i])
            pol = h.rng.choice(['raise', 'drop', 'ignore', 'clear'])
            hd = {'raise': raise_exception, 'drop': drop, 'ignore': ignore, 'clear': clear}[pol]
            got = h.run(lambda: Flow(load(p, cast_strategy=load.CAST_WITH_SCHEMA, on_error=hd,
                                          override_fields={'n': {'type': 'integer'}, 'id': {'type': 'integer'}, 'm': {'type': 'integer'}})).results(on_error=None)[0][0])
            if pol == 'raise':
                ok = got[0] == 'exc' and type(got[2].cause).__name__ == 'ValidationError' and got[2].cause.index == bad
            else:
                exp = []
                for i, v in enumerate(vals):
                    if i != bad:
                        exp.append({'id': i, 'n': int(v), 'm': 100 + i})
                    elif pol == 'ignore':
                        exp.append({'id': i, 'n': v, 'm': 100 + i})       # fields after the offending one are still cast
                    elif pol == 'clear':
                        exp.append({'id': i, 'n': None, 'm': 100 + i})
                ok = got[0] == 'ok' and got[1] == exp
            h.check(ok, P + 'load.py::load', (vals, pol), None, got[:2])
        finally:
            shutil.rmtree(d, ignore_errors=True)


def nat_datapackage_sources(h):
    """bounded: load of a data PACKAGE on disk.  (1) selection: whatever the selector (a later resource by name, by index, a list, a
    regex) and the cast strategy, what is loaded is exactly the selected part of what loading everything gives -- rows, types and
    descriptors; (2) history: the same Flow object run again after the package was re-published at the same place (one more column,
    one more resource) gives what a fresh flow gives then"""
    import os, tempfile, shutil, decimal
    from dataflows import Flow, load, dump_to_path, update_resource

    def publish(target, tables):
        steps = []
        for name, rows in tables:
            steps += [[dict(r) for r in rows], update_resource(-1, name=name, path=name + '.csv')]
        Flow(*steps, dump_to_path(target)).process()
    orders = [dict(id='%03d' % i, qty=i, note=None if i % 2 else 'n%d' % i) for i in range(1, 6)]
    people = [dict(id=i, name='p%d' % i, score=decimal.Decimal('1.5') * i) for i in range(4)]
    places = [dict(code='c%d' % i, lat=i * 1.25) for i in range(3)]
    d = tempfile.mkdtemp(prefix='c13p_')
    try:
        pkg = os.path.join(d, 'pkg')
        publish(pkg, [('people', people), ('orders', orders), ('places', places)])
        src = os.path.join(pkg, 'datapackage.json')
        for cast in (load.CAST_WITH_SCHEMA, load.CAST_TO_STRINGS, load.CAST_DO_NOTHING):
            everything = h.run(lambda: Flow(load(src, cast_strategy=cast)).results())
            if not h.check(everything[0] == 'ok', P + 'load.py::load.process_resources', ('all', cast), 'loads', everything[:2]):
                continue
            rows_all, dp_all, _ = everything[1]
            names = [r['name'] for r in dp_all.descriptor['resources']]
            for sel, idx in (('orders', [1]), (1, [1]), (-1, [2]), (['orders', 'places'], [1, 2]), ('p.+', [0, 2]), (['places'], [2]),
                             ('places', [2]), (0, [0])):
                got = h.run(lambda: Flow(load(src, resources=sel, cast_strategy=cast)).results())
                ok = got[0] == 'ok' and got[1][0] == [rows_all[i] for i in idx] and \
                    [(r['name'], r['schema']) for r in got[1][1].descriptor['resources']] == \
                    [(dp_all.descriptor['resources'][i]['name'], dp_all.descriptor['resources'][i]['schema']) for i in idx]
                h.check(ok, P + 'load.py::load.process_resources', ('selection', repr(sel), cast), [rows_all[i] for i in idx],
                        got[1][0] if got[0] == 'ok' else got[:2])
        # history: re-published between two runs of the same Flow object
        for cast in (load.CAST_WITH_SCHEMA, load.CAST_DO_NOTHING):
            pkg2 = os.path.join(d, 'pkg2_' + cast)
            publish(pkg2, [('people', people[:2])])
            f = Flow(load(os.path.join(pkg2, 'datapackage.json'), cast_strategy=cast))
            first = h.run(lambda: f.results())
            shutil.rmtree(pkg2)
            publish(pkg2, [('people', [dict(r, country='x%d' % i) for i, r in enumerate(people)]), ('places', places)])
            again = h.run(lambda: f.results())
            fresh = h.run(lambda: Flow(load(os.path.join(pkg2, 'datapackage.json'), cast_strategy=cast)).results())
            ok = first[0] == 'ok' and fresh[0] == 'ok' and again[0] == 'ok' and again[1][0] == fresh[1][0] and \
                again[1][1].descriptor == fresh[1][1].descriptor
            h.check(ok, P + 'load.py::load.safe_process_datapackage', ('re-published between two runs of one Flow object', cast),
                    fresh[1][0] if fresh[0] == 'ok' else fresh[:2], again[1][0] if again[0] == 'ok' else again[:2])
    finally:
        shutil.rmtree(d, ignore_errors=True)


def nat_limits_and_handlers(h):
    """bounded: a delimited file LONGER than the parser's inference sample (1000 lines) with cells beyond the sample that do not cast;
    every way of asking for casting (cast_strategy, its older spellings validate= / force_strings=) x error policy x limit_rows:
    the loaded rows are the ones an independent pass over the file with the csv module gives"""
    import csv, os, tempfile, shutil, warnings
    from dataflows import Flow, load
    N, bad = 1150, {1004: 'n/a', 1050: 'unknown'}
    d = tempfile.mkdtemp(prefix='c13c_')
    try:
        p = os.path.join(d, 'amounts.csv')
        with open(p, 'w', newline='', encoding='utf-8') as f:
            w = csv.writer(f)
            w.writerow(['id', 'amount', 'after'])
            for i in range(1, N + 1):
                w.writerow(['r%d' % i, bad.get(i, str(i * 3)), str(i)])

        def expected(cast, pol, limit, strings=False):
            out = []
            for i in range(1, N + 1):
                row = {'id': 'r%d' % i, 'amount': bad.get(i, str(i * 3)), 'after': str(i)}
                if cast:
                    row['after'] = i
                    if i in bad:
                        if pol == 'drop':
                            continue
                        row['amount'] = None if pol == 'clear' else row['amount']
                    else:
                        row['amount'] = i * 3
                out.append(row)
            return out if limit is None else out[:max(limit, 0)]
        ways = [('nothing', dict(cast_strategy=load.CAST_DO_NOTHING), False), ('schema', dict(cast_strategy=load.CAST_WITH_SCHEMA), True),
                ('validate=True', dict(validate=True), True), ('strings', dict(cast_strategy=load.CAST_TO_STRINGS), False),
                ('force_strings=True', dict(force_strings=True), False)]
        for limit in (None, 0, 5, 1100, 5000):
            for label, kw, cast in ways:
                for pol in (('ignore', 'clear', 'drop') if cast else ('ignore',)):
                    hd = {'ignore': load.ERRORS_IGNORE, 'clear': load.ERRORS_CLEAR, 'drop': load.ERRORS_DROP}[pol]
                    with warnings.catch_warnings():
                        warnings.simplefilter('ignore')
                        got = h.run(lambda: Flow(load(p, limit_rows=limit, on_error=hd, **kw)).results(on_error=None)[0][0])
                    want = expected(cast, pol, limit)
                    ok = got[0] == 'ok' and len(got[1]) == len(want) and all(
                        {k: (str(v) if not cast and v is not None else v) for k, v in g.items()} == w_ for g, w_ in zip(got[1], want))
                    first = next((i for i, (g, w_) in enumerate(zip(got[1], want)) if g != w_), None) if got[0] == 'ok' else None
                    h.check(ok, P + 'load.py::load', (label, pol, limit), (len(want), want[first] if first is not None else None),
                            (len(got[1]), got[1][first] if first is not None else None) if got[0] == 'ok' else got[:2])
    finally:
        shutil.rmtree(d, ignore_errors=True)


from contracts.common import lazy_sym, lazy_nat   # noqa: E402

ITEMS = [
    Item('load.limiter', sym_limiter, [('wrappers', nat_wrappers)], P + 'load.py::load.limiter'),
    Item('load.stringer', sym_stringer, [], P + 'load.py::load.stringer'),
    Item('load.stripper', sym_stripper, [], P + 'load.py::load.stripper'),
    Item('load.tuple-source', sym_tuple_source, [('sequential-source-selectors', NAT.nat_load_pair_selectors)], P + 'load.py::load.safe_process_datapackage'),
    Item('load.process_resources', K16.sym_appenders, [], P + 'load.py::load.process_resources'),
    Item('ResourceMatcher', K10.ITEMS[0].symbolic, [], 'dataflows/helpers/resource_matcher.py::ResourceMatcher.match'),
    Item('schema_validator', K14.sym_schema_validator, [], 'dataflows/base/schema_validator.py::schema_validator'),
    Item('headers', sym_rename_duplicate_headers, [('de-duplication', nat_headers), ('collision', nat_headers_finding)], P + 'load.py::load.rename_duplicate_headers'),
    Item('csv', None, [('fidelity', nat_csv), ('cast-on-error', nat_cast_on_error), ('limits-and-handlers', nat_limits_and_handlers), ('datapackage-sources', nat_datapackage_sources),
                       ('empty-cells-through-results', nat_empty_cells_through_results)], P + 'load.py::load'),
    Item('recorded-findings', None, [('bounded', KF.nat_findings_c13)], 'dataflows/processors/load.py::load.safe_process_datapackage'),
    # results() is where the loaded rows are observed: it casts every row of every resource with the final schema
    Item('driver.safe_process', lazy_sym('base', 'sym_safe_process'), [], 'dataflows/base/datastream_processor.py::DataStreamProcessor.safe_process'),
]
