"""C08  An interrupted checkpoint is never used.

Effect trace of stream(file) + func:  makedirs . open(f+'.active','w') . (write . flush)* . close . rename(f+'.active', f)
  * the only event that creates the final name f is the rename, and it is the last event of the normal-completion path;
  * on every path that does not complete (consumer abandons at any yield = a later step failed or the process was killed
    between two Python-level events; upstream raises at any pull) there is no close and no rename;
  * checkpoint decides on os.path.exists(f) alone, resumes with exactly unstream(f), and never looks at the .active name.
With POSIX rename atomicity (T11) a checkpoint that is picked up is complete; completeness of the content at rename time
is the drain obligation of C05 (every row pulled through res_writer is written and flushed before it is yielded).
"""
from contracts import findings_natives as KF
from contracts.common import Item
from contracts import streams as S
from contracts import C07 as K07

TRUSTED = ['T1 pyvc model of Python (DESIGN 3)', 'T11 POSIX: rename is atomic; open(name, "w") creates only that name; '
           'os.path.exists reads the directory', 'T8 json.dumps text has no raw newline (ensure_ascii, no indent)', 'T16 z3 / cvc5']
ASSUMPTIONS = ['a kill between two Python-level effects is modelled as abandonment at the preceding yield or as a path prefix; '
               'a kill inside one library call (write, rename) relies on T11',
               'consumers drain resource streams in order (rely P-seq, discharged for the driver under C05)']


def nat_crashpoints(h):
    """bounded: real checkpoint runs with a fault injected at every yield position; afterwards no usable checkpoint"""
    import os, tempfile, shutil
    from dataflows import Flow, checkpoint
    for _ in range(h.n(24, 160)):
        nres = h.rng.randint(1, 3)
        data = [[{'a': i, 'b': 'x%d' % i} for i in range(h.rng.randint(0, 4))] for _ in range(nres)]
        total = sum(len(d) for d in data)
        fail_at = h.rng.randint(0, total)     # fail_at == total: failure at exhaustion of the last resource
        d = tempfile.mkdtemp(prefix='c08_')
        try:
            seen = [0]

            def bomb(rows):
                for r in rows:
                    if seen[0] == fail_at:
                        raise RuntimeError('boom')
                    seen[0] += 1
                    yield r
                if seen[0] == fail_at and total == fail_at:
                    seen[0] += 1
                    raise RuntimeError('boom at end')
            upstream = h.rng.random() < 0.5
            if upstream:
                # the failing step feeds the checkpoint (fails while the checkpoint is being written, possibly exactly
                # at a resource boundary)
                r1 = h.run(lambda: Flow(*data, bomb, checkpoint('cp', checkpoint_path=d)).process())
            else:
                r1 = h.run(lambda: Flow(*data, checkpoint('cp', checkpoint_path=d), bomb).process())
            final = os.path.join(d, 'cp', 'stream.ndjson')
            h.check(r1[0] == 'exc' and not os.path.exists(final), 'dataflows/processors/stream.py::stream.func',
                    (data, fail_at), 'run fails and no final checkpoint file', (r1[:2], os.path.exists(final)))
            r2 = h.run(lambda: Flow(*data, checkpoint('cp', checkpoint_path=d)).results()[0])
            h.check(r2[0] == 'ok' and r2[1] == data, 'dataflows/processors/checkpoint.py::checkpoint', (data, fail_at), data, r2[:2])
            h.check(os.path.exists(final), 'dataflows/processors/stream.py::stream.func', (data, 'complete'), 'final exists', None)
        finally:
            shutil.rmtree(d, ignore_errors=True)
        # the ordinary retry loop: the SAME flow object is run again after the failure (the fault is transient), then a later
        # run picks the checkpoint up
        d = tempfile.mkdtemp(prefix='c08r_')
        try:
            armed = [True]
            seen2 = [0]

            def bomb_once(rows):
                for r in rows:
                    if armed[0] and seen2[0] == fail_at:
                        armed[0] = False
                        raise RuntimeError('transient boom')
                    seen2[0] += 1
                    yield r
            same = Flow(*data, bomb_once, checkpoint('cp', checkpoint_path=d)) if upstream else \
                Flow(*data, checkpoint('cp', checkpoint_path=d), bomb_once)
            a1 = h.run(lambda: same.results()[0])
            a2 = h.run(lambda: same.results()[0]) if a1[0] == 'exc' else a1
            a3 = h.run(lambda: Flow(*data, checkpoint('cp', checkpoint_path=d)).results()[0])
            if fail_at < total:
                h.check(a1[0] == 'exc', 'dataflows/processors/stream.py::stream.func', (data, fail_at, 'retry'), 'first attempt fails', a1[:2])
            h.check(a2[0] == 'ok' and a2[1] == data and a3[0] == 'ok' and a3[1] == data, 'dataflows/processors/checkpoint.py::checkpoint',
                    (data, fail_at, 'same flow object retried, then a later run'), data, (a2[:2], a3[:2]))
        finally:
            shutil.rmtree(d, ignore_errors=True)


def nat_io_faults(h):
    """bounded: an OSError injected at the k-th write / flush / close of the .active file (disk full): the run fails, no final
    checkpoint exists, and the next (fault-free) run recomputes from the sources"""
    import os, tempfile, shutil, builtins
    from dataflows import Flow, checkpoint
    real_open = builtins.open

    class Faulty:
        def __init__(self, f, plan):
            self.f, self.plan, self.n = f, plan, {'write': 0, 'flush': 0, 'close': 0}

        def _op(self, name, *a):
            self.n[name] += 1
            if self.plan == (name, self.n[name]):
                raise OSError(28, 'No space left on device')
            return getattr(self.f, name)(*a)

        def write(self, s):
            return self._op('write', s)

        def flush(self):
            return self._op('flush')

        def close(self):
            return self._op('close')

        def __getattr__(self, name):
            return getattr(self.f, name)
    for _ in range(h.n(30, 200)):
        nres = h.rng.randint(1, 3)
        data = [[{'a': i, 'b': 'x%d' % i} for i in range(h.rng.randint(0, 4))] for _ in range(nres)]
        plan = (h.rng.choice(['write', 'write', 'flush', 'close']), h.rng.randint(1, 6))
        d = tempfile.mkdtemp(prefix='c08f_')
        hit = [False]
        pulled = [0]

        def counting(rows):
            for r in rows:
                pulled[0] += 1
                yield r

        def fake_open(name, *a, **k):
            f = real_open(name, *a, **k)
            if isinstance(name, str) and name.endswith('.active'):
                hit[0] = True
                return Faulty(f, plan)
            return f
        try:
            builtins.open = fake_open
            try:
                r1 = h.run(lambda: Flow(*data, checkpoint('cp', checkpoint_path=d)).process())
            finally:
                builtins.open = real_open
            final = os.path.join(d, 'cp', 'stream.ndjson')
            if r1[0] == 'exc':
                h.check(not os.path.exists(final), 'dataflows/processors/stream.py::stream.write', (data, plan),
                        'failed run leaves no final checkpoint', os.listdir(os.path.join(d, 'cp')))
            pulled[0] = 0
            r2 = h.run(lambda: Flow(*[counting(x) for x in data], checkpoint('cp', checkpoint_path=d)).results()[0])
            recomputed = pulled[0] == sum(len(x) for x in data)
            h.check(r2[0] == 'ok' and r2[1] == data and (recomputed or r1[0] == 'ok'), 'dataflows/processors/stream.py::stream.write',
                    (data, plan), ('same rows; recomputed from the sources unless the first run succeeded', data),
                    (r1[:2], r2[:2], 'rows pulled from the sources: %d' % pulled[0]))
        finally:
            builtins.open = real_open
            shutil.rmtree(d, ignore_errors=True)


from contracts.common import lazy_sym, lazy_nat   # noqa: E402

ITEMS = [
    Item('stream.setup', S.sym_stream_setup, [], 'dataflows/processors/stream.py::stream'),
    Item('stream.res_writer', S.sym_res_writer, [], 'dataflows/processors/stream.py::stream.res_writer'),
    Item('stream.func', S.sym_stream_func, [('crashpoints', nat_crashpoints), ('io-faults', nat_io_faults)], 'dataflows/processors/stream.py::stream.func'),
    Item('stream.faulty-io', S.sym_stream_faulty, [], 'dataflows/processors/stream.py::stream.write'),
    Item('checkpoint', S.sym_checkpoint, [], 'dataflows/processors/checkpoint.py::checkpoint._preprocess_chain'),
    Item('unstream', S.sym_unstream, [], 'dataflows/processors/unstream.py::unstream'),
    # a checkpoint that is picked up is read completely and in order: the reader's own contract (shared with C07)
    Item('unstream.res_reader', K07.sym_res_reader, [], 'dataflows/processors/unstream.py::unstream.res_reader'),
    Item('recorded-findings', None, [('bounded', KF.nat_findings_c08)], 'dataflows/processors/stream.py::stream.func'),
    # a step that removes a resource behind an observer reads its rows to the end: the observer upstream (a checkpoint being written, a
    # dump) only completes that resource -- and a sequential reader only reaches the next one -- when its consumer exhausts it
    Item('delete_resource.drains', lazy_sym('C10', 'sym_delete_resource'), [], 'dataflows/processors/delete_resource.py::delete_resource.func'),
    # the driver: a failure while draining (CastError included) ends the run at once -- no later resource is asked for, so a
    # checkpoint being written is never closed and renamed after a failure
    Item('driver.safe_process', lazy_sym('base', 'sym_safe_process'), [], 'dataflows/base/datastream_processor.py::DataStreamProcessor.safe_process'),
]
