"""C03  A dumped data package loads back to the same typed data.

In-repo obligations (csv / json / tabulator / tableschema are dependencies: T5, T8, T9, T15):
  FileFormat.__init__        : header list = schema field names in schema order; each field gets SERIALIZERS[type] or the
                               default serializer (a temporal_format_property format overrides it for temporal fields)
  FileFormat.write_row       : every cell: null -> NULL_VALUE ; a preserved missing value -> itself ; else serializer(value);
                               keys unchanged; then handed to the format's writer once
  CSVFormat / JSONFormat tables : per type the serializer's output is in the lexical space that prepare_resource stamps into
                               the descriptor (temporal strftime format  <->  stamped parse format; boolean str() <->
                               trueValues/falseValues; number str() <-> decimalChar '.', groupChar ''; arrays/objects JSON)
  prepare_resource           : stamps encoding, the format's path suffix, format, and (CSV) exactly the dialect of csv.DictWriter
                               defaults; then the per-type properties of every field
  CSVFormat.__init__         : DictWriter over the schema-ordered headers, header row written first
  JSONFormat                 : file = '[' row (',' row)* ']'
  FileDumper.rows_processor / write_file_to_output : the file lands under the recorded path (C09 / C19 contracts)
"""
from contracts.common import Item, mk_resource, expect_no_raise_or_same, _b
from contracts import dumpers as DM
from contracts import C16 as K16
from contracts.streams import calls, effect_names

F = 'dataflows/processors/dumpers/formats/'
TRUSTED = ['T1 pyvc model of Python (DESIGN 3)', 'T5 tableschema cast per type/format', 'T9 csv reader . writer = id for the '
           'default dialect (no bare CR)', 'T8 json round trip', 'T10 strftime / strptime inverse at second precision',
           'T15 tabulator reads a file with the recorded dialect', 'T16 z3 / cvc5']
ASSUMPTIONS = ['string cells with leading / trailing whitespace are outside the round-trip claim (load strips by default)',
               "an empty string in a string field is written as the CSV null marker: recorded finding F-C03-empty-string",
               'JSON dumps whose schema field order is not alphabetical cannot be read back by datapackage-py (tabulator sorts the '
               'keys of JSON rows): recorded finding F-C03-json-field-order']

FORMATS = dict(DATE_F_FORMAT='%04Y-%m-%d', DATETIME_F_FORMAT='%04Y-%m-%dT%H:%M:%S', TIME_F_FORMAT='%H:%M:%S',
               DATE_P_FORMAT='%Y-%m-%d', DATETIME_P_FORMAT='%Y-%m-%dT%H:%M:%S', TIME_P_FORMAT='%H:%M:%S')


def load_formats(it):
    ej = it.module('dataflows.helpers.extended_json')
    mc = it.module('dataflows.processors.dumpers.formats.format_csv')
    mj = it.module('dataflows.processors.dumpers.formats.format_json')
    # the six format constants are the ones extended_json's own top-level code computes (its platform probe is answered as
    # on glibc by the datetime stub) and the format modules import; FORMATS are the pairs for which T10 (strptime inverts
    # strftime) is assumed -- the obligations compare the module's constants against them
    for m in (ej, mc, mj):
        for cname in FORMATS:
            if cname in m.attrs and not isinstance(m.attrs.get(cname), str):
                from pyvc.api import Unsupported
                raise Unsupported('CONTRACT-MAPPING %s.%s is not a string constant: %r' % (m.name, cname, m.attrs.get(cname)))
    return mc, mj, it.module('dataflows.processors.dumpers.formats.base')


def mk_schema(it, types):
    """tableschema Schema object with fields of the given types (names symbolic, distinct)"""
    from pyvc.api import Opaque, PyList, PyDict, sym_str
    import z3
    schema = Opaque('Schema', 'schema')
    fields = []
    for j, t in enumerate(types):
        f = Opaque('Field', 'field%d' % j)
        f.attrs['name'] = sym_str(it, 'fname%d' % j)
        f.attrs['type'] = t
        f.attrs['descriptor'] = PyDict({'name': f.attrs['name'], 'type': t})
        fields.append(f)
    for a in range(len(fields)):
        for b in range(a + 1, len(fields)):
            it.assume(fields[a].attrs['name'].t != fields[b].attrs['name'].t)
    schema.attrs['fields'] = PyList(fields)
    schema.attrs['descriptor'] = PyDict({'missingValues': PyList([''])})
    return schema, fields


def sym_file_format(vc):
    import z3
    from pyvc.api import real_function, check, cover, Opaque, PyDict, PyList, sym_cell, Cell, ufunc, UFunc, Row, term, StrS
    from pyvc.values import Instance
    fk = vc.under_contract(F + 'base.py', ['FileFormat', '__init__'])
    vc.under_contract(F + 'base.py', ['FileFormat', 'write_row'])
    vc.under_contract(F + 'base.py', ['FileFormat', '__transform_row'])
    vc.under_contract(F + 'base.py', ['FileFormat', '__transform_value'])
    vc.bounded_label = None
    for fmt in ('csv', 'json'):
        def thunk(it, fmt=fmt):
            mc, mj, mb = load_formats(it)
            cls = mc.attrs['CSVFormat'] if fmt == 'csv' else mj.attrs['JSONFormat']
            types = ['string', 'integer', 'date', 'array']
            schema, fields = mk_schema(it, types)
            file = Opaque('file', 'outfile')
            w = it.call(cls, [file, schema], {})
            names = [f.attrs['name'] for f in fields]
            check(it, 'headers-in-schema-order[%s]' % fmt, w.attrs['headers'].items == names)
            SER = cls.attrs['SERIALIZERS']
            dflt = it.lib.builtin(it, 'str') if fmt == 'csv' else mb.attrs['identity']
            for f, t in zip(fields, types):
                s = f.attrs['descriptor'].d.get('serializer')
                want = SER.d.get(t, dflt)
                check(it, 'serializer-by-type[%s,%s]' % (fmt, t), s is want)
            # with a temporal_format_property: ONLY temporal fields carrying that property get a custom strftime serializer;
            # every other field -- temporal or not, whatever precedes it in the schema -- keeps the serializer of its type
            types2 = ['time', 'datetime', 'string', 'date', 'date', 'integer', 'date', 'time']   # (a custom format must not leak to LATER fields of its type)
            schema2, fields2 = mk_schema(it, types2)
            fields2[0].attrs['descriptor'].d['outputFormat'] = '%H.%M'
            fields2[4].attrs['descriptor'].d['outputFormat'] = '%d/%m/%y'
            it.call(cls, [Opaque('file', 'outfile2'), schema2], {'temporal_format_property': 'outputFormat'})
            for j, (f, t) in enumerate(zip(fields2, types2)):
                s = f.attrs['descriptor'].d.get('serializer')
                if j in (0, 4):
                    from contracts.C07 import mk_temporal
                    tv = mk_temporal(it, t, aware=False)
                    SF = z3.Function('strftime', StrS, z3.IntSort(), StrS, StrS)
                    out = it.call(s, [tv]) if s is not None else None
                    check(it, 'custom-temporal-format-applied-to-the-field-that-carries-it[%s,%d:%s]' % (fmt, j, t),
                          out is not None and term(out, StrS) == SF(z3.StringVal(t), tv.term, z3.StringVal(f.attrs['descriptor'].d['outputFormat'])))
                else:
                    check(it, 'serializer-by-type-with-a-temporal-format-property[%s,%d:%s]' % (fmt, j, t), s is SER.d.get(t, dflt))
            # one row through write_row: null / preserved missing value / serialised
            serd = {}
            for f in fields:
                u = ufunc('ser_' + f.attrs['type'])
                f.attrs['descriptor'].d['serializer'] = u
                serd[f] = u
            got = {}
            w.attrs['write_transformed_row'] = UFunc('write_transformed_row', lambda it_, a, k: got.__setitem__('row', a[0]), False)
            v = sym_cell(it, 'v0')
            row = PyDict({names[0]: v, names[1]: None})
            it.call(it.lib.getattr_(it, w, 'write_row'), [row])
            out = got.get('row')
            NULL = '' if fmt == 'csv' else None
            ok = out is not None and list(out.d) == [names[0], names[1]]
            check(it, 'row-keys-kept-and-written-once[%s]' % fmt, ok)
            if ok:
                check(it, 'null-cell-becomes-the-null-marker[%s]' % fmt, out.d[names[1]] == NULL if NULL is not None else out.d[names[1]] is None)
                o0 = out.d[names[0]]
                isnone = Cell.is_none(v.t)
                ismissing = v.t == Cell.str(z3.StringVal(''))
                if o0 == NULL and (NULL is None or isinstance(o0, str)):
                    check(it, 'marker-only-for-null[%s]' % fmt, isnone)
                else:
                    ser = it.call(serd[fields[0]], [v])
                    check(it, 'non-null-cell-serialised-or-preserved-missing-value[%s]' % fmt,
                          z3.And(z3.Not(isnone), z3.Or(z3.And(ismissing, it.cell_of(o0) == v.t),
                                                       z3.And(z3.Not(ismissing), it.cell_of(o0) == it.cell_of(ser)))))
            cover(it, 'reachable[%s]' % fmt)
        paths = vc.explore(fk, thunk, min_paths=2)
        expect_no_raise_or_same(vc, fk, paths)


def sym_type_tables(vc):
    """serializer output vs the properties stamped next to it"""
    import z3
    from pyvc.api import real_function, check, cover, Opaque, PyDict, SV, sym_int, sym_bool, term, StrS, IntS
    from contracts.C07 import mk_temporal
    fk = vc.under_contract(F + 'format_csv.py', ['CSVFormat'])
    vc.under_contract(F + 'format_json.py', ['JSONFormat'])

    def entry(it, table, d, key):
        """the tables are keyed by Table Schema type names (public vocabulary): a missing entry is a failed obligation, not a
        contract-mapping error"""
        present = key in d.d
        check(it, '%s-has-an-entry-for-%s' % (table, key), present)
        return d.d[key] if present else None

    def thunk(it):
        mc, mj, mb = load_formats(it)
        SF = z3.Function('strftime', StrS, IntS, StrS, StrS)
        for name, cls in (('csv', mc.attrs['CSVFormat']), ('json', mj.attrs['JSONFormat'])):
            SER, DIA = cls.attrs['SERIALIZERS'], cls.attrs['PYTHON_DIALECT']
            for kind, ff, pf in (('date', 'DATE_F_FORMAT', 'DATE_P_FORMAT'), ('time', 'TIME_F_FORMAT', 'TIME_P_FORMAT'),
                                 ('datetime', 'DATETIME_F_FORMAT', 'DATETIME_P_FORMAT')):
                v = mk_temporal(it, kind, aware=False)
                ser = entry(it, name + '-serializers', SER, kind)
                dia = entry(it, name + '-dialect', DIA, kind)
                if ser is None or dia is None:
                    continue
                out = it.call(ser, [v])
                check(it, '%s-%s-written-with-the-strftime-twin-of-the-stamped-format' % (name, kind),
                      z3.And(term(out, StrS) == SF(z3.StringVal(kind), v.term, z3.StringVal(FORMATS[ff])),
                             z3.BoolVal(dia.d.get('format') == FORMATS[pf])))
                ej = it.module('dataflows.helpers.extended_json')
                check(it, '%s-%s-module-formats-are-the-twins-T10-covers' % (name, kind),
                      ej.attrs.get(ff) == FORMATS[ff] and ej.attrs.get(pf) == FORMATS[pf]
                      and str(ej.attrs.get(ff)).replace('%04Y', '%Y') == ej.attrs.get(pf))
        # JSON: a number (Decimal after casting) is not JSON serialisable as it is: the table must map it to float, and a
        # duration to its ISO text
        js = mj.attrs['JSONFormat'].attrs['SERIALIZERS']
        numser = entry(it, 'json-serializers', js, 'number')
        if numser is not None:
            check(it, 'json-number-written-as-float', getattr(numser, 'name', None) == 'float')
        entry(it, 'json-serializers', js, 'duration')
        # CSV: booleans go through str(): 'True' / 'False' must be exactly the stamped true/false values
        b = cls = mc.attrs['CSVFormat']
        d = b.attrs['PYTHON_DIALECT'].d
        check(it, 'csv-boolean-text-is-stamped', 'boolean' in d and d['boolean'].d.get('trueValues') is not None and
              d['boolean'].d.get('falseValues') is not None and d['boolean'].d['trueValues'].items == [str(True)] and
              d['boolean'].d['falseValues'].items == [str(False)] and 'boolean' not in b.attrs['SERIALIZERS'].d)
        check(it, 'csv-number-stamped-as-plain-decimal', 'number' in d and d['number'].d == {'decimalChar': '.', 'groupChar': ''} and
              'number' not in b.attrs['SERIALIZERS'].d)
        # text is written as it is: no serializer of its own in either format (str / identity is the default), so that what is read back
        # is the text that was dumped -- whatever it starts with ('=', '+', '-', '@', a quote, a blank)
        check(it, 'text-has-no-serializer-of-its-own', 'string' not in b.attrs['SERIALIZERS'].d and 'string' not in js.d and
              'any' not in b.attrs['SERIALIZERS'].d and 'integer' not in b.attrs['SERIALIZERS'].d)
        check(it, 'csv-null-marker-is-the-empty-string', b.attrs['NULL_VALUE'] == '' and mj.attrs['JSONFormat'].attrs['NULL_VALUE'] is None)
        jd = mb.attrs['json_dumps']
        check(it, 'csv-arrays-and-objects-as-json-text', b.attrs['SERIALIZERS'].d.get('array') is jd and
              b.attrs['SERIALIZERS'].d.get('object') is jd)
        n = sym_int(it, 'year')
        ys = entry(it, 'csv-serializers', b.attrs['SERIALIZERS'], 'year')
        if ys is not None:
            y = it.call(ys, [n])
            f4 = z3.Function('py_format[04d]', __import__('pyvc.api').api.Cell, StrS)
            check(it, 'csv-year-zero-padded', term(y, StrS) == f4(__import__('pyvc.api').api.Cell.int(n.t)))
    vc.explore(fk, thunk)


def sym_prepare_resource(vc):
    import z3
    from pyvc.api import real_function, check, cover, Opaque, PyDict, PyList, sym_str, Tree, term, StrS, UFunc, wrap
    fk = vc.under_contract(F + 'format_csv.py', ['CSVFormat', 'prepare_resource'])
    vc.under_contract(F + 'format_json.py', ['JSONFormat', 'prepare_resource'])
    vc.under_contract(F + 'base.py', ['FileFormat', 'prepare_resource'])
    for fmt, mv in (('csv', None), ('json', None), ('csv', ['NA']), ('csv', ['', 'NA']), ('json', ['NA']), ('csv', []),
                    ('csv+came-with-a-dialect', None)):
        def thunk(it, fmt=fmt, mv=mv):
            came_with = fmt.endswith('+came-with-a-dialect')
            fmt = fmt.split('+')[0]
            mc, mj, mb = load_formats(it)
            mod = mc if fmt == 'csv' else mj
            cls = mod.attrs['CSVFormat'] if fmt == 'csv' else mod.attrs['JSONFormat']
            WS = z3.Function('path_with_suffix', StrS, StrS, StrS)

            class P:
                pass

            def Path(it_, a, k):
                p = Opaque('Path', 'path')
                p.attrs['call:with_suffix'] = lambda it2, o, a2, k2: (lambda q: (q.attrs.__setitem__('__str__', wrap(WS(term(a[0], StrS), z3.StringVal(a2[0])))), q)[1])(Opaque('Path', 'path2'))
                return p
            mod.attrs['Path'] = UFunc('Path', Path, True)
            path0 = sym_str(it, 'path')
            fdate = PyDict({'name': 'd', 'type': 'date'})
            fstr = PyDict({'name': 's', 'type': 'string'})
            fbool = PyDict({'name': 'b', 'type': 'boolean'})
            desc = PyDict({'name': 'r', 'path': path0, 'schema': PyDict({'fields': PyList([fdate, fstr, fbool])})})
            if mv is not None:
                desc.d['schema'].d['missingValues'] = PyList(list(mv))
            if came_with:
                # a resource loaded from somebody else's package: it describes the file it CAME from (no header row, an escape
                # character, ';' as delimiter); the file written now is described by the writer's dialect and by nothing else
                desc.d['dialect'] = PyDict({'header': False, 'escapeChar': '\\', 'delimiter': ';', 'commentChar': '#'})
            res = Opaque('Resource', 'resource')
            res.attrs['descriptor'] = desc
            pr = it.lib.getattr_(it, cls, 'prepare_resource')
            it.call(pr, [cls, res] if getattr(pr, 'is_classmethod', False) else [res])
            d = desc.d
            check(it, 'encoding-and-format-stamped[%s]' % fmt, d.get('encoding') == 'utf-8' and d.get('format') == fmt)
            check(it, 'path-gets-the-format-suffix[%s]' % fmt, term(d['path'], StrS) == WS(path0.t, z3.StringVal('.' + fmt)))
            if fmt == 'csv':
                dia = d.get('dialect')
                # exactly the defaults of csv.DictWriter / the excel dialect the file is written with
                check(it, 'dialect-is-the-writer-default', isinstance(dia, PyDict) and dia.d == dict(
                    lineTerminator='\r\n', delimiter=',', doubleQuote=True, quoteChar='"', skipInitialSpace=False))
                check(it, 'boolean-field-stamped', fbool.d.get('trueValues') is not None and fbool.d['trueValues'].items == ['True'])
            check(it, 'temporal-field-gets-its-parse-format[%s]' % fmt, fdate.d.get('format') == FORMATS['DATE_P_FORMAT'])
            check(it, 'other-fields-untouched[%s]' % fmt, fstr.d == {'name': 's', 'type': 'string'})
            # the written descriptor must let a reader recognise the null marker the format writes: a CSV null is the empty cell, so
            # '' is among the recorded missing values (absent = the Table Schema default ['']); the values given are all kept
            got_mv = d['schema'].d.get('missingValues')
            got_list = list(got_mv.items) if got_mv is not None else None
            if fmt == 'csv':
                check(it, 'csv-null-marker-is-a-recorded-missing-value[%s]' % (mv,), got_list is None or '' in got_list)
            check(it, 'given-missing-values-kept[%s,%s]' % (fmt, mv), (got_list is None) == (mv is None) and
                  (mv is None or [x for x in got_list if x in mv] == list(mv)) and (fmt == 'csv' or got_list == mv))
        vc.explore(fk, thunk)


def sym_json_framing(vc):
    """JSONFormat: '[' at creation, ',' before every row but the first, ']' at finalisation"""
    import z3
    from pyvc.api import real_function, check, cover, Opaque, PyDict, UFunc
    fk = vc.under_contract(F + 'format_json.py', ['JSONFormat', 'write_transformed_row'])
    vc.under_contract(F + 'format_json.py', ['JSONFormat', 'initialize_file'])
    vc.under_contract(F + 'format_json.py', ['JSONFormat', 'finalize_file'])

    def thunk(it):
        mc, mj, mb = load_formats(it)
        cls = mj.attrs['JSONFormat']
        schema, fields = mk_schema(it, ['string'])
        file = Opaque('file', 'outfile')
        w = it.call(cls, [file, schema], {})
        r1, r2, r3 = PyDict({'a': 1}), PyDict({'a': 2}), PyDict({'a': 3})
        for r in (r1, r2, r3):
            it.call(it.lib.getattr_(it, w, 'write_transformed_row'), [r])
        it.call(it.lib.getattr_(it, w, 'finalize_file'), [])
        ws = [e for e in it.path.events if e.kind == 'Call' and e.method == 'write']
        texts = [e.args[0] for e in ws]
        shape = [t if isinstance(t, str) else 'ROW' for t in texts]
        check(it, 'json-array-framing', shape == ['[', 'ROW', ',', 'ROW', ',', 'ROW', ']'])
    vc.explore(fk, thunk)

    def thunk0(it):
        mc, mj, mb = load_formats(it)
        cls = mj.attrs['JSONFormat']
        schema, fields = mk_schema(it, ['string'])
        file = Opaque('file', 'outfile')
        w = it.call(cls, [file, schema], {})
        it.call(it.lib.getattr_(it, w, 'finalize_file'), [])
        ws = [e.args[0] for e in it.path.events if e.kind == 'Call' and e.method == 'write']
        check(it, 'empty-resource-is-an-empty-array', ws == ['[', ']'])
    vc.explore(fk, thunk0)


def sym_csv_writer(vc):
    """CSVFormat: a csv.DictWriter over the schema-ordered headers, header row first, every row handed over as a keyed dict
    (so the column of a cell is decided by its field name, not by the row's key order)"""
    from pyvc.api import real_function, check, cover, Opaque, PyDict, UFunc, PyList
    fk = vc.under_contract(F + 'format_csv.py', ['CSVFormat', '__init__'])
    vc.under_contract(F + 'format_csv.py', ['CSVFormat', 'write_transformed_row'])
    for titles in (False, True):
        def thunk(it, titles=titles):
            mc, mj, mb = load_formats(it)
            cls = mc.attrs['CSVFormat']
            schema, fields = mk_schema(it, ['string', 'integer'])
            file = Opaque('file', 'outfile')
            made = {}
            csvm = it.module('csv')

            def DictWriter(it_, a, k):
                w = Opaque('DictWriter', 'csv_writer')
                made['args'], made['kw'], made['w'] = a, k, w
                return w
            if not titles:
                csvm.attrs['DictWriter'] = UFunc('csv.DictWriter', DictWriter, False)
            w = it.call(cls, [file, schema], dict(use_titles=titles))
            names = [f.attrs['name'] for f in fields]
            if not titles:
                check(it, 'dict-writer-over-the-file-with-schema-ordered-headers', made.get('args') is not None and
                      made['args'][0] is file and isinstance(made['args'][1], PyList) and made['args'][1].items == names)
                hdr = [e for e in it.path.events if e.kind == 'Call' and e.method == 'writeheader']
                check(it, 'header-row-written-once-at-creation', len(hdr) == 1 and hdr[0].target is made['w'])
                row = PyDict({names[1]: 'x', names[0]: 'y'})       # keys in another order than the schema
                n0 = len(it.path.events)
                it.call(it.lib.getattr_(it, w, 'write_transformed_row'), [row])
                wr = [e for e in it.path.events[n0:] if e.kind == 'Call' and e.method == 'writerow']
                check(it, 'row-handed-to-the-dict-writer-keyed', len(wr) == 1 and wr[0].objs[0] is row)
            cover(it, 'reachable[titles=%s]' % titles)
        vc.explore(fk, thunk)


def nat_roundtrip(h):
    import datetime, decimal, os, tempfile, shutil
    from dataflows import Flow, dump_to_path, dump_to_zip, load, set_type, set_primary_key
    def other_dumps():
        # leftover state: OTHER dumps run earlier in the same process, with the options a plain dump does not use (titles as
        # headers, a temporal format property, per-resource formatters) -- a later plain dump must not inherit any of it
        from dataflows import update_schema
        d0 = tempfile.mkdtemp(prefix='c03h_')
        try:
            rows = [{'when': datetime.date(2020, 1, 2), 'amount': 1, 'label': 'x'}]

            def titled(package):
                for f in package.pkg.descriptor['resources'][0]['schema']['fields']:
                    f['title'] = f['name'].upper() + ' (titled)'
                yield package.pkg
                yield from package
            h.run(lambda: Flow(rows, titled, dump_to_path(os.path.join(d0, 't'), use_titles=True)).process())
            h.run(lambda: Flow(rows, dump_to_path(os.path.join(d0, 'f'), temporal_format_property='outputFormat', format='json')).process())
            h.run(lambda: Flow(rows, dump_to_zip(os.path.join(d0, 'z.zip'), use_titles=True, add_filehash_to_path=True)).process())
        finally:
            shutil.rmtree(d0, ignore_errors=True)
    other_dumps()
    for _ in range(h.n(25, 250)):
        if h.rng.random() < 0.15:
            other_dumps()
        fmt = h.rng.choice(['csv', 'json'])
        zipped = h.rng.random() < 0.4
        hashpath = h.rng.random() < 0.3
        cols = ['a_int', 'b_num', 'c_str', 'd_bool', 'e_date', 'f_time', 'g_dt', 'h_arr', 'i_obj', 'j_year']
        if fmt == 'csv':
            h.rng.shuffle(cols)      # JSON needs alphabetical order (recorded finding)
        nres = h.rng.randint(1, 2)
        data = []
        for k in range(nres):
            rows = []
            for i in range(h.rng.randint(1, 4)):
                r = {'a_int': h.rng.choice([0, -5, 10 ** 12, None]),
                     'b_num': h.rng.choice([decimal.Decimal('1.10'), decimal.Decimal('-0.000001'), decimal.Decimal('12345678901234.5'), None])
                     if fmt == 'csv' else h.rng.choice([decimal.Decimal('1.5'), decimal.Decimal('-2.25'), None]),
                     'c_str': h.rng.choice(['x', 'a,b', 'q"uo"te', 'two\nlines', '😀é', "it's", 'None', ' padded ', '\ttab', 'trailing newline\n', ' ',
                                            '=SUM(A1)', '+44 20 7946', '-12 degrees', '@handle', "'quoted", '-', '+']),
                     'd_bool': h.rng.choice([True, False, None]),
                     'e_date': h.rng.choice([datetime.date(2020, 2, 29), datetime.date(1999, 12, 31), datetime.date(476, 9, 4),
                                             datetime.date(999, 12, 31), None]),
                     'f_time': datetime.time(h.rng.randint(0, 23), 59, 1),
                     'g_dt': datetime.datetime(h.rng.choice([2001, 814]), 2, 3, 4, 5, i),      # primary key of the first resource: unique per row
                     'h_arr': h.rng.choice([[1, 'a', None], [], [[1], {'k': 2}]]),
                     'i_obj': h.rng.choice([{'k': 1}, {}, {'n': {'m': [1]}}]),
                     'j_year': h.rng.choice([2020, 5])}
                rows.append({c: r[c] for c in cols})
            data.append(rows)
        d = tempfile.mkdtemp(prefix='c03_')
        try:
            typing = [set_type('b_num', type='number', resources=None), set_type('j_year', type='year', resources=None),
                      set_type('f_time', type='time', resources=None), set_type('d_bool', type='boolean', resources=None),
                      set_type('a_int', type='integer', resources=None), set_type('e_date', type='date', resources=None),
                      # (fields may carry titles: a plain dump writes the NAMES as header whatever earlier dumps were asked to do)
                      set_type('c_str', type='string', title='Text, "titled"', resources=None),
                      set_type('a_int', type='integer', title='A number', resources=None),
                      set_primary_key(['g_dt'], resources=0)]
            if nres == 2 and h.rng.random() < 0.6:
                # paths with a dotted stem that differ in that part only: every resource keeps a data file of its own
                from dataflows import update_resource
                typing += [update_resource('res_1', path='data/prices.2019.csv'), update_resource('res_2', path='data/prices.2020.csv')]
            opts = dict(format=fmt, add_filehash_to_path=hashpath)
            dumper = dump_to_zip(os.path.join(d, 'o.zip'), **opts) if zipped else dump_to_path(os.path.join(d, 'o'), **opts)
            def rekey(rows):
                # a user step that rebuilds every row with its keys in another order than the schema
                for r in rows:
                    ks = list(r)
                    ks.reverse()
                    yield {k: r[k] for k in ks}

            def scribble(row):
                # a later step that edits rows in place: must not leak into what was dumped
                row['c_str'] = 'EDITED-AFTER-DUMP'
            entered = [[dict(r) for r in rs] for rs in data]
            first = h.run(lambda: Flow(*[[dict(r) for r in rs] for rs in data], *typing, rekey, dumper, scribble).results())
            cfg = (fmt, zipped, hashpath, cols)
            if not h.check(first[0] == 'ok', 'dump', cfg, 'dump ok', first[:2]):
                continue
            src = os.path.join(d, 'o.zip') if zipped else os.path.join(d, 'o', 'datapackage.json')
            if h.rng.random() < 0.4:
                # the SAME data dumped once more in this process, to another place: that dump is complete by itself (what an earlier
                # dump stored somewhere else is no reason to leave a file out here), and it is the one that is loaded back
                dumper2 = dump_to_zip(os.path.join(d, 'again.zip'), **opts) if zipped else dump_to_path(os.path.join(d, 'again'), **opts)
                second = h.run(lambda: Flow(*[[dict(r) for r in rs] for rs in data], *typing, rekey, dumper2).process())
                if not h.check(second[0] == 'ok', 'dump', cfg + ('same data dumped again',), 'dump ok', second[:2]):
                    continue
                src = os.path.join(d, 'again.zip') if zipped else os.path.join(d, 'again', 'datapackage.json')
            back = h.run(lambda: Flow(load(src, format='datapackage') if zipped else load(src)).results())
            if not h.check(back[0] == 'ok', 'load', cfg, 'load ok', back[:2]):
                continue
            r1, dp1 = [[dict(r, c_str=o['c_str']) for r, o in zip(rs, os_)] for rs, os_ in zip(first[1][0], entered)], first[1][1].descriptor
            r2, dp2 = back[1][0], back[1][1].descriptor
            ok = [x['name'] for x in dp1['resources']] == [x['name'] for x in dp2['resources']]
            for a, b in zip(dp1['resources'], dp2['resources']):
                ok = ok and [(f['name'], f['type']) for f in a['schema']['fields']] == [(f['name'], f['type']) for f in b['schema']['fields']]
                ok = ok and a['schema'].get('primaryKey') == b['schema'].get('primaryKey')
            h.check(ok, 'round-trip:schema', cfg, 'same names, fields, types, keys', None)

            def norm(v):
                if isinstance(v, decimal.Decimal) and fmt == 'json':
                    return float(v)
                return v
            same = len(r1) == len(r2) and all(len(x) == len(y) and all({k: norm(v) for k, v in p.items()} == {k: norm(v) for k, v in q.items()}
                                                                       for p, q in zip(x, y)) for x, y in zip(r1, r2))
            h.check(same, 'round-trip:rows', cfg, r1, r2)
            # second claim of the property: every written data file decodes to the entered values using NOTHING BUT the
            # written descriptor (dialect, format, missingValues) -- an independent reader, not load()
            import zipfile, io, json as _json, tableschema
            if zipped:
                zf = zipfile.ZipFile(os.path.join(d, 'o.zip'))
                wdesc = _json.loads(zf.read('datapackage.json'))
                rd = lambda pth: zf.read(pth)
            else:
                wdesc = _json.load(open(os.path.join(d, 'o', 'datapackage.json')))
                rd = lambda pth: open(os.path.join(d, 'o', pth), 'rb').read()
            for rdesc, rows_in in zip(wdesc['resources'], r1):
                raw = rd(rdesc['path']).decode(rdesc.get('encoding', 'utf-8'))
                schema = tableschema.Schema(rdesc['schema'])
                names = [f.name for f in schema.fields]
                if rdesc.get('format') == 'csv':
                    dia = rdesc.get('dialect', {})
                    lt, dl, qc = dia.get('lineTerminator', '\r\n'), dia.get('delimiter', ','), dia.get('quoteChar', '"')
                    # split into records at the STAMPED line terminator outside quotes; any other line break outside quotes
                    # means the file does not follow its own dialect
                    recs, cur, inq, i, stray = [], '', False, 0, False
                    while i < len(raw):
                        ch = raw[i]
                        if ch == qc:
                            inq = not inq
                            cur += ch
                            i += 1
                        elif not inq and raw.startswith(lt, i):
                            recs.append(cur)
                            cur = ''
                            i += len(lt)
                        else:
                            if not inq and ch in '\r\n':
                                stray = True
                            cur += ch
                            i += 1
                    h.check(not stray and cur == '', 'descriptor-only:csv-framing', cfg, 'records end with the stamped lineTerminator %r' % lt,
                            'stray line break outside quotes' if stray else 'trailing garbage %r' % cur[:30])
                    if stray or cur != '':
                        continue
                    import csv as _csv
                    cells = [next(_csv.reader(io.StringIO(rec, newline=''), delimiter=dl, quotechar=qc,
                                              doublequote=dia.get('doubleQuote', True), skipinitialspace=dia.get('skipInitialSpace', False)))
                             if rec != '' else [''] for rec in recs]
                    header, body = cells[0], cells[1:]
                    missing = rdesc['schema'].get('missingValues', [''])

                    def decode_csv(header=header, body=body, names=names, schema=schema, missing=missing):
                        out = []
                        for row in body:
                            by_name = dict(zip(header, row))
                            vals = [by_name.get(n) for n in names]
                            out.append(dict(zip(names, schema.cast_row(vals))))
                        return out
                    dec = h.run(decode_csv)
                else:
                    dec = h.run(lambda: [dict(zip(names, schema.cast_row([row.get(n) for n in names]))) for row in _json.loads(raw)])
                okd = dec[0] == 'ok' and len(dec[1]) == len(rows_in) and all(
                    {k: norm(v) for k, v in p.items()} == {k: norm(v) for k, v in q.items()} for p, q in zip(rows_in, dec[1]))
                h.check(okd, 'descriptor-only:values', cfg, rows_in, dec[1] if dec[0] == 'ok' else dec[:2])
        finally:
            shutil.rmtree(d, ignore_errors=True)


def nat_findings(h):
    import os, tempfile, shutil
    from dataflows import Flow, dump_to_path, load
    d = tempfile.mkdtemp(prefix='c03f_')
    try:
        h.cur = h.cur + '/empty-string'
        Flow([{'s': '', 't': 'x'}], dump_to_path(os.path.join(d, 'a'))).process()
        back = Flow(load(os.path.join(d, 'a', 'datapackage.json'))).results()[0][0]
        h.check(back == [{'s': '', 't': 'x'}], 'csv', "{'s': ''}", "{'s': ''}", back)
        h.cur = h.cur.replace('/empty-string', '/json-field-order')
        Flow([{'b': 'x', 'a': 1}], dump_to_path(os.path.join(d, 'b'), format='json')).process()
        r = h.run(lambda: Flow(load(os.path.join(d, 'b', 'datapackage.json'))).results()[0][0])
        h.check(r[0] == 'ok' and r[1] == [{'b': 'x', 'a': 1}], 'json', "fields ['b','a']", [{'b': 'x', 'a': 1}], r[:2])
        h.cur = h.cur.replace('/json-field-order', '/crlf-in-cell')
        # a CRLF inside a string cell: the written file keeps it (checked by the descriptor-only decode below), load() does not
        Flow([{'s': 'two\r\nlines', 'n': 1}], dump_to_path(os.path.join(d, 'c'))).process()
        r = h.run(lambda: Flow(load(os.path.join(d, 'c', 'datapackage.json'))).results()[0][0])
        h.check(r[0] == 'ok' and r[1] == [{'s': 'two\r\nlines', 'n': 1}], 'csv', "'two\\r\\nlines'", "'two\\r\\nlines'", r[1] if r[0] == 'ok' else r[:2])
        h.cur = h.cur.replace('/crlf-in-cell', '')
        # nulls under a schema whose missingValues was set explicitly (without ''): they load back as nulls, for csv and json
        from dataflows import update_schema, dump_to_zip
        rows = [{'i': 1, 's': 'x'}, {'i': None, 's': None}, {'i': 3, 's': 'NA'}]
        want = [{'i': 1, 's': 'x'}, {'i': None, 's': None}, {'i': 3, 's': None}]     # 'NA' is a declared missing value
        for fmt in ('csv', 'json'):
            for zipped in (False, True):
                tgt = os.path.join(d, 'mv_%s_%s' % (fmt, zipped))
                dumper = dump_to_zip(tgt + '.zip', format=fmt) if zipped else dump_to_path(tgt, format=fmt)
                r0 = h.run(lambda: Flow([dict(r) for r in rows], update_schema(None, missingValues=['NA']), dumper).process())
                src = load(tgt + '.zip', format='datapackage') if zipped else load(os.path.join(tgt, 'datapackage.json'))
                r = h.run(lambda: Flow(src).results()[0][0])
                h.check(r0[0] == 'ok' and r[0] == 'ok' and r[1] in (want, rows), 'explicit-missing-values', (fmt, zipped), want, r[1] if r[0] == 'ok' else r[:2])
        import csv as _csv, io
        raw = open(os.path.join(d, 'c', 'res_1.csv'), 'rb').read().decode('utf-8')
        cells = list(_csv.reader(io.StringIO(raw, newline='')))
        h.check(cells == [['s', 'n'], ['two\r\nlines', '1']], 'csv-file-keeps-crlf-in-cell', 'two\\r\\nlines', [['s', 'n'], ['two\r\nlines', '1']], cells)
    finally:
        shutil.rmtree(d, ignore_errors=True)


ITEMS = [
    Item('FileFormat', sym_file_format, [('round-trip', nat_roundtrip)], F + 'base.py::FileFormat.write_row'),
    Item('type-tables', sym_type_tables, [('findings', nat_findings)], F + 'format_csv.py::CSVFormat'),
    Item('prepare_resource', sym_prepare_resource, [], F + 'format_csv.py::CSVFormat.prepare_resource'),
    Item('CSVFormat.writer', sym_csv_writer, [], F + 'format_csv.py::CSVFormat.__init__'),
    Item('JSONFormat.framing', sym_json_framing, [], F + 'format_json.py::JSONFormat.write_transformed_row'),
    Item('FileDumper.rows_processor', DM.sym_rows_processor, [], DM.D + 'file_dumper.py::FileDumper.rows_processor'),
    Item('FileDumper.dispatch', DM.sym_file_dumper_dispatch, [], DM.D + 'file_dumper.py::FileDumper.process_datapackage'),
    Item('DumperBase.insert_hash_in_path', DM.sym_insert_hash_in_path, [], DM.D + 'dumper_base.py::DumperBase.insert_hash_in_path'),
    Item('load.process_resources', K16.sym_appenders, [], 'dataflows/processors/load.py::load.process_resources'),
    Item('ZipDumper', DM.sym_zip_dumper, [], DM.D + 'to_zip.py::ZipDumper.write_file_to_output'),
    Item('PathDumper.write_file_to_output', DM.sym_write_file_to_output, [], DM.D + 'to_path.py::PathDumper.write_file_to_output'),
]
