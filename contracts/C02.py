"""C02  Emitted rows always agree with the emitted descriptor.

Conf(ds): #streams == #descriptors, names distinct, dom(row) within names(schema), values null or castable to the field type.
Claim: Conf is preserved by every built-in step (then by every pipeline, C01 fold).  The lockstep part (keys / counts /
names) is carried by the package-phase + row-phase contracts of the processors (C15, C16, C17, C11 items re-discharged here);
the type part is the table below, proved over the real type-deciding code:
   join.process_target_resource : type of a joined field = the aggregator's declared type, else the source field's type;
                                  copied properties only for value-preserving aggregators; an existing target field must
                                  already have that type (AssertionError otherwise); field appended iff absent
   join AGGREGATORS table       : value-preserving aggregators (max, min, first, last, any, sum) take the source type; count
                                  is integer; avg and median are number; set / array / counters are array
   add_computed_field.get_type  : any if a source is any; string for format / join; number if a source is number or the op is
                                  avg; else the first source type; any without sources
   iterable_loader.field_type   : one python type in the sample -> its Table Schema type; several or none -> any
"""
from contracts.common import Item, mk_resource, mk_package2, expect_no_raise_or_same, _b, field_tree
from contracts import base as BA
from contracts import C15 as K15, C16 as K16, C17 as K17, C11 as K11, C14 as K14, C10 as K10

P = 'dataflows/processors/'
TRUSTED = ['T1 pyvc model of Python (DESIGN 3)', 'T5 tableschema castability: integer / number accept int; number accepts float and '
           'Decimal; array accepts list; any accepts everything', 'T4 datapackage profile validation', 'T16 z3 / cvc5']
ASSUMPTIONS = ['inputs conform to their schema for the whole stream, not only for the inference sample',
               '"descriptor is a valid Data Package" is datapackage-py profile validation: exercised by the bounded run only',
               'sum of integers is an integer, of numbers a number (python arithmetic)']

RESULT_TYPE = {'sum': None, 'avg': 'number', 'median': 'number', 'max': None, 'min': None, 'first': None, 'last': None,
               'count': 'integer', 'any': None, 'set': 'array', 'array': 'array', 'counters': 'array'}


def sym_join_types(vc):
    import z3
    from pyvc.api import real_function, check, cover, PyDict, PyList, sym_str, Tree, term, StrS, SymList, SymSeq, IntS
    from pyvc.symex import PyExc
    from contracts.C11 import mk_join
    fk = vc.under_contract(P + 'join.py', ['join_aux', 'process_target_resource'])

    def thunk_table(it):
        m = it.module('dataflows.processors.join')
        A = m.attrs['AGGREGATORS']
        for agg, want in RESULT_TYPE.items():
            a = it.lib.getitem(it, A, agg)
            check(it, 'declared-result-type[%s]' % agg, a.attrs['dataType'] == want)
        # properties of the source field are copied only by aggregators that return one of the source values
        for agg in RESULT_TYPE:
            a = it.lib.getitem(it, A, agg)
            if a.attrs['copyProperties']:
                check(it, 'copy-properties-only-for-value-preserving[%s]' % agg, agg in ('first', 'last', 'any', 'median'))
    vc.explore(fk, thunk_table)
    for agg in ('sum', 'avg', 'count', 'first', 'array'):
        for existing in (False, True):
            def thunk(it, agg=agg, existing=existing):
                func, usage, db = mk_join(it, agg=agg)
                ptr = func.env.lookup('process_target_resource')
                stype = sym_str(it, 'source_type')
                sfield = PyDict({'name': 'v', 'type': stype, 'title': 'Source title'})
                source_spec = PyDict({'name': 'src', 'schema': PyDict({'fields': PyList([sfield])})})
                tfields = PyList([])
                if existing:
                    etype = sym_str(it, 'existing_type')
                    tfields.items.append(PyDict({'name': 'x', 'type': etype}))
                resource = PyDict({'name': 'tgt', 'schema': PyDict({'fields': tfields})})
                want = RESULT_TYPE[agg]
                wt = z3.StringVal(want) if want else stype.t
                tag = '[%s,%s]' % (agg, 'existing' if existing else 'new')
                try:
                    r = it.call(ptr, [source_spec, resource])
                except PyExc as pe:
                    check(it, 'existing-field-of-another-type-is-rejected' + tag,
                          z3.And(_b(existing and pe.exc.cls == 'AssertionError'), etype.t != wt) if existing else False)
                    return
                if existing:
                    check(it, 'existing-field-reused-only-with-the-same-type' + tag, z3.And(etype.t == wt, _b(len(tfields.items) == 1)))
                else:
                    ok = len(tfields.items) == 1 and isinstance(tfields.items[0], PyDict) and tfields.items[0].d.get('name') == 'x'
                    check(it, 'joined-field-appended-once' + tag, ok)
                    if ok:
                        f = tfields.items[0]
                        check(it, 'joined-field-type' + tag, term(f.d['type'], StrS) == wt)
                        copied = 'title' in f.d
                        check(it, 'source-properties-copied-iff-value-preserving' + tag, copied == (agg in ('first',)))
                        check(it, 'source-field-descriptor-not-aliased' + tag, f is not sfield)
                cover(it, 'reachable' + tag)
            paths = vc.explore(fk, thunk, min_paths=1)
            expect_no_raise_or_same(vc, fk, paths)

    def thunk_missing(it):
        func, usage, db = mk_join(it, agg='sum')
        ptr = func.env.lookup('process_target_resource')
        source_spec = PyDict({'name': 'src', 'schema': PyDict({'fields': PyList([PyDict({'name': 'other', 'type': 'string'})])})})
        try:
            it.call(ptr, [source_spec, PyDict({'name': 'tgt'})])
        except PyExc as pe:
            check(it, 'unknown-source-field-is-an-error', pe.exc.cls == 'KeyError')
            return
        check(it, 'unknown-source-field-is-an-error', False)
    vc.explore(fk, thunk_missing)


def sym_get_type(vc):
    """add_computed_field.get_type for an arbitrary schema (opaque field list) against the documented table"""
    import z3
    from pyvc.api import real_function, check, cover, PyList, PyDict, sym_str, str_seq, SymList, term, StrS, SymSeq, IntS
    from pyvc import lib
    fk = vc.under_contract(P + 'add_computed_field.py', ['get_type'])
    for op in ('sum', 'avg', 'max', 'min', 'multiply', 'constant', 'join', 'format'):
        for nsrc in (0, 1, 2):
            def thunk(it, op=op, nsrc=nsrc):
                gt = real_function(it, 'dataflows.processors.add_computed_field', 'get_type')
                types = [sym_str(it, 't%d' % j) for j in range(nsrc)]
                fields = PyList([PyDict({'name': 'f%d' % j, 'type': types[j]}) for j in range(nsrc)] +
                                [PyDict({'name': 'unrelated', 'type': 'any'})])
                r = it.call(gt, [fields, PyList(['f%d' % j for j in range(nsrc)]), op])
                rt = term(r, StrS)
                anyt = z3.Or(*[t.t == z3.StringVal('any') for t in types]) if types else z3.BoolVal(False)
                numt = z3.Or(*[t.t == z3.StringVal('number') for t in types]) if types else z3.BoolVal(False)
                tag = '[%s,%d sources]' % (op, nsrc)
                if nsrc == 0:
                    want = 'string' if op in ('format', 'join') else ('number' if op == 'avg' else 'any')
                    check(it, 'type-without-sources' + tag, rt == z3.StringVal(want))
                else:
                    check(it, 'any-source-makes-any' + tag, z3.Implies(anyt, rt == z3.StringVal('any')))
                    if op in ('format', 'join'):
                        check(it, 'text-operations-give-string' + tag, z3.Implies(z3.Not(anyt), rt == z3.StringVal('string')))
                    else:
                        check(it, 'number-source-or-avg-gives-number' + tag,
                              z3.Implies(z3.And(z3.Not(anyt), z3.Or(numt, z3.BoolVal(op == 'avg'))), rt == z3.StringVal('number')))
                        check(it, 'otherwise-the-first-source-type' + tag,
                              z3.Implies(z3.And(z3.Not(anyt), z3.Not(numt), z3.BoolVal(op != 'avg')), rt == types[0].t))
                cover(it, 'reachable' + tag)
            vc.bounded_label = 'get_type sources'
            try:
                vc.explore(fk, thunk)
            finally:
                vc.bounded_label = None
    vc.bounded_notes.append('add_computed_field.get_type: 0..2 source fields with symbolic types (plus an unrelated field)')


def nat_field_type(h):
    import datetime, decimal
    from dataflows.helpers.iterable_loader import iterable_storage
    st = iterable_storage([])
    samples = {'string': 'x', 'boolean': True, 'integer': 3, 'number': 2.5, 'array': [1], 'object': {'a': 1},
               'datetime': datetime.datetime(2020, 1, 1), 'date': datetime.date(2020, 1, 1)}
    samples2 = dict(samples, number=decimal.Decimal('1.5'))
    for _ in range(h.n(100, 1000)):
        kinds = h.rng.sample(sorted(samples), h.rng.randint(0, 2))
        vals = []
        for k in kinds:
            vals += [h.rng.choice([samples, samples2])[k]] * h.rng.randint(1, 3)
        vals += [None] * h.rng.randint(0, 2)
        h.rng.shuffle(vals)
        want = kinds[0] if len(set(kinds)) == 1 else 'any'
        got = st.field_type(vals)
        h.check(got == want, 'dataflows/helpers/iterable_loader.py::iterable_storage.field_type', vals, want, got)


def nat_conformance(h):
    """bounded: random well-typed pipelines over the built-in processors; results() (which validates every row against the
    final schema) succeeds, one stream per descriptor, unique names, row keys within the schema, valid Data Package"""
    import decimal, datetime
    from dataflows import (Flow, add_computed_field, add_field, delete_fields, select_fields, rename_fields, unpivot, concatenate,
                           join, join_with_self, duplicate, delete_resource, set_type, filter_rows, sort_rows, deduplicate,
                           set_primary_key, update_resource, find_replace, validate)
    import tableschema
    for _ in range(h.n(40, 400)):
        n = h.rng.randint(1, 6)
        src = [{'k': h.rng.choice('abc'), 'i': h.rng.randint(-3, 9), 'x': h.rng.choice([1.5, 2.25, -0.5]), 's': 'v%d' % j,
                'd': datetime.date(2020, 1, 1 + j), 'l': [j, 'e'], 'o': {'q': j}, 'b': bool(j % 2)} for j in range(n)]
        tgt = [{'k': c, 'name': c.upper()} for c in 'abd']
        steps_pool = {
            'acf-sum': lambda: add_computed_field(target='t0', operation='sum', source=['i', 'i'], resources='res_1'),
            'acf-avg': lambda: add_computed_field(target='t1', operation='avg', source=['i', 'x'], resources='res_1'),
            'acf-max': lambda: add_computed_field(target='t2', operation='max', source=['i'], resources='res_1'),
            'acf-mul': lambda: add_computed_field(target='t3', operation='multiply', source=['i', 'i'], resources='res_1'),
            'acf-join': lambda: add_computed_field(target='t4', operation='join', source=['s', 'k'], with_='-', resources='res_1'),
            'acf-format': lambda: add_computed_field(target='t5', operation='format', with_='{s}:{i}', resources='res_1'),
            'acf-const': lambda: add_computed_field(target='t6', operation='constant', with_='c', resources='res_1'),
            'add_field': lambda: add_field('nf', 'integer', 7, resources='res_1'),
            'delete': lambda: delete_fields(['l', 'o'], resources='res_1'),
            'select': lambda: select_fields(['k', 'i', 'x'], resources='res_1'),
            'rename': lambda: rename_fields({'s': 'text'}, resources='res_1'),
            # a swap and a chain: the target of one rename is the old name of another (differently typed) field
            'rename-swap': lambda: rename_fields({'s': 'i', 'i': 's'}, resources='res_1'),
            'rename-chain': lambda: rename_fields({'k': 'x', 'x': 'b', 'b': 'flag'}, resources='res_1'),
            'unpivot': lambda: unpivot([dict(name='i', keys=dict(what='i')), dict(name='x', keys=dict(what='x'))],
                                       [dict(name='what', type='string')], dict(name='val', type='number'), resources='res_1'),
            'set_type': lambda: set_type('i', type='number', resources='res_1'),
            'filter': lambda: filter_rows(lambda r: r.get('i', 0) != 3, resources='res_1'),
            'sort': lambda: sort_rows('{i}', resources='res_1'),
            'duplicate': lambda: duplicate('res_1'),
            'find_replace': lambda: find_replace([dict(name='s', patterns=[dict(find='v', replace='w')])], resources='res_1'),
            'validate': lambda: validate(),
        }
        aggs = ['sum', 'avg', 'median', 'max', 'min', 'first', 'last', 'count', 'set', 'array', 'counters', 'any']
        names = h.rng.sample(sorted(steps_pool), h.rng.randint(0, 3))
        if 'set_type' in names and 'rename-swap' in names and names.index('rename-swap') < names.index('set_type'):
            # after the swap the field called `i` holds the texts: declaring it a number is the caller's type error, and set_type
            # rightly refuses the rows (not a well-typed pipeline; a false alarm of this oracle in the thorough tier)
            continue
        steps = [steps_pool[x]() for x in names]
        tail = h.rng.choice(['none', 'join', 'join_self', 'concat'])
        agg = h.rng.choice(aggs)
        if tail == 'join':
            fld = h.rng.choice(['i', 'x'])
            steps.append(join('res_1', ['k'], 'res_2', ['k'], fields={'agg': {'name': fld, 'aggregate': agg}},
                              mode=h.rng.choice(['inner', 'half-outer', 'full-outer']), source_delete=h.rng.random() < 0.5))
        elif tail == 'join_self':
            steps.append(join_with_self('res_1', ['k'], {'k': None, 'agg': {'name': 'i', 'aggregate': agg}}))
        elif tail == 'concat':
            # "well-typed": the columns merged into one target field have ONE type.  (duplicate + a swap rename can leave `s` an integer
            # column in one resource and a text column in its copy; merging those is the caller's type error, not concatenate's --
            # a false alarm of this oracle under VERIF_SEED=3.)
            pre = h.run(lambda: Flow([dict(r) for r in src], [dict(r) for r in tgt], *[steps_pool[x]() for x in names]).datastream().dp.descriptor)
            if pre[0] != 'ok':
                continue
            kinds = {}
            for rd in pre[1]['resources']:
                for f in rd['schema']['fields']:
                    if f['name'] in ('k', 'name', 's'):
                        kinds.setdefault(f['name'], set()).add(f['type'])
            if any(len(v) > 1 for v in kinds.values()):
                continue
            steps.append(concatenate({'k': [], 'name': [], 's': []}, dict(name='both')))
        cfg = (names, tail, agg, n)
        got = h.run(lambda: Flow([dict(r) for r in src], [dict(r) for r in tgt], *steps).results())
        if got[0] != 'ok':
            cause = getattr(got[2], 'cause', got[2])
            # a randomly composed step may legitimately reject its configuration (a field it needs was deleted / renamed /
            # unpivoted away by an earlier step).  What C02 forbids is a run whose rows fail validation against the
            # emitted schema, or that pairs streams and descriptors wrongly.
            if type(cause).__name__ != 'ValidationError' and 'ROW:' not in str(cause) and 'non-iterator' not in str(cause):
                continue
            h.check(False, 'pipeline', cfg, 'results() validates', (got[1], str(cause)[:300]))
            continue
        res, dp, _ = got[1]
        descs = dp.descriptor['resources']
        ok = len(res) == len(descs) and len({r['name'] for r in descs}) == len(descs)
        for rows, rd in zip(res, descs):
            fnames = [f['name'] for f in rd['schema']['fields']]
            ok = ok and len(set(fnames)) == len(fnames) and all(set(r) <= set(fnames) for r in rows)
        h.check(ok and dp.valid, 'pipeline', cfg, 'conformant', ([r['name'] for r in descs], dp.valid))


def nat_shapes(h):
    """bounded, deterministic: package shapes the random pipelines rarely build -- a selected block of resources with untouched
    ones before AND after it, sources that read one sequential medium (unstream), differently named join keys with unmatched
    source rows.  Same oracle as above: results() validates, one stream per descriptor, unique names, row keys within the schema"""
    import os, tempfile, shutil
    from dataflows import (Flow, concatenate, delete_resource, duplicate, join, stream, unstream, checkpoint, update_resource,
                           select_fields, delete_fields)
    four = lambda: [[{'a': i, 'p': 'x'} for i in range(2)], [{'a': 10 + i, 'b': 'u'} for i in range(3)],
                    [{'a': 20 + i, 'c': 1.5} for i in range(2)], [{'z': 'last', 'a': 30 + i} for i in range(4)]]

    def conformant(cfg, thunk, want_rows=None):
        got = h.run(thunk)
        if got[0] != 'ok':
            h.check(False, 'pipeline', cfg, 'results() validates', (got[1], str(getattr(got[2], 'cause', got[2]))[:300]))
            return
        res, dp, _ = got[1]
        descs = dp.descriptor['resources']
        ok = len(res) == len(descs) and len({r['name'] for r in descs}) == len(descs) and dp.valid
        for rows, rd in zip(res, descs):
            fnames = [f['name'] for f in rd['schema']['fields']]
            ok = ok and len(set(fnames)) == len(fnames) and all(set(r) <= set(fnames) for r in rows)
        if ok and want_rows is not None:
            ok = [len(r) for r in res] == want_rows
        h.check(ok, 'pipeline', cfg, 'conformant' if want_rows is None else ('conformant, rows per resource', want_rows),
                ([r['name'] for r in descs], [len(r) for r in res], dp.valid))
    for sel, want in ((['res_2', 'res_3'], [2, 5, 4]), (['res_1', 'res_2'], [5, 2, 4]), (['res_3', 'res_4'], [2, 3, 6]), ('res_2', [2, 3, 2, 4])):
        conformant(('concatenate', sel), lambda: Flow(*four(), concatenate({'a': []}, dict(name='both'), resources=sel)).results(), want)
    for sel, want in (('res_1', [3, 2, 4]), ('res_2', [2, 2, 4]), (['res_1', 'res_3'], [3, 4]), (0, [3, 2, 4]), (-1, [2, 3, 2])):
        conformant(('delete_resource', sel), lambda: Flow(*four(), delete_resource(sel)).results(), want)
        d = tempfile.mkdtemp()
        try:
            fn = os.path.join(d, 's.ndjson')
            Flow(*four(), stream(fn)).process()
            conformant(('unstream + delete_resource', sel), lambda: Flow(unstream(fn), delete_resource(sel)).results(), want)
            Flow(*four(), checkpoint('c', checkpoint_path=d)).process()
            conformant(('cached checkpoint + delete_resource', sel),
                       lambda: Flow(*four(), checkpoint('c', checkpoint_path=d), delete_resource(sel)).results(), want)
        finally:
            shutil.rmtree(d, ignore_errors=True)
    # resources added after others were deleted: auto-generated names stay unique (and name-based selectors keep hitting one resource)
    conformant(('iterable after delete_resource',), lambda: Flow(*four()[:3], delete_resource(0), four()[3]).results(), [3, 2, 4])
    conformant(('iterable after delete_resource, then delete by position',),
               lambda: Flow(*four()[:3], delete_resource(0), four()[3], delete_resource(2)).results(), [3, 2])
    from dataflows import sources
    conformant(('sources behind other resources',), lambda: Flow(*four()[:2], sources(four()[2], four()[3])).results(), [2, 3, 2, 4])
    conformant(('two sources steps',), lambda: Flow(sources(four()[0]), sources(four()[1], four()[2])).results(), [2, 3, 2])
    conformant(('duplicate in the middle',), lambda: Flow(*four(), duplicate('res_2', target_name='copy', target_path='copy.csv')).results(),
               [2, 3, 3, 2, 4])
    # one computed-field specification over SEVERAL selected resources whose same-named source columns differ in type: each
    # resource's new field is typed from that resource's own schema (and its rows validate against it)
    from dataflows import add_computed_field
    typed = {'integer': lambda j: j + 1, 'number': lambda j: j + 0.5, 'string': lambda j: 'v%d' % j}
    import itertools
    for order in itertools.permutations(['integer', 'number', 'string'], 2):
        for op in ('sum', 'min', 'max', 'multiply', 'avg', 'join'):
            if 'string' in order and op in ('sum', 'multiply', 'avg'):
                continue
            mk = lambda: [[{'v': typed[t](j), 'w': typed[t](j + 1)} for j in range(3)] for t in order]
            cfg = ('add_computed_field over resources typed', order, op)
            got = h.run(lambda: Flow(*mk(), add_computed_field(target='t', operation=op, source=['v', 'w'], with_='-')).results())
            if got[0] != 'ok':
                h.check(False, 'dataflows/processors/add_computed_field.py::add_computed_field.func', cfg, 'results() validates',
                        (got[1], str(getattr(got[2], 'cause', got[2]))[:300]))
                continue
            res, dp, _ = got[1]
            want = ['string' if op == 'join' else 'number' if (t == 'number' or op == 'avg') else t for t in order]
            have = [[f['type'] for f in rd['schema']['fields'] if f['name'] == 't'] for rd in dp.descriptor['resources']]
            h.check(have == [[w] for w in want] and dp.valid, 'dataflows/processors/add_computed_field.py::add_computed_field.func',
                    cfg, want, have)
    # same-SHAPED resources (the same field names) whose columns differ in type: a field-level step over all of them leaves every
    # resource its own field descriptors -- the types stay those of its own rows, and a later step restricted to one resource
    # (set_type on the last) does not reach the others
    from dataflows import set_type, add_field
    same_shaped = lambda: [[{'id': i, 'value': i * 2, 'gone': 'x'} for i in range(3)],
                           [{'id': 'k%d' % i, 'value': 'text %d' % i, 'gone': 1.5} for i in range(2)],
                           [{'id': i, 'value': i * 2, 'gone': 'y'} for i in range(2)]]
    field_steps = {'delete_fields': lambda: delete_fields(['gone']), 'select_fields': lambda: select_fields(['id', 'value']),
                   'rename_fields': lambda: __import__('dataflows').rename_fields({'gone': 'kept'}),
                   'add_field': lambda: add_field('extra', 'string', 'e')}
    for label, mk in sorted(field_steps.items()):
        for tail in ((), ('set_type-on-the-last',)):
            steps = [mk()] + ([set_type('value', type='number', resources=-1)] if tail else [])
            cfg = ('same-shaped resources, differently typed', label) + tail
            got = h.run(lambda: Flow(*same_shaped(), *steps).results())
            if got[0] != 'ok':
                h.check(False, 'pipeline', cfg, 'results() validates', (got[1], str(getattr(got[2], 'cause', got[2]))[:300]))
                continue
            res, dp, _ = got[1]
            types = [{f['name']: f['type'] for f in rd['schema']['fields']} for rd in dp.descriptor['resources']]
            want = [('integer', 'integer'), ('string', 'string'), ('integer', 'number' if tail else 'integer')]
            h.check([(t.get('id'), t.get('value')) for t in types] == want and dp.valid, 'pipeline', cfg, want,
                    [(t.get('id'), t.get('value')) for t in types])
    for mode, want in (('inner', [2]), ('half-outer', [3]), ('full-outer', [5])):
        src = [{'city_id': i, 'pop': 10 * i} for i in (1, 2, 8, 9)]
        tgt = [{'id': 1, 'n': 'a'}, {'id': 2, 'n': 'b'}, {'id': 3, 'n': 'c'}]
        conformant(('join, differently named keys', mode),
                   lambda: Flow(src, tgt, join('res_1', ['city_id'], 'res_2', ['id'], fields={'pop': {}}, mode=mode)).results(), want)


from contracts import C10 as _K10   # noqa: E402  (ResourceMatcher: the contract every selector-taking step is checked against)

ITEMS = [
    _K10._mk_matcher_item(),
    Item('shapes', None, [('deterministic', nat_shapes)], P + 'concatenate.py::concatenate.func'),
    Item('iterable_loader.naming', BA.sym_iterable_loader_naming, [], 'dataflows/helpers/iterable_loader.py::iterable_loader.process_datapackage'),
    Item('delete_resource.func', K10.sym_delete_resource, [], P + 'delete_resource.py::delete_resource.func'),
    Item('join.types', sym_join_types, [('conformance', nat_conformance)], P + 'join.py::join_aux.process_target_resource'),
    Item('add_computed_field.get_type', sym_get_type, [], P + 'add_computed_field.py::get_type'),
    Item('iterable_loader.field_type', None, [('differential', nat_field_type)], 'dataflows/helpers/iterable_loader.py::iterable_storage.field_type'),
    Item('delete_fields.package-phase', K15.sym_delete_fields_pkg, [], P + 'delete_fields.py::delete_fields.func'),
    Item('delete_fields.rows', K15.sym_delete_rows, [], P + 'delete_fields.py::process_resource'),
    Item('rename_fields.package-phase', K15.sym_rename_fields_pkg, [], P + 'rename_fields.py::rename_fields.func'),
    Item('rename_fields.rows', K15.sym_rename_rows, [], P + 'rename_fields.py::process_resource'),
    Item('select_fields.package-phase', K15.sym_select_fields_pkg, [], P + 'select_fields.py::select_fields.func'),
    Item('select_fields.rows', K15.sym_select_rows, [], P + 'select_fields.py::process_resource'),
    Item('add_computed_field.package-phase', K15.sym_computed_pkg, [], P + 'add_computed_field.py::add_computed_field.func'),
    Item('add_computed_field.rows', K15.sym_computed_rows, [], P + 'add_computed_field.py::process_resource'),
    Item('unpivot.package-phase', K17.sym_unpivot_pkg, [], P + 'unpivot.py::unpivot.func'),
    Item('unpivot.rows', K17.sym_unpivot_rows, [], P + 'unpivot.py::unpivot_rows'),
    Item('concatenate.func', K16.sym_concatenate_func, [], P + 'concatenate.py::concatenate.func'),
    Item('concatenate.rows', K16.sym_concatenator, [], P + 'concatenate.py::concatenator'),
    Item('duplicate.func', K16.sym_duplicate_func, [], P + 'duplicate.py::duplicate.func'),
    Item('join.process_target', K11.sym_process_target, [], P + 'join.py::join_aux.process_target'),
    # descriptor phase and stream phase of join treat the same resources in the same order (one stream per descriptor)
    Item('join.process_datapackage', K11.sym_join_process_datapackage, [], P + 'join.py::join_aux.process_datapackage'),
    Item('join.new_resource_iterator', K11.sym_new_resource_iterator, [], P + 'join.py::join_aux.new_resource_iterator'),
    Item('join.func', K11.sym_join_func, [], P + 'join.py::join_aux.func'),
    Item('schema_validator', K14.sym_schema_validator, [], 'dataflows/base/schema_validator.py::schema_validator'),
    Item('set_type', K14.sym_set_type_selection, [('multi-resource', K14.nat_set_type_multi)], P + 'set_type.py::set_type.process_datapackage'),
]

from contracts import reuse as _REUSE   # noqa: E402
ITEMS.append(Item('second-use', None, [('catalogue', _REUSE.nat_second_use_for('C02'))], 'dataflows/base/datastream_processor.py::DataStreamProcessor._process'))
from contracts.common import lazy_sym   # noqa: E402
ITEMS.append(Item('add_field', lazy_sym('C10', 'sym_add_field'), [], 'dataflows/processors/add_field.py::add_field'))
