"""contracts/common.py -- shared pieces of the contract files.

A contract ITEM has
   name      : short id
   fnkeys    : functions of /repo it puts under contract ('file::qualname'), hashed into the evidence
   symbolic  : f(vc)  -- builds symbolic inputs, runs the REAL function through pyvc, states obligations
   native    : [(test name, f(h))] -- bounded differential of the real function against the same spec source
This module is imported by both interpreters: pyvc imports are done lazily inside functions.
"""


class Item:
    def __init__(self, name, symbolic=None, native=None, fnkey=None):
        self.name = name
        self.symbolic = symbolic or (lambda vc: None)
        self.native = native or []
        self.fnkey = fnkey


# ------------------------------------------------------------------------------------------------
# symbolic object factories (pyvc side)

def mk_resource(it, hint='r', may_raise=False, descriptor=None, name=None):
    """a ResourceWrapper: .res.name, .res.descriptor (lazy tree), iteration = opaque row stream"""
    from pyvc.api import Opaque, Stream, SV, Tree, StrS
    nm = name if name is not None else SV(it.fresh(hint + '.name', StrS))
    res = Opaque('Resource', hint + '.res')
    res.attrs['name'] = nm
    if descriptor is None:
        descriptor = Tree(hint + '.desc')
        descriptor.has['name'] = True
        descriptor.init_has['name'] = True
        descriptor.children['name'] = nm
        descriptor.init_children['name'] = nm
    res.attrs['descriptor'] = descriptor
    rw = Opaque('ResourceWrapper', hint)
    rw.attrs['res'] = res
    stream = Stream(hint + '.rows', lambda it_: it_.fresh_row(hint + '.row'), may_raise=may_raise, owner=rw)
    rw.attrs['it'] = stream
    rw.attrs['__iter__'] = stream
    rw.stream = stream
    return rw


def mk_package(it, hint='pkg', may_raise=False, res_may_raise=False):
    """a PackageWrapper: .pkg (Package with .descriptor tree), iteration = opaque stream of ResourceWrappers"""
    from pyvc.api import Opaque, Stream, Tree
    pkg = Opaque('Package', hint + '.pkg')
    desc = Tree(hint + '.descriptor')
    pkg.attrs['descriptor'] = desc
    pw = Opaque('PackageWrapper', hint)
    pw.attrs['pkg'] = pkg
    counter = [0]

    def mk(it_):
        counter[0] += 1
        return mk_resource(it_, '%s.r%d' % (hint, counter[0]), may_raise=res_may_raise)
    stream = Stream(hint + '.resources', mk, may_raise=may_raise, owner=pw)
    pw.attrs['__iter__'] = stream
    pw.attrs['it'] = stream
    pw.stream = stream
    return pw


class Expect:
    """result of running a spec step before the real code: outputs / new state, or the exception class raised"""

    def __init__(self, value=None, exc=None):
        self.value = value
        self.exc = exc


def run_spec(it, fn, args):
    from pyvc.symex import PyExc
    try:
        return Expect(value=it.call(fn, list(args)))
    except PyExc as e:
        return Expect(exc=e.exc)


def ghost_row(snap, alias=None):
    from pyvc.api import Row
    r = Row(snap.dom, snap.val, name='ghost')
    r.alias_of = alias
    return r


def expect_no_raise_or_same(vc, fnkey, paths, label='raise'):
    """post-pass over explored paths: a path that ends in an exception must have been predicted by the spec
    (path.info['expect_exc'] = class name) ; and a path where the spec predicted an exception must raise it"""
    import z3
    from pyvc.api import short
    for p in paths or []:
        tag = 'p' + '.'.join(str(d) for d in p.trail)
        exp = p.info.get('expect_exc', '<none>')
        if p.end == 'raise':
            got = p.exc.cls if p.exc.cls is not None else '<symbolic>'
            if p.info.get('upstream_raise'):
                continue
            ok = (exp == got)
            vc.add('%s.%s[%s]' % (short(fnkey), label, tag), p.pc, z3.BoolVal(ok), path=p,
                   info=dict(expected=exp, got=got))
        elif p.end in ('iter-end', 'return') and exp not in ('<none>', None) and p.info.get('in_iter'):
            vc.add('%s.%s-missing[%s]' % (short(fnkey), label, tag), p.pc, z3.BoolVal(False), path=p,
                   info=dict(expected=exp, got='no exception'))
