"""contracts/common.py -- shared pieces of the contract files.

A contract ITEM has
   name      : short id
   fnkeys    : functions of /repo it puts under contract ('file::qualname'), hashed into the evidence
   symbolic  : f(vc)  -- builds symbolic inputs, runs the REAL function through pyvc, states obligations
   native    : [(test name, f(h))] -- bounded differential of the real function against the same spec source
This module is imported by both interpreters: pyvc imports are done lazily inside functions.
"""


class Item:
    def __init__(self, name, symbolic=None, native=None, fnkey=None, replay=None):
        self.name = name
        self.replay = replay      # f(h, cex, obligation): runs the REAL function on the concretised counter-model of a failed
                                  # obligation (native side); h.check(False, ..) records the failing input
        self.symbolic = symbolic or (lambda vc: None)
        self.native = native or []
        self.fnkey = fnkey


def lazy_sym(modname, fn):
    """a contract of another property module, resolved when it runs (keeps the import graph of the property modules acyclic)"""
    def symbolic(vc):
        import importlib
        return getattr(importlib.import_module('contracts.' + modname), fn)(vc)
    return symbolic


def lazy_nat(modname, fn):
    def native(h):
        import importlib
        return getattr(importlib.import_module('contracts.' + modname), fn)(h)
    native.__name__ = fn
    return native


# ------------------------------------------------------------------------------------------------
# symbolic object factories (pyvc side)

def mk_resource(it, hint='r', may_raise=False, descriptor=None, name=None):
    """a ResourceWrapper: .res.name, .res.descriptor (lazy tree), iteration = opaque row stream"""
    from pyvc.api import Opaque, Stream, SV, Tree, StrS
    nm = name if name is not None else SV(it.fresh(hint + '.name', StrS))
    res = Opaque('Resource', hint + '.res')
    res.attrs['name'] = nm
    if descriptor is None:
        descriptor = Tree(hint + '.desc')
        descriptor.has['name'] = True
        descriptor.init_has['name'] = True
        descriptor.children['name'] = nm
        descriptor.init_children['name'] = nm
    res.attrs['descriptor'] = descriptor
    rw = Opaque('ResourceWrapper', hint)
    rw.attrs['res'] = res
    stream = Stream(hint + '.rows', lambda it_: it_.fresh_row(hint + '.row'), may_raise=may_raise, owner=rw)
    rw.attrs['it'] = stream
    rw.attrs['__iter__'] = stream
    rw.stream = stream
    return rw


def mk_package(it, hint='pkg', may_raise=False, res_may_raise=False):
    """a PackageWrapper: .pkg (Package with .descriptor tree), iteration = opaque stream of ResourceWrappers"""
    from pyvc.api import Opaque, Stream, Tree
    pkg = Opaque('Package', hint + '.pkg')
    desc = Tree(hint + '.descriptor')
    pkg.attrs['descriptor'] = desc
    pw = Opaque('PackageWrapper', hint)
    pw.attrs['pkg'] = pkg
    counter = [0]

    def mk(it_):
        counter[0] += 1
        return mk_resource(it_, '%s.r%d' % (hint, counter[0]), may_raise=res_may_raise)
    stream = Stream(hint + '.resources', mk, may_raise=may_raise, owner=pw)
    pw.attrs['__iter__'] = stream
    pw.attrs['it'] = stream
    pw.stream = stream
    return pw


class Expect:
    """result of running a spec step before the real code: outputs / new state, or the exception class raised"""

    def __init__(self, value=None, exc=None, events=()):
        self.value = value
        self.exc = exc
        self.events = list(events)


def run_spec(it, fn, args):
    """run a spec function as ghost code: its trace events are taken out of the path and returned"""
    from pyvc.symex import PyExc
    n0 = len(it.path.events)
    try:
        v = it.call(fn, list(args))
        evs = it.path.events[n0:]
        del it.path.events[n0:]
        return Expect(value=v, events=evs)
    except PyExc as e:
        evs = it.path.events[n0:]
        del it.path.events[n0:]
        return Expect(exc=e.exc, events=evs)


def ghost_row(snap, alias=None):
    from pyvc.api import Row
    r = Row(snap.dom, snap.val, name='ghost')
    r.alias_of = alias
    return r


def expect_no_raise_or_same(vc, fnkey, paths, label='raise'):
    """post-pass over explored paths: a path that ends in an exception must have been predicted by the spec
    (path.info['expect_exc'] = class name) ; and a path where the spec predicted an exception must raise it"""
    import z3
    from pyvc.api import short
    for p in paths or []:
        tag = 'p' + '.'.join(str(d) for d in p.trail)
        exp = p.info.get('expect_exc', '<none>')
        if p.end == 'raise':
            got = p.exc.cls if p.exc.cls is not None else '<symbolic>'
            if p.info.get('upstream_raise'):
                continue
            allowed = p.info.get('allowed_exc', {})
            if got in allowed:
                # an exception the contract allows under a stated condition: the path condition must imply it
                vc.add('%s.%s-allowed-%s[%s]' % (short(fnkey), label, got, tag), p.pc, allowed[got], path=p)
                continue
            ok = (exp == got)
            vc.add('%s.%s[%s]' % (short(fnkey), label, tag), p.pc, z3.BoolVal(ok), path=p,
                   info=dict(expected=exp, got=got))
        elif p.end in ('iter-end', 'return') and exp not in ('<none>', None) and p.info.get('in_iter'):
            vc.add('%s.%s-missing[%s]' % (short(fnkey), label, tag), p.pc, z3.BoolVal(False), path=p,
                   info=dict(expected=exp, got='no exception'))


# ------------------------------------------------------------------------------------------------
# richer symbolic packages: descriptor trees with resource / field lists

def field_tree(it, hint):
    from pyvc.api import Tree, SV, StrS
    t = Tree(hint)
    for key in ('name', 'type'):
        v = SV(it.fresh('%s.%s' % (hint, key), StrS))
        t.has[key] = True
        t.init_has[key] = True
        t.children[key] = v
        t.init_children[key] = v
    return t


def resource_desc(it, hint, name=None):
    """descriptor dict of one resource: name, schema{fields: opaque list of field dicts, ...}"""
    from pyvc.api import Tree, SV, StrS, SymSeq, SymList, IntS
    nm = name if name is not None else SV(it.fresh(hint + '.name', StrS))
    t = Tree(hint)
    t.has['name'] = True
    t.init_has['name'] = True
    t.children['name'] = nm
    t.init_children['name'] = nm
    cnt = [0]

    def mk_schema(it_, node, key):
        s = Tree(hint + '.schema')

        def mk_fields(it2, node2, key2):
            def mk_field(it3):
                cnt[0] += 1
                return field_tree(it3, '%s.f%d' % (hint, cnt[0])), None
            seq = SymSeq(hint + '.fields', it2.fresh(hint + '.fields', IntS), mk_field)
            lst = SymList(seq, [])
            lst.parent = s
            return lst
        s.schema = {'fields': mk_fields}
        # input invariant (is_valid): a tabular resource descriptor has schema.fields
        s.has['fields'] = True
        s.init_has['fields'] = True
        return s
    t.schema = {'schema': mk_schema}
    t.has['schema'] = True
    t.init_has['schema'] = True
    return t


def mk_package2(it, hint='pkg', may_raise=False, res_may_raise=False):
    """PackageWrapper with .pkg.descriptor['resources'] (opaque list of resource descriptor trees),
    .pkg.resources[i].name (by position), iteration = stream of ResourceWrappers"""
    import z3
    from pyvc.api import Opaque, Stream, Tree, SymSeq, SymList, IntS, StrS, SV, term, wrap
    pw = mk_package(it, hint, may_raise, res_may_raise)
    pkg = pw.attrs['pkg']
    desc = pkg.attrs['descriptor']
    nres = it.fresh(hint + '.nres', IntS)
    it.assume(nres >= 0)
    RESNAME = z3.Function('resname', IntS, StrS)
    cnt = [0]

    def name_at(it_, i):
        ti = term(i, IntS)
        ok = z3.And(ti >= -nres, ti < nres)
        if not it_.branch(ok):
            it_.raise_('IndexError', 'list index out of range')
        return wrap(RESNAME(z3.If(ti < 0, ti + nres, ti)))

    def mk_resources(it_, node, key):
        def mk_res(it2):
            cnt[0] += 1
            return resource_desc(it2, '%s.d%d' % (hint, cnt[0])), None
        seq = SymSeq(hint + '.descs', it_.fresh(hint + '.descs', IntS), mk_res)

        def at(it2, i):
            nm = name_at(it2, i)
            return resource_desc(it2, '%s.dat' % hint, name=nm)
        seq.at = at
        seq.length = nres
        lst = SymList(seq, [])
        lst.parent = desc
        return lst
    desc.schema = {'resources': mk_resources}
    desc.has['resources'] = True
    desc.init_has['resources'] = True
    reslist = Opaque('reslist', hint + '.resources')

    def res_getitem(it_, obj, i):
        nm = name_at(it_, i)
        r = Opaque('Resource', hint + '.resources[i]')
        r.attrs['name'] = nm
        return r
    reslist.attrs['__getitem__'] = res_getitem
    pkg.attrs['resources'] = reslist
    pw.nres = nres
    pw.RESNAME = RESNAME
    return pw


def selector(it, kind):
    """symbolic `resources` argument of the given form and the spec of `match(name)` for it.
    returns (value, want(package, name_term) -> z3 Bool)"""
    import z3
    from pyvc.api import sym_str, sym_int, str_seq, SymList, IntS
    from pyvc import lib
    if kind == 'none':
        return None, (lambda pw, n: z3.BoolVal(True))
    if kind == 'list':
        sel = SymList(str_seq(it, 'sel'), [])
        return sel, (lambda pw, n: z3.Contains(sel.prefix.term, z3.Unit(n)))
    if kind == 'str':
        sel = sym_str(it, 'selpat')
        return sel, (lambda pw, n: lib.RE_FULLMATCH(sel.t, n))
    if kind == 'int':
        sel = sym_int(it, 'selidx')

        def want(pw, n):
            i = sel.t
            return n == pw.RESNAME(z3.If(i < 0, i + pw.nres, i))
        return sel, want
    raise ValueError(kind)


def tree_writes_under(events, root):
    """TreeWrite / Append / TreeUpdate events on `root` or any node reachable upward to it"""
    out = []
    for e in events:
        node = None
        if e.kind in ('TreeWrite', 'TreeUpdate'):
            node = e.node
        elif e.kind == 'Append':
            node = e.obj
        else:
            continue
        n = node
        while n is not None:
            if n is root:
                out.append(e)
                break
            n = getattr(n, 'parent', None)
    return out


def _b(x):
    import z3
    return z3.BoolVal(x) if isinstance(x, bool) else x


def dispatch_symbolic(vc, relpath, qualpath, dotted, maker_name, maker_args, matched_ok, kinds=('none', 'list', 'str', 'int'),
                      stream_loop=None, pkg_loop=None, yield_pkg_first=True, pre_loop_modes=None, passes=None,
                      pkg_arg=None):
    """shared proof of the S2 dispatch shape
         [package phase: for resource in descriptor['resources']: if match(name): edit]
         yield package.pkg ; for r in package: yield T(r, ..) if match(r.res.name) else r
    Obligations, per selector form:  unselected => same stream object yielded, its rows not pulled, its descriptor not
    written;  selected => matched_ok(it, env, r, yielded_event) ;  exactly one output per input stream; the package is the
    first thing yielded; the resource stream is drained."""
    import z3
    from pyvc.api import real_function, LoopSpec, check, cover, yields_of, GenObj
    fk = vc.under_contract(relpath, qualpath)
    fname = qualpath[-1]
    stream_loop = stream_loop or (fname + '#L0')
    for kind in kinds:
        for mode in ('unselected', 'selected'):
            if kind == 'none' and mode == 'unselected':
                continue
            def thunk(it, kind=kind, mode=mode):
                maker = real_function(it, dotted, maker_name)
                sel, want = selector(it, kind)
                args, kwargs = maker_args(it, sel)
                func = it.call(maker, args, kwargs)
                package = mk_package2(it)
                if kind == 'int':
                    i = sel.t
                    it.path.info['allowed_exc'] = {'IndexError': z3.Not(z3.And(i >= -package.nres, i < package.nres))}

                def at_start(it, env, r):
                    it.path.info['in_iter'] = True
                    m = want(package, r.attrs['res'].attrs['name'].t)
                    it.assume(m if mode == 'selected' else z3.Not(m))
                    return r

                def at_end(it, env, r, events):
                    ys = yields_of(events)
                    tag = '%s,%s' % (kind, mode)
                    if len(ys) != 1:
                        check(it, 'one-output-per-resource[%s]' % tag, False)
                        return
                    check(it, 'one-output-per-resource[%s]' % tag, True)
                    y = ys[0]
                    if mode == 'unselected':
                        check(it, 'unselected-same-object[%s]' % tag, same_stream(it, y.obj, r))
                        check(it, 'unselected-rows-not-pulled[%s]' % tag, r.stream.drained is False and
                              not [e for e in events if e.kind in ('Drain', 'Pull', 'YieldFrom') and getattr(e, 'src', None) in (r, r.stream)])
                        check(it, 'unselected-descriptor-untouched[%s]' % tag,
                              not tree_writes_under(events, r.attrs['res'].attrs['descriptor']))
                    else:
                        check(it, 'selected-transformed[%s]' % tag, _b(matched_ok(it, env, r, y, events)))
                    cover(it, 'iter-reachable[%s]' % tag)
                it.loops[stream_loop] = LoopSpec(at_start=at_start, at_end=at_end, modes=('iter', 'exit'),
                                                 at_exit=lambda it, env: it.path.info.__setitem__('exit_mark', len(it.path.events)))
                if pkg_loop:
                    def p_start(it, env, rd):
                        m = want(package, rd.children['name'].t)
                        it.assume(z3.Not(m))
                        return rd

                    def p_end(it, env, rd, events):
                        check(it, 'pkgphase-unselected-descriptor-untouched[%s]' % kind, not tree_writes_under(events, rd))
                        cover(it, 'pkgphase-iter-reachable[%s]' % kind)
                    if mode == 'unselected':
                        it.loops[pkg_loop] = LoopSpec(at_start=p_start, at_end=p_end)
                    else:
                        it.loops[pkg_loop] = LoopSpec(modes=('exit',))
                for lbl, ls in (passes or {}).items():
                    it.loops[lbl] = ls
                g = it.call(func, [package if pkg_arg is None else pkg_arg(it, package)])
                it.run_generator(g)
                ys = yields_of(it.path.events)
                if yield_pkg_first:
                    check(it, 'first-yield-is-package[%s]' % kind, len(ys) >= 1 and ys[0].obj is package.attrs['pkg'])
                    check(it, 'only-package-outside-loop[%s]' % kind, len(ys) == 1)
                check(it, 'drains-package[%s]' % kind, package.stream.drained is True)
            paths = vc.explore(fk, thunk, min_paths=2)
            expect_no_raise_or_same(vc, fk, paths)
    return fk


def gen_of(names, arg_ok=None):
    """matched_ok: the yielded object is an un-run call of one of the generator functions `names` over resource r"""
    def ok(it, env, r, y, events):
        from pyvc.api import GenObj
        g = y.obj
        if not isinstance(g, GenObj) or g.fn.name not in names:
            return False
        allargs = list(g.args) + list(g.kwargs.values())
        if not any(a is r for a in allargs):
            return False
        if r.stream.drained or [e for e in events if e.kind in ('Drain', 'Pull') and getattr(e, 'src', None) in (r, r.stream)]:
            return False
        return True if arg_ok is None else arg_ok(it, env, r, g)
    return ok


def fn_named(obj, name):
    """modular call-site check: `obj` is the un-run generator (or the function value) of the callee called `name`.
    If the code no longer defines any function of that name in the callee's module the contract cannot be mapped onto it
    (a rename): UNDECIDED (contract-mapping error), never a violation.  If the name still exists and something else is
    called, the answer is False."""
    import ast
    from pyvc.api import GenObj, Unsupported
    from pyvc import loader
    fn = obj.fn if isinstance(obj, GenObj) else obj
    nm = getattr(fn, 'name', None)
    if nm is None:
        return False
    if nm == name:
        return True
    if any(getattr(f, 'name', None) == name for f, _ in getattr(obj, 'via', ())):
        # the un-run generator was handed back by a plain function of that name (a dispatcher over several generators)
        return True
    mod = getattr(fn, 'module', None)
    rel = getattr(mod, 'relpath', None)
    if rel is None:
        return False
    src, tree = loader.read_source(rel)
    if not any(isinstance(n, ast.FunctionDef) and n.name == name for n in ast.walk(tree)):
        raise Unsupported('CONTRACT-MAPPING no function named %r in %s any more (the call site now uses %r)' % (name, rel, nm))
    return False


def same_stream(it, y, r):
    """pass-through of a resource stream.
       True      : the yielded object IS the input ResourceWrapper, or a wrapper that provably re-yields it element by element
                   (`(x for x in r)`, a generator function whose whole body is `yield from rows` / `for x in rows: yield x`)
       False     : another resource, None, a list, or the un-run generator of a function that does something else with the rows
                   (e.g. the stream handed to a caster): not a pass-through
       undecided : any other new lazy object (map, filter, a generator expression with a condition or a computed element):
                   equivalence of wrapped streams is outside this contract -- never reported as a violation."""
    import ast
    from pyvc.api import GenObj, Unsupported
    from pyvc import lib
    if y is r:
        return True
    if isinstance(y, lib.GenExp):
        g = y.node.generators
        if len(g) == 1 and not g[0].ifs and isinstance(g[0].target, ast.Name) and isinstance(y.node.elt, ast.Name) \
                and y.node.elt.id == g[0].target.id:
            try:
                src = it.eval(g[0].iter, y.env)
            except Exception:
                src = None
            if src is r or src is getattr(r, 'stream', None):
                return True
        raise Unsupported('pass-through stream is re-wrapped in a generator expression (%s): equivalence of wrapped streams '
                          'is outside this contract' % ast.unparse(y.node)[:80])
    if isinstance(y, GenObj):
        fn = y.fn
        node = getattr(fn, 'node', None)
        body = [st for st in getattr(node, 'body', []) if not (isinstance(st, ast.Expr) and isinstance(st.value, ast.Constant))]
        params = [a.arg for a in node.args.args] if node is not None and hasattr(node, 'args') else []
        passed = [p for p, a in zip(params, y.args) if a is r or a is getattr(r, 'stream', None)]
        if len(body) == 1 and passed:
            st = body[0]
            if isinstance(st, ast.Expr) and isinstance(st.value, ast.YieldFrom) and isinstance(st.value.value, ast.Name) \
                    and st.value.value.id in passed:
                return True
            if isinstance(st, ast.For) and isinstance(st.iter, ast.Name) and st.iter.id in passed and not st.orelse \
                    and isinstance(st.target, ast.Name) and len(st.body) == 1 and isinstance(st.body[0], ast.Expr) \
                    and isinstance(st.body[0].value, ast.Yield) and isinstance(st.body[0].value.value, ast.Name) \
                    and st.body[0].value.value.id == st.target.id:
                return True
        return False
    if isinstance(y, lib.MappedStream):
        raise Unsupported('pass-through stream is re-wrapped in map(): equivalence of wrapped streams is outside this contract')
    return False


def retained_in(env, target, skip=()):
    """names of local containers (lists / tuples / dicts, searched deeply) that still hold a reference to `target`"""
    from pyvc.api import PyList, SymList, PyDict
    out = []

    def holds(x, depth=0):
        if x is target:
            return True
        if depth > 6:
            return False
        if isinstance(x, (tuple, list)):
            return any(holds(y, depth + 1) for y in x)
        if isinstance(x, (PyList, SymList)):
            return any(holds(y, depth + 1) for y in x.items)
        if isinstance(x, PyDict):
            return any(holds(y, depth + 1) for y in x.d.values())
        return False
    e = env
    seen = set()
    while e is not None:
        for k, v in list(e.vars.items()):
            if k in seen or k in skip or v is target:
                continue
            seen.add(k)
            if holds(v):
                out.append(k)
        e = getattr(e, 'parent', None)
        if e is not None and getattr(e, 'is_module_env', False):
            break
    return out


def same_row_object(it, y, row):
    """True when the yielded row IS the input row object; a different dict may be an equal copy, which this obligation cannot
    tell from a wrong row without a content obligation -> UNDECIDED, not a violation"""
    from pyvc.api import Unsupported
    if y is row:
        return True
    raise Unsupported('a row is passed on as a different object: this contract states its content obligations on the input '
                      'object only')


def row_transducer(vc, relpath, qualpath, dotted, attr_path, spec_src, spec_fn, mk_args, loop_label, min_paths=3,
                   identity=None, spec_free=None, get_fn=None, tag='', inline=None, loops=None, rows_arg=None):
    """proof that a real generator refines a stateless row transducer:
         for row in rows: ... yield ...      ==   flat-map(step)   (per arbitrary row; snoc law)
    mk_args(it, rows) -> (args for the real function, extra args for the spec step after `row`).
    identity: True  -> every yielded row must be the input row object (in-place processors)
              False -> no yielded row may be the input row object (fresh dicts)
              None  -> not checked.
    Also: nothing yielded before/after the loop, input drained, no buffering (no Drain of the input)."""
    from pyvc.api import SpecModule, real_function, LoopSpec, check, cover, yields_match, yields_of, row_stream
    fk = vc.under_contract(relpath, qualpath)
    spec = SpecModule(spec_src)

    def thunk(it):
        f = get_fn(it) if get_fn else real_function(it, dotted, *attr_path)
        rows = row_stream(it, 'rows') if rows_arg is None else rows_arg(it)
        stream = rows if not hasattr(rows, 'stream') else rows.stream
        args, extra = mk_args(it, rows)
        sp = spec.bind(it, **(spec_free(it) if spec_free else {}))

        def at_start(it, env, elem):
            it.path.info['in_iter'] = True
            g = ghost_row(elem.snapshot(), elem)
            exp = run_spec(it, sp.attrs[spec_fn], [g] + list(extra))
            if exp.exc is not None:
                it.path.info['expect_exc'] = exp.exc.cls
            return exp, elem

        def at_end(it, env, cap, events):
            exp, elem = cap
            if exp.exc is not None:
                return
            check(it, 'step%s' % tag, yields_match(it, events, exp.value))
            ys = yields_of(events)
            # (object identity of the yielded rows is not part of any property: content is what `step` compares.  What does
            # matter is aliasing between the rows of ONE step: a consumer that keeps them must not see one overwrite another)
            if identity is False:
                objs = [id(y.obj) for y in ys]
                check(it, 'rows-of-one-step-are-distinct-objects%s' % tag, len(set(objs)) == len(objs))
            check(it, 'no-buffering%s' % tag, not [e for e in events if e.kind == 'Drain'])
            cover(it, 'iter-reachable%s' % tag)
        it.loops[loop_label] = LoopSpec(at_start=at_start, at_end=at_end,
                                        at_exit=lambda it, env: it.path.info.__setitem__('exit_mark', len(it.path.events)))
        for k, v in (loops or {}).items():
            it.loops[k] = v
        it.run_generator(it.call(f, args))
        evs = it.path.events
        n0 = it.path.info.get('exit_mark', 0)
        pulls = [i for i, e in enumerate(evs) if e.kind == 'Pull']
        pre = evs[:pulls[0]] if pulls else evs[:n0]
        check(it, 'pre-silent%s' % tag, not yields_of(pre))
        check(it, 'post-silent%s' % tag, not yields_of(evs[n0:]) if not pulls else True)
        check(it, 'drains%s' % tag, stream.drained is True)
        check(it, 'no-buffering-outside%s' % tag, not [e for e in evs if e.kind == 'Drain'])
    paths = vc.explore(fk, thunk, min_paths=min_paths, inline=inline)
    expect_no_raise_or_same(vc, fk, paths)
    return fk


def search_loop(any_term, cond_of, tag, state_unchanged=None, inv=None, keep=()):
    """LoopSpec for a search loop  `for x in xs: if c(x): <record>; break`  (pyvc proof rule, sound by induction):
       checked : a non-breaking iteration has not c(x) and leaves the state unchanged; a breaking one has c(x)
       assumed : after a break  ANY(xs, c)  holds;  after exhaustion  not ANY(xs, c)  holds.
    any_term(it, env) -> z3 Bool for any(c(x) for x in xs) (built by evaluating that expression);
    cond_of(it, env, x) -> z3 Bool c(x)."""
    import z3
    from pyvc.api import LoopSpec, check

    def at_start(it, env, x):
        return x

    def at_end(it, env, x, events):
        check(it, 'search-nonbreak-has-no-match[%s]' % tag, z3.Not(cond_of(it, env, x)))
        if state_unchanged is not None:
            check(it, 'search-nonbreak-keeps-state[%s]' % tag, state_unchanged(it, env, events))

    def at_break(it, env, x, events):
        check(it, 'search-break-only-on-match[%s]' % tag, cond_of(it, env, x))
        it.assume(any_term(it, env))

    def at_exit(it, env):
        it.assume(z3.Not(any_term(it, env)))
    return LoopSpec(at_start=at_start, at_end=at_end, at_break=at_break, at_exit=at_exit, inv=inv, keep=keep)


def havoc_mutable_scalars(it, inst, containers=False, memo_none=False):
    """object-history quantification: instance attributes holding scalars that some method other than __init__ assigns
    (self.x = .. / self.x += ..) are replaced by arbitrary values of the same sort, so that a method contract holds for
    every earlier use of the object, not only for a freshly constructed one"""
    import ast
    from pyvc.api import SV, IntS, StrS, BoolS
    from pyvc.values import ClassV
    names = set()
    seen = set()
    stack = [inst.cls]
    while stack:
        c = stack.pop()
        if not isinstance(c, ClassV) or c.name in seen:
            continue
        seen.add(c.name)
        stack.extend(c.bases)
        for mname, m in c.methods.items():
            if mname == '__init__' or not hasattr(m, 'node'):
                continue
            for n in ast.walk(m.node):
                tgt = None
                if isinstance(n, ast.AugAssign):
                    tgt = n.target
                elif isinstance(n, ast.Assign) and len(n.targets) == 1:
                    tgt = n.targets[0]
                if isinstance(tgt, ast.Attribute) and isinstance(tgt.value, ast.Name) and tgt.value.id == 'self':
                    names.add(tgt.attr)
    # containers held by the object that a method other than __init__ fills: their contents are unknown after an arbitrary
    # history (lookups may hit -- with an arbitrary stored value -- or miss)
    MUT = {'append', 'add', 'update', 'setdefault', 'pop', 'clear', 'extend', 'insert', 'remove', 'discard', 'popitem'}
    cnames = set()
    seen2 = set()
    stack = [inst.cls]
    while stack:
        c = stack.pop()
        if not isinstance(c, ClassV) or c.name in seen2:
            continue
        seen2.add(c.name)
        stack.extend(c.bases)
        for mname, m in c.methods.items():
            if mname == '__init__' or not hasattr(m, 'node'):
                continue
            for n in ast.walk(m.node):
                t = None
                if isinstance(n, ast.Subscript) and isinstance(n.ctx, (ast.Store, ast.Del)):
                    t = n.value
                elif isinstance(n, ast.Call) and isinstance(n.func, ast.Attribute) and n.func.attr in MUT:
                    t = n.func.value
                if isinstance(t, ast.Attribute) and isinstance(t.value, ast.Name) and t.value.id == 'self':
                    cnames.add(t.attr)
    out = []
    if containers:
        from pyvc.api import PyDict, SetV
        for a in sorted(cnames):
            v = inst.attrs.get(a)
            if isinstance(v, PyDict) and not v.d:
                v.history = it.fresh('hist_' + a, IntS)
                out.append(a)
            elif isinstance(v, SetV):
                # a set that methods fill (remembered hashes, names seen): arbitrary contents after an earlier use
                v.history = it.fresh('hist_' + a, IntS)
                if v.elem_sort is not None:
                    v.arr = it.fresh('hist_%s.set' % a, v.arr.sort())
                out.append(a)
    def class_level_none(a):
        stack2, seen3 = [inst.cls], set()
        while stack2:
            c = stack2.pop()
            if not isinstance(c, ClassV) or c.name in seen3:
                continue
            seen3.add(c.name)
            if a in c.attrs:
                return c.attrs[a] is None
            stack2.extend(c.bases)
        return False
    for a in sorted(names):
        v = inst.attrs.get(a)
        if a not in inst.attrs and memo_none and class_level_none(a):
            inst.attrs[a] = None          # a class-level `slot = None` default that methods fill per instance
        if isinstance(v, bool):
            inst.attrs[a] = SV(it.fresh('obj_' + a, BoolS))
        elif isinstance(v, int):
            inst.attrs[a] = SV(it.fresh('obj_' + a, IntS))
        elif isinstance(v, str):
            inst.attrs[a] = SV(it.fresh('obj_' + a, StrS))
        elif v is None and a in inst.attrs and memo_none:
            # a slot initialised to None and filled by some method (a cache / memo): after an arbitrary history it holds
            # None or any value
            from pyvc.api import Cell
            inst.attrs[a] = SV(it.fresh('obj_' + a, Cell))
            it.path.info.setdefault('history_slots', []).append(a)
            it.path.info.setdefault('needs_invariant', 'the object has a memo slot (%s) whose content after earlier calls is arbitrary' % a)
        else:
            continue
        out.append(a)
    # ... and the rest of the process has run meanwhile (process-wide dicts may have been written by other objects)
    from pyvc.api import interference
    interference(it)
    return out
