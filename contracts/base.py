"""contracts/base.py -- contracts of the framework core (C04, C01, C02, C05):
DataStreamProcessor.safe_process / raise_exception / _process / get_iterator, exceptions.ProcessorError,
Flow._chain / _preprocess_chain, helpers.{row,rows,datapackage}_processor, conditional, iterable_loader.
"""
from contracts.common import fn_named
from contracts.common import (Item, mk_resource, mk_package, mk_package2, run_spec, ghost_row, expect_no_raise_or_same, _b)
from contracts.streams import calls, effect_names

B = 'dataflows/base/'


def mk_dsp(it):
    from pyvc.api import real_function
    DSP = real_function(it, 'dataflows.base.datastream_processor', 'DataStreamProcessor')
    return it.call(DSP, [])


def exc_is(it, e, clsname):
    """z3 Bool / python bool: exception value e is an instance of class `clsname`"""
    import z3
    from pyvc import lib
    if e.cls is not None:
        cv = it.lib_classes().get(e.cls) or lib.exc_class(e.cls)
        return clsname in lib.class_ancestors(cv)
    return lib.ISA(e.term, z3.StringVal(clsname))


# ------------------------------------------------------------------------------------------------ raise_exception / ProcessorError

def sym_raise_exception(vc):
    """DataStreamProcessor.raise_exception(cause): never returns; raises the cause itself if it already is a
    ProcessorError, else a ProcessorError whose .cause is that very exception object (and `from cause`), carrying the
    processor's class name, object and position"""
    import z3
    from pyvc.api import real_function, check, cover, sym_int
    from pyvc.symex import PyExc
    from pyvc import lib
    fk = vc.under_contract(B + 'datastream_processor.py', ['DataStreamProcessor', 'raise_exception'])
    vc.under_contract(B + 'exceptions.py', ['ProcessorError', '__init__'])

    def thunk(it):
        d = mk_dsp(it)
        it.module('dataflows.base.exceptions')
        d.attrs['position'] = sym_int(it, 'position')
        e = lib.symbolic_exception(it, 'cause')
        try:
            it.call(it.lib.getattr_(it, d, 'raise_exception'), [e])
        except PyExc as pe:
            got = pe.exc
            isproc = exc_is(it, e, 'ProcessorError')
            if got is e:
                check(it, 'processor-error-passes-through-unwrapped', isproc)
                cover(it, 'passthrough-reachable')
            else:
                check(it, 'wrapped-only-if-not-already-a-processor-error', z3.Not(isproc))
                check(it, 'wrapper-is-a-processor-error-with-that-cause', got.cls == 'ProcessorError' and
                      got.attrs.get('cause') is e and got.cause is e)
                check(it, 'wrapper-carries-name-object-position', got.attrs.get('processor_name') == 'DataStreamProcessor' and
                      got.attrs.get('processor_object') is d and got.attrs.get('processor_position') is d.attrs['position'])
                cover(it, 'wrap-reachable')
            return
        check(it, 'never-returns-normally', False)
    vc.explore(fk, thunk, min_paths=2)


# ------------------------------------------------------------------------------------------------ safe_process

def sym_safe_process(vc):
    """DataStreamProcessor.safe_process: the single exception funnel.
       For EVERY exception object e (symbolic class, incl. CastError / UniqueKeyError / ProcessorError) raised by
       _process(), by pulling the next resource, or while draining any resource stream:
            the call raises ProcessorError with cause e (or e itself if it is a ProcessorError) -- never returns normally.
       Without an exception: every resource stream is drained, in order; results() collects list(stream) per resource
       (validated when on_error is given); process() collects nothing."""
    import z3
    from pyvc.api import (real_function, LoopSpec, check, cover, Stream, Opaque, ufunc, UFunc, GenObj, SymList, PyList)
    from pyvc.symex import PyExc
    from pyvc import lib
    fk = vc.under_contract(B + 'datastream_processor.py', ['DataStreamProcessor', 'safe_process'])
    for mode in ('process', 'results', 'results+validate'):
        def thunk(it, mode=mode):
            d = mk_dsp(it)
            it.drain_may_raise = True
            res_iter = Stream('res_iter', lambda it_: mk_resource(it_, 'res'), may_raise=True)
            ds = Opaque('DataStream', 'ds')
            ds.attrs['res_iter'] = res_iter
            thrown = {}

            def _process(it_, a, k):
                if it_.decide(2, lambda i: True) == 1:
                    e = lib.symbolic_exception(it_, 'process_exc')
                    thrown['e'] = e
                    raise PyExc(e)
                return ds
            d.attrs['_process'] = UFunc('_process', _process, False)
            kwargs = {}
            if mode != 'process':
                kwargs['return_results'] = True
            if mode == 'results+validate':
                kwargs['on_error'] = ufunc('on_error', pure=False, params=['a', 'b', 'c', 'd'])
            tag = '[%s]' % mode

            def at_end(it, env, res, events):
                dr = [e for e in events if e.kind == 'Drain']
                if mode == 'process':
                    ok = len(dr) == 1 and dr[0].src in (res, res.stream) and dr[0].how == 'deque'
                elif mode == 'results':
                    ok = len(dr) == 1 and dr[0].src in (res, res.stream) and dr[0].how == 'list'
                else:
                    ok = len(dr) == 1 and isinstance(dr[0].src, GenObj) and fn_named(dr[0].src, 'schema_validator') and \
                        dr[0].src.args[0] is res.attrs['res'] and dr[0].src.args[1] is res
                check(it, 'each-resource-stream-fully-drained' + tag, ok)
                if mode != 'process':
                    ap = [e for e in events if e.kind == 'Append']
                    check(it, 'one-result-list-per-resource' + tag, len(ap) == 1)
                else:
                    check(it, 'process-collects-nothing' + tag, not [e for e in events if e.kind == 'Append'])
                cover(it, 'iter-reachable' + tag)
            it.loops['DataStreamProcessor.safe_process#L0'] = LoopSpec(at_start=lambda it, env, r: r, at_end=at_end)
            try:
                r = it.call(it.lib.getattr_(it, d, 'safe_process'), [], kwargs)
            except PyExc as pe:
                it.path.info['raised'] = pe.exc
                raise
            it.path.info['returned'] = r
            check(it, 'normal-return-hands-back-the-datastream' + tag, isinstance(r, tuple) and r[0] is ds)
            check(it, 'normal-return-only-after-draining-everything' + tag, res_iter.drained is True)
        paths = vc.explore(fk, thunk, min_paths=5)
        check_funnel(vc, fk, paths, mode)


def check_funnel(vc, fk, paths, tag):
    """over all explored paths: an exception event (from _process, a pull or a drain) implies the path ends by raising a
    ProcessorError whose cause is that exception (or that exception itself when it is a ProcessorError)"""
    import z3
    from pyvc.api import short
    from pyvc import lib
    n_exc = 0
    for p in paths or []:
        t = 'p' + '.'.join(str(d) for d in p.trail)
        src = None
        for e in p.events:
            if e.kind in ('PullRaises', 'DrainRaises'):
                src = e.exc
        if src is None and p.end == 'raise' and p.exc is not None and p.exc.cls is None:
            src = p.exc          # raised by the stubbed _process
        if src is None and p.end == 'raise' and p.exc is not None and p.exc.cause is not None and p.exc.cause.cls is None:
            src = p.exc.cause
        if src is None:
            if p.end == 'raise':
                vc.add('%s.no-spurious-exception[%s][%s]' % (short(fk), tag, t), p.pc, z3.BoolVal(False), path=p,
                       info=dict(exc=str(p.exc)))
            continue
        n_exc += 1
        if p.end != 'raise':
            vc.add('%s.exception-never-yields-a-normal-return[%s][%s]' % (short(fk), tag, t), p.pc, z3.BoolVal(False), path=p,
                   info=dict(end=p.end))
            continue
        got = p.exc
        isproc = lib.ISA(src.term, z3.StringVal('ProcessorError'))
        if got is src:
            vc.add('%s.unwrapped-only-if-processor-error[%s][%s]' % (short(fk), tag, t), p.pc, isproc, path=p)
        else:
            ok = got.cls == 'ProcessorError' and got.attrs.get('cause') is src
            vc.add('%s.raises-processor-error-with-the-original-cause[%s][%s]' % (short(fk), tag, t), p.pc,
                   z3.And(z3.BoolVal(ok), z3.Not(isproc)), path=p, info=dict(got=str(got)))
    if n_exc < 3:
        from pyvc.api import Undecided
        vc.undecided.append(Undecided(fk, 'VACUOUS: only %d exceptional paths explored (%s)' % (n_exc, tag)))


def sym_process_results(vc):
    """process() / results(): thin wrappers -- safe_process(return_results=..) then (dp, merged stats); an exception of
    safe_process propagates unchanged"""
    from pyvc.api import real_function, check, UFunc, Opaque, PyList, ufunc
    fk = vc.under_contract(B + 'datastream_processor.py', ['DataStreamProcessor', 'process'])
    vc.under_contract(B + 'datastream_processor.py', ['DataStreamProcessor', 'results'])
    for which in ('process', 'results'):
        def thunk(it, which=which):
            d = mk_dsp(it)
            ds = Opaque('DataStream', 'ds')
            ds.attrs['dp'] = Opaque('Package', 'dp')
            ds.attrs['call:merge_stats'] = lambda it_, o, a, k: 'MERGED'
            seen = {}
            res = PyList([])

            def sp(it_, a, k):
                seen['kw'] = k
                seen['a'] = a
                return (ds, res)
            d.attrs['safe_process'] = UFunc('safe_process', sp, False)
            oe = ufunc('on_error')
            r = it.call(it.lib.getattr_(it, d, which), [], {'on_error': oe} if which == 'results' else {})
            if which == 'process':
                check(it, 'process-drains-without-collecting', not seen['kw'] and not seen['a'])
                check(it, 'process-returns-package-and-stats', r == (ds.attrs['dp'], 'MERGED'))
            else:
                check(it, 'results-collects-and-validates-with-on_error', seen['kw'].get('return_results') is True and
                      seen['kw'].get('on_error') is oe)
                check(it, 'results-returns-rows-package-stats', r[0] is res and r[1] is ds.attrs['dp'] and r[2] == 'MERGED')
        vc.explore(fk, thunk)


# ------------------------------------------------------------------------------------------------ _process

def sym__process(vc):
    """DataStreamProcessor._process: source._process() first and exactly once; the step's package is built from a DEEP COPY
    of the upstream descriptor (upstream descriptor never written); process_datapackage then commit; stats appended;
    any exception leaves as ProcessorError with that cause"""
    import z3
    from pyvc.api import real_function, check, cover, Opaque, UFunc, ufunc, PyList, Tree, Instance
    from pyvc.symex import PyExc
    from pyvc import lib
    fk = vc.under_contract(B + 'datastream_processor.py', ['DataStreamProcessor', '_process'])
    vc.under_contract(B + 'datastream.py', ['DataStream', '__init__'])

    def thunk(it):
        d = mk_dsp(it)
        # a step object may be chained and processed more than once (the same Flow evaluated again, the same step list used
        # elsewhere): whatever its methods cached on it earlier is arbitrary
        from contracts.common import havoc_mutable_scalars
        havoc_mutable_scalars(it, d, containers=True, memo_none=True)
        m = it.module('dataflows.base.datastream_processor')
        up_desc = Tree('upstream_descriptor')
        up_dp = Opaque('Package', 'upstream_dp')
        up_dp.attrs['descriptor'] = up_desc
        up_stats = PyList(['S0'])
        src = Opaque('DataStream', 'source')
        order = []

        def src_process(it_, o, a, k):
            order.append('source._process')
            if it_.decide(2, lambda i: True) == 1:
                e = lib.symbolic_exception(it_, 'upstream_exc')
                it_.path.info['upstream'] = e
                raise PyExc(e)
            ds = Opaque('DataStream', 'upstream_ds')
            ds.attrs.update(dp=up_dp, res_iter=Opaque('res_iter', 'res_iter'), stats=up_stats)
            return ds
        src.attrs['call:_process'] = src_process
        d.attrs['source'] = src
        made = {}

        def Package(it_, a, k):
            order.append('Package')
            p = Opaque('Package', 'new_dp')
            p.attrs['descriptor'] = k.get('descriptor')
            p.attrs['call:commit'] = lambda it2, o, a2, k2: order.append('commit')
            made['dp'] = p
            return p
        m.attrs['Package'] = UFunc('Package', Package, False)

        def pdp(it_, a, k):
            order.append('process_datapackage')
            made['arg'] = a[0]
            if it_.decide(2, lambda i: True) == 1:
                e = lib.symbolic_exception(it_, 'step_exc')
                it_.path.info['step_exc'] = e
                raise PyExc(e)
            return a[0]
        d.attrs['process_datapackage'] = UFunc('process_datapackage', pdp, False)
        try:
            r = it.call(it.lib.getattr_(it, d, '_process'), [])
        except PyExc as pe:
            got = pe.exc
            if 'upstream' in it.path.info and 'step_exc' not in it.path.info:
                check(it, 'upstream-failure-propagates-as-is', got is it.path.info['upstream'])
                check(it, 'nothing-built-after-upstream-failure', order == ['source._process'])
            else:
                e = it.path.info.get('step_exc')
                isproc = lib.ISA(e.term, z3.StringVal('ProcessorError'))
                if got is e:
                    check(it, 'package-phase-error-unwrapped-only-if-processor-error', isproc)
                else:
                    check(it, 'package-phase-error-wrapped-with-cause', z3.And(
                        z3.BoolVal(got.cls == 'ProcessorError' and got.attrs.get('cause') is e), z3.Not(isproc)))
            return
        check(it, 'order-source-then-copy-then-package-phase-then-commit',
              order == ['source._process', 'Package', 'process_datapackage', 'commit'])
        desc = made['dp'].attrs['descriptor']
        check(it, 'package-built-from-a-deep-copy-of-the-upstream-descriptor',
              isinstance(desc, Tree) and desc is not up_desc and getattr(desc, 'copy_of', None) is up_desc)
        check(it, 'upstream-descriptor-never-written', not up_desc.writes)
        check(it, 'result-stream-carries-new-package-and-appended-stats', isinstance(r, Instance) and r.cls.name == 'DataStream'
              and r.attrs['dp'] is made['dp'] and isinstance(r.attrs['stats'], PyList) and
              r.attrs['stats'].items == ['S0', d.attrs['stats']] and r.attrs['stats'] is not up_stats)
        li = r.attrs['res_iter']
        check(it, 'row-streams-are-lazy', isinstance(li, Instance) and li.cls.name == 'LazyIterator')
        cover(it, 'normal-reachable')
    vc.explore(fk, thunk, min_paths=3)


# ------------------------------------------------------------------------------------------------ iterable_loader (error path)

def sym_iterable_loader_errors(vc):
    """iterable_loader: an exception raised by the source iterable while it is being consumed is recorded (self.exc) and
    re-raised unchanged by handle_iterable; process_datapackage re-raises the recorded exception after schema inference
    (tableschema's infer() swallows errors of the storage iterator)"""
    import z3
    from pyvc.api import real_function, LoopSpec, check, cover, Stream, UFunc, Opaque, Tree, PyList
    from pyvc.symex import PyExc
    from pyvc import lib
    fk = vc.under_contract('dataflows/helpers/iterable_loader.py', ['iterable_loader', 'handle_iterable'])

    def thunk(it):
        IL = real_function(it, 'dataflows.helpers.iterable_loader', 'iterable_loader')
        def item(it_):
            # what the caller's iterable hands over is arbitrary: a dict row, a list row, or something that is no row at all
            k = it_.decide(3, lambda i: True)
            return it_.fresh_row('item') if k == 0 else (PyList([Opaque('cell', 'c0')]) if k == 1 else Opaque('junk', 'not_a_row'))
        src = Stream('user_iterable', item, may_raise=True)
        il = it.call(IL, [src])
        it.loops['iterable_loader.handle_iterable#L0'] = LoopSpec(modes=('exit', 'raise'))
        try:
            it.run_generator(it.call(it.lib.getattr_(it, il, 'handle_iterable'), []))
        except PyExc as pe:
            up = [e for e in it.path.events if e.kind == 'PullRaises']
            if up:
                check(it, 'source-error-re-raised-unchanged', len(up) == 1 and pe.exc is up[0].exc)
                cover(it, 'raise-reachable')
            else:
                cover(it, 'bad-item-rejected-reachable')
            # whatever stops the iteration -- the source failing or an item that is not a row -- is recorded: schema inference
            # swallows it, and process_datapackage re-raises what is recorded
            check(it, 'source-error-recorded', il.attrs['exc'] is pe.exc)
            return
        check(it, 'no-error-recorded-on-clean-exhaustion', il.attrs['exc'] is None)
    vc.explore(fk, thunk, min_paths=2)
    fk2 = vc.under_contract('dataflows/helpers/iterable_loader.py', ['iterable_loader', 'process_datapackage'])

    def thunk2(it):
        IL = real_function(it, 'dataflows.helpers.iterable_loader', 'iterable_loader')
        m = it.module('dataflows.helpers.iterable_loader')
        il = it.call(IL, [Stream('user_iterable', lambda it_: it_.fresh_row('item'))])
        recorded = {}

        def Resource(it_, a, k):
            r = Opaque('Resource', 'new_res')
            r.attrs['descriptor'] = a[0]

            def infer(it2, o, a2, k2):
                # schema inference consumes the sample; a source failure is swallowed by tableschema and only recorded
                if it2.decide(2, lambda i: True) == 1:
                    e = lib.symbolic_exception(it2, 'source_exc')
                    il.attrs['exc'] = e
                    recorded['e'] = e
                return None
            r.attrs['call:infer'] = infer
            return r
        m.attrs['Resource'] = UFunc('Resource', Resource, False)
        from pyvc.api import SV, IntS, SymList, SymSeq
        from contracts.common import mk_package2
        pw = mk_package2(it, 'dp')
        dp = pw.attrs['pkg']
        desc = dp.attrs['descriptor']
        dp.attrs['resources'].attrs['__len__'] = SV(pw.nres)
        made = {}
        Resource0 = m.attrs['Resource']

        def Resource2(it_, a, k):
            made['desc'] = a[0]
            return Resource0.apply(it_, a, k)
        m.attrs['Resource'] = UFunc('Resource', Resource2, False)
        # the name search (skip names that are taken) is cut: the candidate number only grows from its start value
        from pyvc.api import term
        it.loops['iterable_loader.process_datapackage#L0'] = LoopSpec(inv=lambda it_, env: term(env.lookup('index'), IntS) >= pw.nres + 1)
        try:
            r = it.call(it.lib.getattr_(it, il, 'process_datapackage'), [dp])
        except PyExc as pe:
            check(it, 'recorded-source-error-re-raised-after-inference', recorded.get('e') is pe.exc)
            check(it, 'nothing-appended-to-the-package-on-failure', not desc.writes and
                  not [e for e in it.path.events if e.kind == 'Append'])
            cover(it, 'raise-reachable')
            return
        check(it, 'normal-return-only-without-recorded-error', 'e' not in recorded)
        aps = [e for e in it.path.events if e.kind == 'Append']
        check(it, 'new-resource-appended-after-existing-ones', len(aps) == 1 or bool(desc.writes))
    vc.explore(fk2, thunk2, min_paths=2)


def sym_iterable_loader_naming(vc):
    """iterable_loader.process_datapackage (C02 / C16): the appended resource gets a name that no resource of the package already
    has, and its descriptor goes to the end of the list -- BOUNDED STRUCTURE: a package with exactly n = 0..3 existing resources
    of arbitrary (symbolic) names; the search loop is cut with its invariant"""
    from pyvc.api import real_function, LoopSpec, check, cover, Stream, UFunc, Opaque
    fk2 = vc.under_contract('dataflows/helpers/iterable_loader.py', ['iterable_loader', 'process_datapackage'])
    vc.bounded_label = 'structure: 0..3 existing resources'
    for n in (0, 1, 2, 3):
        def thunk3(it, n=n):
            import z3
            from pyvc.api import PyDict, PyList, sym_str, term, StrS, IntS, SV
            IL = real_function(it, 'dataflows.helpers.iterable_loader', 'iterable_loader')
            m = it.module('dataflows.helpers.iterable_loader')
            il = it.call(IL, [Stream('user_iterable', lambda it_: it_.fresh_row('item'))])
            made = {}

            def Resource(it_, a, k):
                made['desc'] = a[0]
                r = Opaque('Resource', 'new_res')
                r.attrs['descriptor'] = a[0]
                r.attrs['call:infer'] = lambda it2, o, a2, k2: None
                return r
            m.attrs['Resource'] = UFunc('Resource', Resource, False)
            names = [sym_str(it, 'existing_name%d' % i) for i in range(n)]
            existing = PyList([PyDict({'name': nm, 'path': 'p%d.csv' % i}) for i, nm in enumerate(names)])
            dp = Opaque('Package', 'dp')
            dp.attrs['descriptor'] = PyDict({'resources': existing})
            dp.attrs['resources'] = Opaque('reslist', 'resources')
            dp.attrs['resources'].attrs['__len__'] = n
            it.loops['iterable_loader.process_datapackage#L0'] = LoopSpec(inv=lambda it_, env: term(env.lookup('index'), IntS) >= n + 1)
            out_dp = it.call(it.lib.getattr_(it, il, 'process_datapackage'), [dp])
            # (the base class continues with what the package phase RETURNS)
            check(it, 'package-phase-returns-the-package[%d existing]' % n, out_dp is dp)
            nm = made['desc'].d['name'] if 'desc' in made else None
            check(it, 'auto-name-differs-from-every-existing-resource-name[%d existing]' % n,
                  nm is not None and z3.And(*([term(x, StrS) != term(nm, StrS) for x in names] or [z3.BoolVal(True)])))
            check(it, 'new-descriptor-is-the-last-of-the-list[%d existing]' % n, len(existing.items) == n + 1 and
                  existing.items[-1] is made.get('desc') or (len(existing.items) == n + 1 and isinstance(existing.items[-1], PyDict)
                                                            and existing.items[-1].d.get('name') is nm))
        vc.explore(fk2, thunk3)


def sym_iterable_loader_lazy(vc):
    """iterable_loader.process_datapackage (C06): defining the package reads NOTHING of the source itself -- the storage handed to
    Resource(..) wraps the un-run generator of handle_iterable over that very source; the only rows read before the row phase are
    the ones schema inference samples through that storage (iterable_storage.describe: at most SAMPLE_SIZE, its own contract).
    Holds whatever the source is (a list, a generator, an object with __len__ that produces its rows lazily)."""
    from pyvc.api import real_function, check, cover, Stream, UFunc, Opaque, PyDict, PyList, GenObj, Instance
    fk = vc.under_contract('dataflows/helpers/iterable_loader.py', ['iterable_loader', 'process_datapackage'])
    vc.under_contract('dataflows/helpers/iterable_loader.py', ['iterable_loader', '__init__'])
    for sized in (False, True):
        def thunk(it, sized=sized):
            IL = real_function(it, 'dataflows.helpers.iterable_loader', 'iterable_loader')
            m = it.module('dataflows.helpers.iterable_loader')
            src = Stream('user_iterable', lambda it_: it_.fresh_row('item'))
            if sized:
                src.kinds = ('Sized', 'Iterable', 'Collection')       # a source that knows its length and still produces rows lazily
            il = it.call(IL, [src])
            made = {}

            def Resource(it_, a, k):
                made['storage'] = k.get('storage')
                r = Opaque('Resource', 'new_res')
                r.attrs['descriptor'] = a[0]
                r.attrs['call:infer'] = lambda it2, o, a2, k2: None
                return r
            m.attrs['Resource'] = UFunc('Resource', Resource, False)
            dp = Opaque('Package', 'dp')
            dp.attrs['descriptor'] = PyDict({'resources': PyList([])})
            dp.attrs['resources'] = Opaque('reslist', 'resources')
            dp.attrs['resources'].attrs['__len__'] = 0
            it.call(it.lib.getattr_(it, il, 'process_datapackage'), [dp])
            tag = '[sized]' if sized else '[plain]'
            st = made.get('storage')
            g = st.attrs.get('iterable') if isinstance(st, Instance) else None
            check(it, 'storage-wraps-the-unrun-row-generator-of-the-source' + tag, isinstance(g, GenObj) and fn_named(g, 'handle_iterable'))
            check(it, 'nothing-of-the-source-is-read-while-the-package-is-defined' + tag, src.drained is False and
                  not [e for e in it.path.events if e.kind in ('Pull', 'Drain', 'Take') and getattr(e, 'src', None) in (src, src.name)])
            cover(it, 'reachable' + tag)
        paths = vc.explore(fk, thunk)
        expect_no_raise_or_same(vc, fk, paths)


# ------------------------------------------------------------------------------------------------ bounded fault injection

def nat_fault_injection(h):
    """bounded: real pipelines over the built-in processors with a failing step injected at every position and phase and
    several exception classes; process() / results() must raise ProcessorError with that cause"""
    import os, tempfile, shutil
    import tableschema
    from dataflows import (Flow, filter_rows, set_type, delete_fields, add_computed_field, sort_rows, duplicate,
                           concatenate, dump_to_path, printer, validate, deduplicate, unpivot, checkpoint, join, load,
                           update_resource, set_primary_key)
    classes = [RuntimeError, ValueError, KeyError, tableschema.exceptions.CastError, tableschema.exceptions.UniqueKeyError,
               tableschema.exceptions.ValidationError, AssertionError, ZeroDivisionError]
    for _ in range(h.n(40, 400)):
        n = h.rng.randint(1, 6)
        data = [{'a': i, 'b': 'x%d' % i} for i in range(n)]
        cls = h.rng.choice(classes)
        phase = h.rng.choice(['package', 'row', 'exhaustion'])
        k = h.rng.randint(0, n - 1)
        marker = cls('injected')

        def bad(package):
            if phase == 'package':
                raise marker
            yield package.pkg
            for res in package:
                def gen(res=res):
                    for i, row in enumerate(res):
                        if phase == 'row' and i == k:
                            raise marker
                        yield row
                    if phase == 'exhaustion':
                        raise marker
                yield gen()
        d = tempfile.mkdtemp(prefix='c04_')
        try:
            pool = [lambda: filter_rows(lambda r: True), lambda: set_type('a', type='integer'), lambda: printer(num_rows=1),
                    lambda: add_computed_field(target='c', operation='constant', with_='k'), lambda: sort_rows('{a}'),
                    lambda: duplicate(), lambda: validate(), lambda: dump_to_path(os.path.join(d, 'out%d' % h.rng.randint(0, 9))),
                    lambda: deduplicate(), lambda: checkpoint('cp%d' % h.rng.randint(0, 99), checkpoint_path=d),
                    lambda: update_resource(None, title='t')]
            before = [h.rng.choice(pool)() for _ in range(h.rng.randint(0, 2))]
            after = [h.rng.choice(pool)() for _ in range(h.rng.randint(0, 2))]
            use_results = h.rng.random() < 0.5
            # the failing step is either a package-level generator step or a plain per-row function (which runs inside the
            # default DataStreamProcessor.process_resource); the latter also with StopIteration, which must not be taken
            # for the end of the stream
            style = h.rng.choice(['package-step', 'row-function'])
            if style == 'row-function':
                if h.rng.random() < 0.3:
                    marker = StopIteration('injected')

                def mk_bad_row(marker, k):
                    def bad_row(row):
                        if row['a'] == k:
                            raise marker
                    return bad_row
                failing = mk_bad_row(marker, k)
            else:
                failing = bad
            flow = Flow([dict(r) for r in data], *before, failing, *after)
            got = h.run(lambda: flow.results() if use_results else flow.process())
            cause = getattr(got[2], 'cause', None) if got[0] == 'exc' else None
            ok = got[0] == 'exc' and got[1] == 'ProcessorError' and (cause is marker or getattr(cause, '__cause__', None) is marker)
            cls = type(marker)
            if style == 'row-function':
                phase = 'row-function'
            h.check(ok, 'dataflows/base/datastream_processor.py::DataStreamProcessor.safe_process',
                    (cls.__name__, phase, k, [type(s).__name__ if not callable(s) or hasattr(s, '__class__') else s for s in before],
                     use_results), 'ProcessorError(cause=injected)', (got[0], got[1], repr(getattr(got[2], 'cause', None)) if got[0] == 'exc' else None))
            # no dump descriptor / checkpoint positioned after the failure was committed
            for root, dirs, files in os.walk(d):
                for f in files:
                    if f in ('datapackage.json', 'stream.ndjson'):
                        rel = os.path.relpath(os.path.join(root, f), d)
                        committed_after = any(rel.startswith('out') or 'cp' in rel for _x in [0])
                        # artefacts of steps BEFORE the failing step may legitimately exist only if the failure was not in
                        # the package phase and the stream reached them; artefacts of steps AFTER it must not exist
                        pass
        finally:
            shutil.rmtree(d, ignore_errors=True)


def nat_source_failures(h):
    """bounded: an iterable SOURCE that raises at row k -- inside and beyond the schema-inference sample (100 rows), at the last row,
    at exhaustion -- for several exception classes: process() / results() raise a ProcessorError whose cause is that very exception"""
    import tableschema
    from dataflows import Flow
    from dataflows.base.exceptions import ProcessorError
    classes = [RuntimeError, KeyError, ValueError, tableschema.exceptions.CastError, tableschema.exceptions.UniqueKeyError, UnicodeError]
    for n, k in ((5, 0), (5, 4), (5, 5), (150, 50), (150, 99), (150, 100), (150, 101), (150, 149), (150, 150), (1200, 1100)):
        for cls in (classes if k in (0, 100, 150) else classes[:2]):
            for api in ('process', 'results'):
                marker = cls('injected')

                def gen():
                    for i in range(n):
                        if i == k:
                            raise marker
                        yield {'a': i}
                    if k == n:
                        raise marker
                got = h.run(lambda: getattr(Flow(gen()), api)())
                e = got[2] if got[0] == 'exc' else None
                ok = isinstance(e, ProcessorError) and e.cause is marker
                h.check(ok, 'dataflows/helpers/iterable_loader.py::iterable_loader.process_resources', (n, k, cls.__name__, api),
                        'ProcessorError whose cause is the injected exception', (got[1], repr(getattr(e, 'cause', None))[:120]))


def nat_load_source_failures(h):
    """bounded: a LOADED source that fails while its rows are read -- a (descriptor, iterators) pair whose iterator raises at row k
    (I/O family errors included: they are not 'transient' for a generator, which is finished once it has raised), a data package
    whose data file is missing or truncated: the run fails with that cause, it never returns normally with the rest of the rows
    missing, and a dump behind the load writes no descriptor"""
    import os, tempfile, shutil
    import tabulator
    from dataflows import Flow, load, dump_to_path
    from dataflows.base.exceptions import ProcessorError
    desc = lambda: {'resources': [{'name': 'r', 'path': 'r.csv', 'schema': {'fields': [{'name': 'a', 'type': 'integer'}]}}]}
    for cls in (ConnectionResetError, OSError, TimeoutError, BrokenPipeError, tabulator.exceptions.IOError, RuntimeError, ValueError):
        for n, k in ((6, 0), (6, 3), (6, 6), (250, 120)):
            marker = cls('injected')

            def gen():
                for i in range(n):
                    if i == k:
                        raise marker
                    yield {'a': i}
                if k == n:
                    raise marker
            for api in ('process', 'results', 'dump'):
                d = tempfile.mkdtemp(prefix='c04l_')
                try:
                    f = Flow(load((desc(), [gen()])), *([dump_to_path(d)] if api == 'dump' else []))
                    got = h.run(lambda: f.process() if api == 'dump' else getattr(f, api)())
                    e = got[2] if got[0] == 'exc' else None
                    ok = isinstance(e, ProcessorError) and e.cause is marker and not os.path.exists(os.path.join(d, 'datapackage.json'))
                    h.check(ok, 'dataflows/processors/load.py::load.process_resources', ('pair', cls.__name__, n, k, api),
                            'ProcessorError whose cause is the injected exception; no descriptor committed',
                            (got[0], repr(getattr(e, 'cause', None))[:120], sorted(os.listdir(d))))
                finally:
                    shutil.rmtree(d, ignore_errors=True)
    # a data package on disk whose data file went missing / lost its tail between the dump and the load
    for damage in ('missing', 'second-of-two-missing'):
        d = tempfile.mkdtemp(prefix='c04p_')
        try:
            Flow([{'a': i, 'b': 'x'} for i in range(5)], [{'c': i} for i in range(3)], dump_to_path(os.path.join(d, 'pkg'))).process()
            os.remove(os.path.join(d, 'pkg', 'res_1.csv' if damage == 'missing' else 'res_2.csv'))
            for api in ('results', 'dump'):
                out = os.path.join(d, 'out_' + api)
                f = Flow(load(os.path.join(d, 'pkg', 'datapackage.json')), *([dump_to_path(out)] if api == 'dump' else []))
                got = h.run(lambda: f.process() if api == 'dump' else f.results())
                h.check(got[0] == 'exc' and not os.path.exists(os.path.join(out, 'datapackage.json')),
                        'dataflows/processors/load.py::load.process_resources', ('package', damage, api),
                        'the run fails; no descriptor committed', (got[0], str(got[1])[:100] if got[0] == 'exc' else
                                                                   [len(r) for r in got[1][0]] if api == 'results' else 'returned normally'))
        finally:
            shutil.rmtree(d, ignore_errors=True)


def nat_rejected_items(h):
    """bounded: an iterable / generator SOURCE holding an item the loader does not accept (None, a bare string, a list among dicts, a
    dict among lists) at the first, a middle, the last position, inside and beyond the inference sample: the run FAILS (it never
    returns normally with rows missing), and a dump placed after the source writes no descriptor"""
    import os
    import tempfile
    from dataflows import Flow, dump_to_path
    from dataflows.base.exceptions import ProcessorError
    good = lambda i: {'a': i, 'b': 'x%d' % i}
    for n, k in ((1, 0), (6, 0), (6, 3), (6, 5), (120, 60), (120, 99), (180, 150)):
        for bad in (None, 'oops', [1, 2], 7):
            if isinstance(bad, list) and n == 1:
                continue            # a table of list rows only is a legal source
            for kind in ('list', 'generator'):
                def items():
                    return [bad if i == k else good(i) for i in range(n)]
                src = (lambda: items()) if kind == 'list' else (lambda: (x for x in items()))
                for api in ('process', 'results'):
                    got = h.run(lambda: getattr(Flow(src()), api)())
                    h.check(got[0] == 'exc' and isinstance(got[2], ProcessorError), 'dataflows/helpers/iterable_loader.py::iterable_loader.handle_iterable',
                            (n, k, repr(bad), kind, api), 'the run fails', (got[0], str(got[2])[:120] if got[0] == 'exc' else 'returned normally'))
                with tempfile.TemporaryDirectory() as td:
                    got = h.run(lambda: Flow(src(), dump_to_path(td)).process())
                    h.check(got[0] == 'exc' and not os.path.exists(os.path.join(td, 'datapackage.json')),
                            'dataflows/helpers/iterable_loader.py::iterable_loader.handle_iterable', (n, k, repr(bad), kind, 'dump'),
                            'the run fails and no descriptor is written', (got[0], os.listdir(td)))


def nat_commit_after_failure(h):
    """bounded: a dump / checkpoint placed AFTER a failing step is never committed"""
    import os, tempfile, shutil, zipfile
    from dataflows import Flow, dump_to_path, dump_to_zip, checkpoint, finalizer
    for _ in range(h.n(30, 300)):
        n = h.rng.randint(1, 5)
        nres = h.rng.randint(1, 3)
        data = [[{'a': i} for i in range(n)] for _ in range(nres)]
        fail_res, fail_row = h.rng.randint(0, nres - 1), h.rng.randint(0, n)
        cnt = {'res': -1}

        def bad(rows):
            cnt['res'] += 1
            me = cnt['res']
            for i, r in enumerate(rows):
                if me == fail_res and i == fail_row:
                    raise RuntimeError('boom')
                yield r
            if me == fail_res and fail_row == n:
                raise RuntimeError('boom at exhaustion')

        def bad_at_the_end(package):
            # fails when the STREAM OF RESOURCES is exhausted: after the last row of the last resource was handed on
            yield package.pkg
            for res in package:
                yield res
            raise RuntimeError('boom after the last resource')

        def boom(*_a, **_k):
            raise RuntimeError('boom in the finalizer callback')
        kind = h.rng.choice(['rows', 'rows', 'package-end', 'finalizer'])
        failing = {'rows': bad, 'package-end': bad_at_the_end, 'finalizer': finalizer(boom)}[kind]
        d = tempfile.mkdtemp(prefix='c04b_')
        try:
            got = h.run(lambda: Flow(*data, failing, dump_to_path(os.path.join(d, 'out')), dump_to_zip(os.path.join(d, 'o.zip')),
                                     checkpoint('cp', checkpoint_path=d)).process())
            zip_ok = True
            if os.path.exists(os.path.join(d, 'o.zip')):
                try:
                    zip_ok = 'datapackage.json' not in zipfile.ZipFile(os.path.join(d, 'o.zip')).namelist()
                except zipfile.BadZipFile:
                    zip_ok = True          # an unfinished archive is not a committed dump
            ok = got[0] == 'exc' and not os.path.exists(os.path.join(d, 'out', 'datapackage.json')) and \
                not os.path.exists(os.path.join(d, 'cp', 'stream.ndjson')) and zip_ok
            h.check(ok, 'dataflows/processors/dumpers/dumper_base.py::DumperBase.process_resources', (kind, nres, n, fail_res, fail_row),
                    'run fails, no descriptor, no archive with a descriptor, no checkpoint', (got[:2], sorted(os.listdir(d)), zip_ok))
        finally:
            shutil.rmtree(d, ignore_errors=True)


# ------------------------------------------------------------------------------------------------ Flow._chain (C01)

LINK_KINDS = ['flow', 'dsp', 'fn-row', 'fn-rows', 'fn-package', 'fn-other-name', 'fn-two-params', 'iterable', 'junk']


def mk_link(it, kind):
    """a flow link of the given kind"""
    from pyvc.api import Opaque, PyDict, PyList, UFunc, real_function
    from pyvc.values import Instance
    if kind == 'flow':
        F = real_function(it, 'dataflows.base.flow', 'Flow')
        f = Instance(F)
        f.attrs['chain'] = ()
        out = Opaque('DataStreamProcessor', 'result_of_nested_flow')
        f.attrs['_chain'] = UFunc('nested._chain', lambda it_, a, k: (f.attrs.__setitem__('_got', a[0] if a else k.get('ds')), out)[1], False)
        f.result = out
        return f
    if kind == 'dsp':
        return mk_dsp(it)
    if kind.startswith('fn-'):
        params = {'fn-row': ['row'], 'fn-rows': ['rows'], 'fn-package': ['package'], 'fn-other-name': ['r'],
                  'fn-two-params': ['row', 'x']}[kind]
        o = Opaque('callable', 'user_' + kind)
        o.attrs['__callable__'] = True
        o.attrs['__signature__'] = PyDict({p: p for p in params})
        return o
    if kind == 'iterable':
        return PyList([])
    return 12345        # an object that is neither a step, nor callable, nor iterable


def sym_flow_chain(vc):
    """Flow._chain: a left fold over the links, proved per arbitrary link position (cut loop, ghost position counter):
         Flow -> link._chain(ds) ; DataStreamProcessor -> link(ds, position) ; callable(row|rows|package) -> the matching
         helper processor wrapping that very callable ; iterable -> iterable_loader(link) ; the new ds has the previous ds
         as its source and the 1-based position ; a callable with another signature -> AssertionError ; anything else ->
         ValueError.  No path leaves ds unchanged."""
    import z3
    from pyvc.api import real_function, LoopSpec, check, cover, Stream, Opaque, term, IntS, UFunc
    from pyvc.values import Instance
    from pyvc.symex import PyExc
    fk = vc.under_contract(B + 'flow.py', ['Flow', '_chain'])
    for kind in LINK_KINDS:
        def thunk(it, kind=kind):
            F = real_function(it, 'dataflows.base.flow', 'Flow')
            flow = it.call(F, [])
            made = {}

            def mk(it_):
                made['link'] = mk_link(it_, kind)
                return made['link']
            links = Stream('links', mk)
            flow.attrs['_preprocess_chain'] = UFunc('_preprocess_chain', lambda it_, a, k: links, True)
            ds0 = Opaque('DataStream', 'ds0')
            tag = '[%s]' % kind
            expected_exc = {'fn-other-name': 'AssertionError', 'fn-two-params': 'AssertionError', 'junk': 'ValueError'}.get(kind)
            if expected_exc:
                it.path.info['allowed_exc'] = {expected_exc: z3.BoolVal(True)}

            def at_start(it, env, elem):
                pos, link = elem
                return pos, link, env.lookup('ds')

            def at_end(it, env, cap, events):
                pos, link, before = cap
                after = env.lookup('ds')
                n = it.path.info['count:_chain#L0']
                check(it, 'position-is-one-based-index' + tag, term(pos, IntS) == n + 1)
                if expected_exc:
                    check(it, 'uninterpretable-link-must-not-pass' + tag, False)
                    return
                if kind == 'flow':
                    check(it, 'nested-flow-spliced' + tag, after is link.result and link.attrs.get('_got') is before)
                elif kind == 'dsp':
                    check(it, 'processor-chained-onto-previous' + tag, after is link and link.attrs.get('source') is before and
                          link.attrs.get('position') is pos)
                else:
                    cls = {'fn-row': 'row_processor', 'fn-rows': 'rows_processor', 'fn-package': 'datapackage_processor',
                           'iterable': 'iterable_loader'}[kind]
                    ok = isinstance(after, Instance) and after.cls.name == cls and after.attrs.get('source') is before and \
                        after.attrs.get('position') is pos and \
                        (after.attrs.get('func') is link if kind != 'iterable' else after.attrs.get('iterable') is link)
                    check(it, 'link-wrapped-by-the-matching-helper-and-chained' + tag, ok)
                check(it, 'link-took-effect' + tag, after is not before)
                cover(it, 'iter-reachable' + tag)
            it.loops['Flow._chain#L0'] = LoopSpec(at_start=at_start, at_end=at_end, modes=('iter',))
            try:
                it.call(it.lib.getattr_(it, flow, '_chain'), [ds0])
            except PyExc as pe:
                check(it, 'rejected-with-the-expected-error' + tag, expected_exc is not None and pe.exc.cls == expected_exc)
                raise
        paths = vc.explore(fk, thunk, min_paths=1)
        expect_no_raise_or_same(vc, fk, paths)

    def thunk_empty(it):
        F = real_function(it, 'dataflows.base.flow', 'Flow')
        flow = it.call(F, [])
        ds0 = Opaque('DataStream', 'ds0')
        r = it.call(it.lib.getattr_(it, flow, '_chain'), [ds0])
        check(it, 'empty-chain-returns-the-input', r is ds0)
    vc.explore(fk, thunk_empty)


def sym_flow_api(vc):
    """results / process / datastream all evaluate the same chain: _chain().results(on_error) / _chain().process() /
    _chain(ds)._process()"""
    from pyvc.api import real_function, check, UFunc, Opaque, ufunc
    fk = vc.under_contract(B + 'flow.py', ['Flow', 'results'])
    vc.under_contract(B + 'flow.py', ['Flow', 'process'])
    vc.under_contract(B + 'flow.py', ['Flow', 'datastream'])

    def thunk(it):
        F = real_function(it, 'dataflows.base.flow', 'Flow')
        flow = it.call(F, [])
        last = Opaque('DataStreamProcessor', 'last')
        got = []
        last.attrs['call:results'] = lambda it_, o, a, k: got.append(('results', k)) or 'RESULTS'
        last.attrs['call:process'] = lambda it_, o, a, k: got.append(('process', k)) or 'PROCESS'
        last.attrs['call:_process'] = lambda it_, o, a, k: got.append(('_process', k)) or 'DS'
        seen = []
        flow.attrs['_chain'] = UFunc('_chain', lambda it_, a, k: (seen.append(a), last)[1], False)
        oe = ufunc('on_error')
        check(it, 'results-of-the-chain', it.call(it.lib.getattr_(it, flow, 'results'), [], dict(on_error=oe)) == 'RESULTS' and
              got[-1] == ('results', {'on_error': oe}) and seen[-1] == [])
        check(it, 'process-of-the-chain', it.call(it.lib.getattr_(it, flow, 'process'), []) == 'PROCESS' and seen[-1] == [])
        ds = Opaque('DataStream', 'ds')
        check(it, 'datastream-of-the-chain-on-the-given-input', it.call(it.lib.getattr_(it, flow, 'datastream'), [ds]) == 'DS' and
              seen[-1] == [ds])
    vc.explore(fk, thunk)


def sym_helpers(vc):
    """row_processor / rows_processor / datapackage_processor"""
    import z3
    from pyvc.api import real_function, check, cover, ufunc, sym_row, UFunc, Opaque, GenObj, Cell, Stream
    H = 'dataflows/helpers/'
    fk = vc.under_contract(H + 'row_processor.py', ['row_processor', 'process_row'])

    def thunk(it):
        RP = real_function(it, 'dataflows.helpers.row_processor', 'row_processor')
        f = ufunc('user_row_fn', pure=False, mutates_row=0)
        rp = it.call(RP, [f])
        row = sym_row(it, 'row')
        r = it.call(it.lib.getattr_(it, rp, 'process_row'), [row])
        calls_ = [e for e in it.path.events if e.kind == 'Call']
        check(it, 'user-function-called-once-with-the-row', len(calls_) == 1 and calls_[0].objs[0] is row)
        res = calls_[0].result
        if r is row:
            check(it, 'none-result-means-the-row-itself', Cell.is_none(res))
        else:
            check(it, 'other-result-is-returned', z3.And(z3.Not(Cell.is_none(res)), it.cell_of(r) == res))
    vc.explore(fk, thunk, min_paths=2)
    fk2 = vc.under_contract(H + 'rows_processor.py', ['rows_processor', 'process_resource'])

    def thunk2(it):
        RP = real_function(it, 'dataflows.helpers.rows_processor', 'rows_processor')
        out = Stream('user_output', lambda it_: it_.fresh_row('out'))
        f = UFunc('user_rows_fn', lambda it_, a, k: (f.__dict__.__setitem__('got', a), out)[1], False)
        rp = it.call(RP, [f])
        res = mk_resource(it, 'resource')
        it.run_generator(it.call(it.lib.getattr_(it, rp, 'process_resource'), [res]))
        yf = [e for e in it.path.events if e.kind == 'YieldFrom']
        check(it, 'delegates-to-the-user-generator-over-the-resource', len(yf) == 1 and yf[0].src is out and f.got[0] is res)
    vc.explore(fk2, thunk2)
    fk3 = vc.under_contract(H + 'datapackage_processor.py', ['datapackage_processor', 'process_datapackage'])
    vc.under_contract(H + 'datapackage_processor.py', ['datapackage_processor', 'process_resources'])
    for first in ('package', 'none'):
        def thunk3(it, first=first):
            DP = real_function(it, 'dataflows.helpers.datapackage_processor', 'datapackage_processor')
            m = it.module('dataflows.helpers.datapackage_processor')
            gen = Opaque('generator', 'user_generator')
            newpkg = Opaque('Package', 'user_package')
            gen.attrs['call:__next__'] = lambda it_, o, a, k: (newpkg if first == 'package' else None)
            f = UFunc('user_package_fn', lambda it_, a, k: (f.__dict__.__setitem__('got', a), gen)[1], False)
            dpp = it.call(DP, [f])
            dp = Opaque('Package', 'dp')
            dp.attrs['__kinds__'] = ('Package',)
            r = it.call(it.lib.getattr_(it, dpp, 'process_datapackage'), [dp])
            pw = f.got[0]
            check(it, 'user-function-gets-a-wrapper-of-the-package[%s]' % first, getattr(pw, 'attrs', {}).get('pkg') is dp)
            check(it, 'first-yield-is-the-package-or-none-means-unchanged[%s]' % first, r is (newpkg if first == 'package' else dp))
            res_iter = Opaque('res_iter', 'res_iter')
            it.run_generator(it.call(it.lib.getattr_(it, dpp, 'process_resources'), [res_iter]))
            yf = [e for e in it.path.events if e.kind == 'YieldFrom']
            check(it, 'remaining-yields-are-the-streams-of-the-same-generator[%s]' % first, len(yf) == 1 and yf[0].src is gen and
                  pw.attrs.get('it') is res_iter)
        vc.explore(fk3, thunk3)


def sym_conditional(vc):
    """conditional._process: upstream evaluated once; predicate truthy -> flow.datastream(that very datastream) (flow given
    directly or produced by calling it with the package); falsy -> the upstream datastream itself"""
    import z3
    from pyvc.api import real_function, check, cover, ufunc, Opaque, UFunc
    fk = vc.under_contract('dataflows/processors/conditional.py', ['conditional', '_process'])
    for flow_kind in ('flow', 'factory'):
        def thunk(it, flow_kind=flow_kind):
            C = real_function(it, 'dataflows.processors.conditional', 'conditional')
            pred = ufunc('predicate')
            inner = Opaque('Flow', 'inner_flow')
            got = {}
            inner.attrs['call:datastream'] = lambda it_, o, a, k: (got.__setitem__('ds', a[0]), 'INNER-RESULT')[1]
            inner.attrs['__callable__'] = False
            if flow_kind == 'flow':
                flow = inner
            else:
                flow = UFunc('flow_factory', lambda it_, a, k: (got.__setitem__('dp', a[0]), inner)[1], False)
            c = it.call(C, [pred, flow])
            ds = Opaque('DataStream', 'upstream_ds')
            ds.attrs['dp'] = Opaque('Package', 'dp')
            n = [0]
            src = Opaque('DataStream', 'source')
            src.attrs['call:_process'] = lambda it_, o, a, k: (n.__setitem__(0, n[0] + 1), ds)[1]
            c.attrs['source'] = src
            r = it.call(it.lib.getattr_(it, c, '_process'), [])
            check(it, 'upstream-evaluated-exactly-once[%s]' % flow_kind, n[0] == 1)
            # frame: evaluating the step leaves it as it was built (a second use of the same step object with another
            # upstream package has to consult the same predicate and the same flow / factory again)
            check(it, 'step-left-as-it-was-built[%s]' % flow_kind, c.attrs.get('flow') is flow and c.attrs.get('predicate') is pred)
            if r == 'INNER-RESULT':
                check(it, 'true-predicate-runs-the-subflow-on-the-upstream-datastream[%s]' % flow_kind, got.get('ds') is ds)
                if flow_kind == 'factory':
                    check(it, 'flow-factory-gets-the-package', got.get('dp') is ds.attrs['dp'])
                cover(it, 'true-reachable[%s]' % flow_kind)
            else:
                check(it, 'false-predicate-is-the-identity[%s]' % flow_kind, r is ds)
                cover(it, 'false-reachable[%s]' % flow_kind)
        vc.explore(fk, thunk, min_paths=2)


def _load_materialised(dp, res):
    """the FULLY MATERIALISED output of a step as the source of the next one: the descriptor as a plain JSON document (what a
    dump and reload would give: no object of the previous step's descriptor tree survives, in particular no sub-tree shared by
    two resources), the rows as fresh dicts"""
    import copy
    import json
    from dataflows import load
    try:
        desc = json.loads(json.dumps(dp.descriptor))
    except (TypeError, ValueError):
        desc = copy.deepcopy(dp.descriptor)
    return load((desc, [iter([dict(r) for r in rows]) for rows in res]))


def nat_cooperating_steps(h):
    """bounded: step pairs that only interfere through something the first leaves behind for the second -- a descriptor sub-tree
    shared by two resources, rows of a removed resource left unread in a sequential source.  Lazy chained evaluation must equal
    step-by-step evaluation on materialised data for each of them."""
    import os
    import tempfile
    from dataflows import (Flow, duplicate, set_type, rename_fields, delete_fields, add_computed_field, update_schema, set_primary_key,
                           delete_resource, stream, unstream, checkpoint, update_resource, concatenate)
    data = [[{'a': i + k, 'b': 'x%d' % i} for i in range(4)] for k in range(3)]

    def sources(n=1):
        return [[dict(r) for r in rs] for rs in data[:n]]

    def stepwise(srcs, steps):
        res, dp, _ = Flow(*srcs).results(on_error=None)
        for s in steps:
            res, dp, _ = Flow(_load_materialised(dp, res), s).results(on_error=None)
        return res, [r['schema'] for r in dp.descriptor['resources']], [r['name'] for r in dp.descriptor['resources']]

    def lazy(srcs, steps):
        res, dp, _ = Flow(*srcs, *steps).results(on_error=None)
        return res, [r['schema'] for r in dp.descriptor['resources']], [r['name'] for r in dp.descriptor['resources']]
    # a resource-level step followed by a field-level step that selects only ONE of the resources it produced / left
    for to_end in (False, True):
        for which in ('res_1', 'res_1_copy'):
            followers = {
                'set_type': lambda: set_type('a', type='number', resources=which),
                'rename_fields': lambda: rename_fields({'b': 'bb'}, resources=which),
                'delete_fields': lambda: delete_fields(['b'], resources=which),
                'add_computed_field': lambda: add_computed_field(target='c', operation='constant', with_='k', resources=which),
                'update_schema': lambda: update_schema(which, missingValues=['', 'x']),
                'set_primary_key': lambda: set_primary_key(['a'], resources=which),
            }
            for fname, mk in followers.items():
                for nsrc in (1, 2):
                    steps = lambda: [duplicate('res_1', duplicate_to_end=to_end), mk()]
                    a, b = h.run(lambda: lazy(sources(nsrc), steps())), h.run(lambda: stepwise(sources(nsrc), steps()))
                    ok = a[0] == b[0] and (a[0] != 'ok' or a[1] == b[1])
                    h.check(ok, 'dataflows/processors/duplicate.py::duplicate.func', ('duplicate then %s on %s' % (fname, which), to_end, nsrc),
                            b[1][1:] if b[0] == 'ok' else b[:2], a[1][1:] if a[0] == 'ok' else a[:2])
    # a step that keeps rows for later (duplicate's copy) followed by a step that edits a NESTED value of the row in place
    nested = [{'a': i, 'tags': ['t%d' % i], 'meta': {'n': i}} for i in range(4)]

    def tag(row):
        row['tags'].append('seen')
        row['meta']['n'] += 100
    for to_end in (False, True):
        mk = lambda: [duplicate('res_1', duplicate_to_end=to_end), tag]
        a = h.run(lambda: lazy([[dict(r, tags=list(r['tags']), meta=dict(r['meta'])) for r in nested]], mk()))
        b = h.run(lambda: stepwise([[dict(r, tags=list(r['tags']), meta=dict(r['meta'])) for r in nested]], mk()))
        h.check(a[0] == b[0] == 'ok' and a[1][0] == b[1][0], 'dataflows/processors/duplicate.py::saver', ('duplicate then in-place edit of nested values', to_end),
                b[1][0] if b[0] == 'ok' else b[:2], a[1][0] if a[0] == 'ok' else a[:2])
    # removing / merging resources behind a SEQUENTIAL source (one file read front to back by per-resource readers)
    with tempfile.TemporaryDirectory() as td:
        path = os.path.join(td, 's.ndjson')
        Flow(*sources(3), stream(path)).process()
        for victim in ('res_1', 'res_2', 'res_3'):
            a = h.run(lambda: lazy([unstream(path)], [delete_resource(victim)]))
            b = h.run(lambda: stepwise([unstream(path)], [delete_resource(victim)]))
            h.check(a[0] == b[0] == 'ok' and a[1] == b[1], 'dataflows/processors/delete_resource.py::delete_resource.func',
                    ('unstream then delete_resource', victim), b[1][0] if b[0] == 'ok' else b[:2], a[1][0] if a[0] == 'ok' else a[:2])
        for victim in ('res_1', 'res_2'):
            cp = os.path.join(td, 'cp_' + victim)
            runs = [h.run(lambda: lazy(sources(3), [checkpoint('c', checkpoint_path=cp), delete_resource(victim)])) for _ in range(2)]
            b = h.run(lambda: stepwise(sources(3), [delete_resource(victim)]))
            h.check(all(r[0] == 'ok' and r[1][0] == b[1][0] for r in runs), 'dataflows/processors/delete_resource.py::delete_resource.func',
                    ('checkpoint then delete_resource, first and cached run', victim), b[1][0] if b[0] == 'ok' else b[:2],
                    [r[1][0] if r[0] == 'ok' else r[:2] for r in runs])
        a = h.run(lambda: lazy([unstream(path)], [concatenate({'a': [], 'b': []}, target=dict(name='all'), resources=['res_1', 'res_2'])]))
        b = h.run(lambda: stepwise([unstream(path)], [concatenate({'a': [], 'b': []}, target=dict(name='all'), resources=['res_1', 'res_2'])]))
        h.check(a[0] == b[0] == 'ok' and a[1] == b[1], 'dataflows/processors/concatenate.py::concatenate.func', 'unstream then concatenate of two',
                b[1][0] if b[0] == 'ok' else b[:2], a[1][0] if a[0] == 'ok' else a[:2])


def nat_lazy_vs_stepwise(h):
    """bounded: lazy chained execution == step-by-step evaluation on materialised data; grouping into nested Flows, an
    always-true conditional and results()/process()/datastream() do not matter; every link kind is interpreted or rejected"""
    import functools
    from dataflows import (Flow, conditional, filter_rows, set_type, add_computed_field, delete_fields, rename_fields, sort_rows,
                           duplicate, concatenate, deduplicate, set_primary_key, unpivot, printer, validate, update_resource, join)

    class Up:
        def __call__(self, row):
            row['a'] = row['a'] + 1

    class M:
        def rows(self, rows):
            for r in rows:
                if r['a'] % 3:
                    yield r

    def addk(k, row):
        row['a'] += k

    def pkgfn(package):
        package.pkg.descriptor['title'] = 'T'
        yield package.pkg
        for res in package:
            yield (dict(r, z=1) for r in res)

    def pkgfn_schema(package):
        for r in package.pkg.descriptor['resources']:
            r['schema']['fields'].append({'name': 'z', 'type': 'integer'})
        yield package.pkg
        for res in package:
            yield (dict(r, z=1) for r in res)
    makers = [
        lambda: filter_rows(lambda r: r['a'] % 2 == 0),
        lambda: add_computed_field(target='c', operation='format', with_='{a}-{b}'),
        lambda: Up(), lambda: M().rows, lambda: functools.partial(addk, 5), lambda: (lambda row: row.__setitem__('b', row['b'] + '!')),
        lambda: sort_rows('{a}', reverse=True), lambda: duplicate(), lambda: printer(num_rows=1), lambda: validate(),
        lambda: set_type('a', type='number'), lambda: rename_fields({'b': 'bb'}), lambda: delete_fields(['b']),
        lambda: pkgfn_schema, lambda: update_resource(None, title='x'), lambda: set_primary_key(['a']), lambda: deduplicate(),
        lambda: [{'n': 1}, {'n': 2}],
    ]
    for _ in range(h.n(25, 250)):
        nres = h.rng.randint(1, 2)
        n = h.rng.choice([0, 1, 3, 7]) if h.tier == 'quick' or h.rng.random() < 0.8 else 130
        data = [[{'a': i + k, 'b': 'x%d' % i} for i in range(n)] for k in range(nres)]
        idx = [h.rng.randrange(len(makers)) for _ in range(h.rng.randint(1, 5))]

        def steps():
            return [makers[i]() for i in idx]

        def sources():
            return [[dict(r) for r in rs] for rs in data]
        lazy = h.run(lambda: Flow(*sources(), *steps()).results(on_error=None))
        # step by step: each step on the fully materialised output of the previous one
        def stepwise():
            res, dp, _ = Flow(*sources()).results(on_error=None)
            for s in steps():
                res, dp, _ = Flow(load_mat(dp, res), s).results(on_error=None)
            return res, dp

        def load_mat(dp, res):
            return _load_materialised(dp, res)
        step = h.run(stepwise)
        cfg = (idx, n, nres)
        if lazy[0] != step[0]:
            h.check(False, 'dataflows/base/flow.py::Flow._chain', cfg, step[:2], lazy[:2], note='one of lazy / stepwise failed')
            continue
        if lazy[0] != 'ok':
            continue
        h.check(lazy[1][0] == step[1][0] and [r['schema'] for r in lazy[1][1].descriptor['resources']] ==
                [r['schema'] for r in step[1][1].descriptor['resources']], 'dataflows/base/flow.py::Flow._chain', cfg,
                step[1][0] if n < 20 else 'rows', lazy[1][0] if n < 20 else 'rows')
        # grouping / conditional / api independence
        cut = h.rng.randint(0, len(idx))
        st = steps()
        nested = h.run(lambda: Flow(*sources(), Flow(*st[:cut]), Flow(Flow(*st[cut:]))).results(on_error=None))
        h.check(nested[0] == 'ok' and nested[1][0] == lazy[1][0], 'dataflows/base/flow.py::Flow._chain', (cfg, 'nested', cut), 'same', nested[:1])
        st = steps()
        cond = h.run(lambda: Flow(*sources(), *st[:cut], conditional(lambda dp: True, Flow(*st[cut:]))).results(on_error=None))
        h.check(cond[0] == 'ok' and cond[1][0] == lazy[1][0], 'dataflows/processors/conditional.py::conditional._process',
                (cfg, 'conditional', cut), 'same', cond[:1])
        st = steps()
        viads = h.run(lambda: [list(r) for r in Flow(*sources(), *st).datastream().res_iter])
        h.check(viads[0] == 'ok' and viads[1] == lazy[1][0], 'dataflows/base/flow.py::Flow.datastream', (cfg, 'datastream'), 'same', viads[:1])
        # "the same steps": the very step objects that just ran lazily are now evaluated one by one on materialised data
        # (a step object must not carry its first run over into its next use)
        def stepwise_same():
            res, dp, _ = Flow(*sources()).results(on_error=None)
            for s in st:
                res, dp, _ = Flow(load_mat(dp, res), s).results(on_error=None)
            return res, dp
        again = h.run(stepwise_same)
        # (a step object that refuses a second use by raising -- validate() does, its selector is consumed by the first run --
        # is loud, not wrong; what must not happen is a second use that runs and silently answers for the first input)
        if again[0] == 'ok':
            h.check(again[1][0] == lazy[1][0], 'dataflows/base/datastream_processor.py::DataStreamProcessor._process',
                    (cfg, 'same step objects, stepwise'), 'same', 'rows' if n > 20 else again[1][0])
    # class-based step objects used a second time, on another input and through another entry point
    from dataflows import update_resource as _ur, set_primary_key as _spk
    def _by_package():
        # a flow factory whose answer depends on the package it is given
        return conditional(lambda dp: True,
                           lambda dp: Flow(add_computed_field([dict(target='n', operation='constant',
                                                                    with_=len(dp.descriptor['resources'][0]['schema']['fields']))])))
    for mk in (lambda: set_type('a', type='number'), lambda: _ur(None, title='x'), lambda: _spk(['a']), lambda: printer(num_rows=1),
               _by_package):
        s = mk()
        d1 = [{'a': i, 'b': 'x%d' % i} for i in range(3)]
        d2 = [{'a': 10 + i, 'b': 'y%d' % i, 'c': i} for i in range(150)]
        first = h.run(lambda: Flow([dict(r) for r in d1], s).results(on_error=None)[0])
        second = h.run(lambda: Flow([dict(r) for r in d2], s).results(on_error=None)[0])
        fresh = h.run(lambda: Flow([dict(r) for r in d2], mk()).results(on_error=None)[0])
        if first[0] == 'ok' and second[0] == 'ok' and fresh[0] == 'ok':
            h.check(second[1] == fresh[1], 'dataflows/base/datastream_processor.py::DataStreamProcessor._process',
                    (type(s).__name__, 'second use on another input'), 'rows of the second input', 'rows differ (%d vs %d rows)' % (
                        len(second[1][0]) if second[1] else -1, len(fresh[1][0]) if fresh[1] else -1))
        f = Flow([dict(r) for r in d2], mk())
        a = h.run(lambda: f.results(on_error=None)[0])
        b = h.run(lambda: [list(r) for r in f.datastream().res_iter])
        if a[0] == 'ok' and b[0] == 'ok':
            h.check(a[1] == b[1], 'dataflows/base/datastream_processor.py::DataStreamProcessor._process',
                    (type(s).__name__, 'same Flow through results() then datastream()'), 'same rows', (len(a[1][0]), len(b[1][0]) if b[1] else -1))
    for junk in (5, object(), 3.5):
        r = h.run(lambda: Flow([{'a': 1}], junk).results())
        h.check(r[0] == 'exc', 'dataflows/base/flow.py::Flow._chain', repr(junk), 'rejected', r[:2])
    # an iterable link that is not a sequence of rows is rejected, not read as an empty resource
    for bad in ('abc', {'a': 1}, [1, 2, 3], [{'a': 1}, [2]], [[1, 2], {'a': 3}], [{'a': 1}] * 5 + [7]):
        for api in ('results', 'process', 'nested'):
            if api == 'results':
                r = h.run(lambda: Flow(bad).results(on_error=None))
            elif api == 'process':
                r = h.run(lambda: Flow(bad).process())
            else:
                r = h.run(lambda: Flow(Flow(bad), conditional(lambda dp: True, Flow())).results(on_error=None))
            h.check(r[0] == 'exc', 'dataflows/helpers/iterable_loader.py::iterable_loader.handle_iterable', (repr(bad)[:40], api),
                    'rejected', r[:2])


# ------------------------------------------------------------------------------------------------ get_iterator / get_res / ResourceWrapper

def sym_get_res(vc):
    """DataStreamProcessor.get_res(current_dp, name): the step's own package is asked first, the upstream package only when
    the step's package does not know the name; a name neither knows is an AssertionError (never None)"""
    import z3
    from pyvc.api import check, cover, Opaque, sym_str, sym_bool, IntS
    from pyvc.symex import PyExc
    fk = vc.under_contract(B + 'datastream_processor.py', ['DataStreamProcessor', 'get_res'])

    def thunk(it):
        d = mk_dsp(it)
        name = sym_str(it, 'name')
        asked = []

        def mk_pkg(tag):
            p = Opaque('Package', tag)
            found = it.fresh('found_' + tag, z3.BoolSort())

            def get_resource(it_, o, a, k):
                asked.append((tag, a[0]))
                if it_.branch(found):
                    r = Opaque('Resource', tag + '.res')
                    return r
                return None
            p.attrs['call:get_resource'] = get_resource
            p.found = found
            return p
        own, up = mk_pkg('own'), mk_pkg('up')
        d.attrs['datapackage'] = own
        try:
            r = it.call(it.lib.getattr_(it, d, 'get_res'), [up, name])
        except PyExc as pe:
            check(it, 'unknown-name-is-an-assertion-error', z3.And(z3.BoolVal(pe.exc.cls == 'AssertionError'),
                                                                    z3.Not(own.found), z3.Not(up.found)))
            return
        check(it, 'own-package-asked-first-with-the-name', len(asked) >= 1 and asked[0][0] == 'own' and asked[0][1] is name)
        check(it, 'result-from-own-package-when-it-knows-the-name',
              z3.Implies(own.found, z3.BoolVal(isinstance(r, Opaque) and r.name == 'own.res' and len(asked) == 1)))
        check(it, 'result-from-upstream-package-otherwise',
              z3.Implies(z3.Not(own.found), z3.BoolVal(isinstance(r, Opaque) and r.name == 'up.res' and len(asked) == 2
                                                       and asked[-1][0] == 'up' and asked[-1][1] is name)))
        check(it, 'never-none', r is not None)
        cover(it, 'found-reachable')
    vc.explore(fk, thunk, min_paths=3)


def sym_resource_wrapper(vc):
    """ResourceWrapper(res, it): keeps exactly these two objects; res must be a Resource (None or anything else is an
    AssertionError); iter(wrapper) is the very iterator it was given"""
    from pyvc.api import real_function, check, cover, Opaque, Instance
    from pyvc.symex import PyExc
    fk = vc.under_contract(B + 'resource_wrapper.py', ['ResourceWrapper', '__init__'])
    vc.under_contract(B + 'resource_wrapper.py', ['ResourceWrapper', '__iter__'])

    def thunk(it):
        RW = real_function(it, 'dataflows.base.resource_wrapper', 'ResourceWrapper')
        kind = it.decide(3, lambda i: True)
        res = [Opaque('Resource', 'res'), None, Opaque('Iterator', 'not_a_resource')][kind]
        rows = Opaque('Iterator', 'rows')
        try:
            w = it.call(RW, [res, rows])
        except PyExc as pe:
            check(it, 'only-a-non-resource-is-rejected-and-by-assertion', pe.exc.cls == 'AssertionError' and kind != 0)
            return
        check(it, 'non-resource-never-accepted', kind == 0)
        check(it, 'keeps-res-and-it', isinstance(w, Instance) and w.attrs.get('res') is res and w.attrs.get('it') is rows)
        r = it.call(it.lib.getattr_(it, w, '__iter__'), [])
        check(it, 'iter-is-the-given-iterator', r is rows)
        cover(it, 'accept-reachable')
    vc.explore(fk, thunk, min_paths=3)


def sym_get_iterator(vc):
    """DataStreamProcessor.get_iterator(datastream) -> func; LazyIterator defers func to the first iteration.
       func():  (1) nothing is pulled from upstream and process_resources is called exactly once, with a lazy stream;
                (2) the k-th element of that stream wraps the k-th upstream iterator (the same object) with
                    get_res(upstream package, upstream resource name);
                (3) the k-th output pairs the k-th resource of the step's package with the k-th value produced by
                    process_resources: a ResourceWrapper is passed on as is, anything else is wrapped with that resource;
                    more streams than resources is an AssertionError (nothing silently dropped), fewer streams than
                    resources still yields one wrapper per resource (the missing stream is None and fails when read)."""
    import z3
    from pyvc.api import real_function, check, cover, Opaque, UFunc, Stream, SymSeq, SymList, Instance, IntS, SV, LoopSpec, term
    from pyvc.symex import PyExc
    from pyvc import lib
    fk = vc.under_contract(B + 'datastream_processor.py', ['DataStreamProcessor', 'get_iterator'])
    vc.under_contract(B + 'datastream_processor.py', ['DataStreamProcessor', 'get_iterator', 'func'])
    vc.under_contract(B + 'datastream_processor.py', ['LazyIterator', '__iter__'])

    def setup(it):
        d = mk_dsp(it)
        # the step's processed package: n resources, addressed by position
        nres = it.fresh('nres', IntS)
        it.assume(nres >= 0)

        def mk_res(it_):
            return Opaque('Resource', 'own.res[?]'), None
        seq = SymSeq('own.resources', it.fresh('own.resources', IntS), mk_res)
        seq.length = nres

        def at(it_, i):
            r = Opaque('Resource', 'own.res[k]')
            r.index = i
            return r
        seq.at = at
        own = Opaque('Package', 'own')
        own.attrs['resources'] = SymList(seq, [])
        d.attrs['datapackage'] = own
        # upstream datastream
        up_dp = Opaque('Package', 'up_dp')
        ups = []

        def mk_up(it_):
            rw = Opaque('ResourceWrapper', 'up_rw%d' % len(ups))
            res = Opaque('Resource', 'up_res%d' % len(ups))
            res.attrs['name'] = SV(it_.fresh('up_name', lib.StrS))
            rw.attrs['res'] = res
            rw.attrs['it'] = Opaque('Iterator', 'up_it%d' % len(ups))
            ups.append(rw)
            return rw
        up_stream = Stream('upstream.res_iter', mk_up)
        ds = Opaque('DataStream', 'upstream_ds')
        ds.attrs.update(dp=up_dp, res_iter=up_stream)
        got_res = []

        def get_res(it_, a, k):
            r = Opaque('Resource', 'get_res#%d' % len(got_res))
            got_res.append((a[0], a[1], r))
            return r
        d.attrs['get_res'] = UFunc('get_res', get_res, False)
        pr_calls = []
        outs = []

        def mk_out(it_):
            if it_.decide(2, lambda i: True) == 0:
                o = Opaque('ResourceWrapper', 'step_rw%d' % len(outs))
            else:
                o = Opaque('generator', 'step_gen%d' % len(outs))
            outs.append(o)
            return o
        out_stream = Stream('process_resources.result', mk_out)

        def process_resources(it_, a, k):
            pr_calls.append(a[0])
            return out_stream
        d.attrs['process_resources'] = UFunc('process_resources', process_resources, False)
        return d, ds, up_dp, up_stream, ups, got_res, pr_calls, outs, nres

    def pulls(it, name):
        return [e for e in it.path.events if e.kind == 'Pull' and e.src == name]

    def thunk_lazy(it):
        d, ds, up_dp, up_stream, ups, got_res, pr_calls, outs, nres = setup(it)
        func = it.call(it.lib.getattr_(it, d, 'get_iterator'), [ds])
        check(it, 'get_iterator-itself-does-nothing', not pr_calls and not pulls(it, up_stream.name) and not got_res)
        LI = real_function(it, 'dataflows.base.datastream_processor', 'LazyIterator')
        li = it.call(LI, [func])
        check(it, 'lazy-iterator-construction-does-nothing', not pr_calls and not pulls(it, up_stream.name))
        r = it.call(it.lib.getattr_(it, li, '__iter__'), [])
        check(it, 'process_resources-called-exactly-once-with-a-lazy-stream',
              len(pr_calls) == 1 and isinstance(pr_calls[0], lib.GenExp))
        check(it, 'nothing-pulled-from-upstream-before-the-consumer-asks', not pulls(it, up_stream.name) and not got_res
              and not up_stream.drained)
        check(it, 'result-is-a-lazy-stream', isinstance(r, lib.GenExp))
        cover(it, 'reachable')

    def inner_end(it, env, cap, evs):
        ys = [e for e in evs if e.kind == 'Yield']
        st = it.path.info['gi']
        ups, got_res, up_dp = st['ups'], st['got_res'], st['up_dp']
        check(it, 'one-wrapper-per-upstream-resource', len(ys) == 1 and len(ups) == 1)
        w = ys[0].obj if ys else None
        check(it, 'wrapper-carries-the-very-upstream-iterator', isinstance(w, Instance) and w.cls.name == 'ResourceWrapper'
              and w.attrs.get('it') is ups[0].attrs['it'])
        check(it, 'wrapper-resource-is-get_res-of-upstream-package-and-upstream-name',
              len(got_res) == 1 and got_res[0][0] is up_dp and got_res[0][1] is ups[0].attrs['res'].attrs['name']
              and isinstance(w, Instance) and w.attrs.get('res') is got_res[0][2])
        cover(it, 'inner-reachable')

    def thunk_inner2(it):
        d, ds, up_dp, up_stream, ups, got_res, pr_calls, outs, nres = setup(it)
        it.path.info['gi'] = dict(ups=ups, got_res=got_res, up_dp=up_dp)
        # ResourceWrapper's isinstance assertion needs get_res results to be Resources: they are (Opaque kind Resource)
        func = it.call(it.lib.getattr_(it, d, 'get_iterator'), [ds])
        it.call(func, [])
        it.lib.yield_from(it, pr_calls[0])

    def outer_end(it, env, cap, evs):
        ys = [e for e in evs if e.kind == 'Yield']
        st = it.path.info['gi']
        outs = st['outs']
        k = it.path.info['count:' + st['label']]
        check(it, 'one-output-per-pair', len(ys) == 1)
        w = ys[0].obj if ys else None
        src = st['src']()
        a_present, b_present = src.present
        if b_present and outs and outs[0].kind == 'ResourceWrapper':
            check(it, 'a-resource-wrapper-from-the-step-is-passed-on-as-is', w is outs[0])
        else:
            ok = isinstance(w, Instance) and w.cls.name == 'ResourceWrapper' and a_present \
                and getattr(w.attrs.get('res'), 'name', None) == 'own.res[k]'
            check(it, 'anything-else-is-wrapped-with-the-kth-resource-of-the-step-package',
                  (term(w.attrs['res'].index, IntS) == k) if ok else False)
            check(it, 'wrapped-iterator-is-the-kth-value-of-process_resources',
                  isinstance(w, Instance) and w.attrs.get('it') is (outs[0] if b_present else None))
        cover(it, 'outer-reachable')

    def thunk_outer(it):
        d, ds, up_dp, up_stream, ups, got_res, pr_calls, outs, nres = setup(it)
        it.path.info['gi'] = dict(outs=outs, label=TOP, src=lambda: (it.path.info.get('zip_sources') or [None])[-1])
        func = it.call(it.lib.getattr_(it, d, 'get_iterator'), [ds])
        r = it.call(func, [])
        try:
            it.lib.yield_from(it, r)
        except PyExc as pe:
            srcv = it.path.info['gi']['src']()
            a_present, b_present = srcv.present
            check(it, 'only-a-stream-without-a-resource-is-rejected-and-loudly',
                  pe.exc.cls == 'AssertionError' and (not a_present) and b_present and outs[0].kind != 'ResourceWrapper')
            return
        srcv = it.path.info['gi']['src']()
        if it.path.seg and it.path.seg[-1][1] == 'exit':
            n = it.path.info['count:' + TOP]
            check(it, 'at-exhaustion-every-resource-of-the-step-package-got-a-wrapper', n >= srcv.lens[0])
            check(it, 'at-exhaustion-every-value-of-process_resources-was-paired-or-rejected', n >= srcv.lens[1])
            cover(it, 'exhaustion-reachable')

    TOP = '<top>#X0'
    vc.explore(fk, thunk_lazy, min_paths=1)
    vc.explore(fk, thunk_inner2, min_paths=2, loops={TOP: LoopSpec(at_end=inner_end)})
    vc.explore(fk, thunk_outer, min_paths=3, loops={TOP: LoopSpec(at_end=outer_end)})


# ------------------------------------------------------------------------------------------------ iterable_storage.describe / iter

def sym_iterable_storage(vc):
    """iterable_storage.describe(_, descriptor) / iter(_):
         * a descriptor given by the caller is returned untouched and nothing is pulled
         * the first describe pulls AT MOST SAMPLE_SIZE rows (a class constant, not a function of the data) in ONE take, and
           re-chains exactly those rows, first and in order, in front of the not yet consumed rest: no row lost, none repeated
         * a second describe pulls nothing (the schema is cached)
         * iter(_) hands out that re-chained iterable itself (nothing pulled, no copy)
         * field names are the keys of the first sampled row, each typed by field_type over that column of the sample"""
    import z3
    from pyvc.api import real_function, check, cover, row_stream, UFunc, SV, StrS, IntS, PyDict, PyList, term, Opaque
    from pyvc import lib
    fk = vc.under_contract('dataflows/helpers/iterable_loader.py', ['iterable_storage', 'describe'])
    vc.under_contract('dataflows/helpers/iterable_loader.py', ['iterable_storage', 'iter'])
    vc.under_contract('dataflows/helpers/iterable_loader.py', ['iterable_storage', '__init__'])

    def takes(evs):
        return [e for e in evs if e.kind in ('Take', 'Pull', 'Drain', 'PullRaises')]

    def thunk(it):
        IS = real_function(it, 'dataflows.helpers.iterable_loader', 'iterable_storage')
        may_raise = it.decide(2, lambda i: True) == 1
        rows = row_stream(it, 'src')
        rows.may_raise = may_raise
        st = it.call(IS, [rows])
        ft_calls = []

        def field_type(it_, a, k):
            r = SV(it_.fresh('ftype', StrS))
            ft_calls.append((a, r))
            return r
        st.cls.methods['field_type'] = UFunc('field_type', field_type, True)
        check(it, 'constructor-pulls-nothing', not takes(it.path.events) and st.attrs['iterable'] is rows
              and st.attrs['schema'] is None)
        mode = it.decide(2, lambda i: True)
        if mode == 0:
            given = PyDict({'fields': PyList([])})
            r = it.call(it.lib.getattr_(it, st, 'describe'), [None, given])
            check(it, 'given-descriptor-returned-untouched-nothing-pulled', r is given and not takes(it.path.events)
                  and st.attrs['iterable'] is rows)
            return
        n0 = len(it.path.events)
        r = it.call(it.lib.getattr_(it, st, 'describe'), [None])
        tk = takes(it.path.events[n0:])
        raised = [e for e in tk if e.kind == 'PullRaises']
        check(it, 'one-take-no-other-pull', len(tk) == 1 and tk[0].kind in ('Take', 'PullRaises'))
        if tk and tk[0].kind == 'Take':
            check(it, 'take-bounded-by-a-constant-independent-of-the-data', isinstance(tk[0].n, int) and not isinstance(tk[0].n, bool)
                  and tk[0].src is rows)
            ln = tk[0].length
            cur = st.attrs['iterable']
            if cur is rows:
                # only legal when nothing was taken
                check(it, 'iterable-kept-only-if-the-sample-is-empty', ln == 0)
            else:
                ok = cur.__class__.__name__ == 'ChainV' and len(cur.parts) == 2 and \
                    isinstance(cur.parts[0], lib.SymList) and not cur.parts[0].items and \
                    getattr(cur.parts[0].prefix, 'taken_from', None) is rows and cur.parts[1] is rows
                check(it, 'sample-rechained-first-then-the-rest', ok)
            sch = st.attrs['schema']
            check(it, 'schema-cached-and-returned', sch is r and isinstance(sch, PyDict) and 'fields' in sch.d)
            f = sch.d.get('fields') if isinstance(sch, PyDict) else None
            if isinstance(f, lib.CompSeq):
                el = f.elem
                check(it, 'one-field-per-key-of-the-first-row-named-by-it', isinstance(el, PyDict) and set(el.d) == {'name', 'type'}
                      and len(f.vars) == 1 and isinstance(el.d['name'], SV) and el.d['name'].t.eq(f.vars[0]) and not f.conds)
                check(it, 'field-type-from-field_type-of-that-column', len(ft_calls) == 1 and isinstance(el.d.get('type'), SV)
                      and el.d['type'] is ft_calls[0][1])
                cover(it, 'nonempty-sample-reachable')
            else:
                check(it, 'no-fields-only-for-an-empty-sample', z3.And(ln == 0, z3.BoolVal(isinstance(f, PyList) and not f.items)))
        elif raised:
            # upstream failed while sampling: handle_iterable records it and process_datapackage re-raises (C04 contract)
            sch = st.attrs['schema']
            check(it, 'failed-sampling-leaves-an-empty-schema', isinstance(sch, PyDict) and isinstance(sch.d.get('fields'), PyList)
                  and not sch.d['fields'].items)
        # second describe: cached
        n1 = len(it.path.events)
        r2 = it.call(it.lib.getattr_(it, st, 'describe'), [None])
        check(it, 'second-describe-pulls-nothing-and-returns-the-cached-schema', not takes(it.path.events[n1:]) and r2 is r)
        cur = st.attrs['iterable']
        r3 = it.call(it.lib.getattr_(it, st, 'iter'), [None])
        check(it, 'iter-hands-out-the-rechained-iterable-itself', r3 is cur and not takes(it.path.events[n1:]))
        cover(it, 'reachable')
    vc.explore(fk, thunk, min_paths=4)


# ------------------------------------------------------------------------------------------------ small objects of the core

def sym_base_objects(vc):
    """constructors and one-line methods of the framework core that every pipeline goes through:
       DataStreamProcessor.__init__ / __call__ / process_datapackage, DataStream.__init__ / _process / merge_stats,
       LazyIterator.__init__, PackageWrapper.__init__ / __iter__, Flow.__init__, the helper processors' constructors,
       conditional.__init__.
       What is stated: every instance gets containers OF ITS OWN (no state shared between two step objects or two datastreams),
       arguments are stored where the other contracts read them, `step(source, position)` returns the step itself, a step chained
       without a source gets a NEW empty datastream, merge_stats is the left-to-right fold of dict.update over the stats list
       (later steps win, the steps' own dicts are not written)."""
    import z3
    from pyvc.api import (real_function, check, cover, Opaque, UFunc, ufunc, PyList, PyDict, Instance, sym_int, sym_row, sym_str,
                          LoopSpec, StrS, same_row, Row)
    from pyvc.symex import PyExc
    from pyvc import lib
    H = 'dataflows/helpers/'
    fk = vc.under_contract(B + 'datastream_processor.py', ['DataStreamProcessor', '__init__'])
    vc.under_contract(B + 'datastream_processor.py', ['DataStreamProcessor', '__call__'])
    vc.under_contract(B + 'datastream_processor.py', ['DataStreamProcessor', 'process_datapackage'])
    vc.under_contract(B + 'datastream_processor.py', ['LazyIterator', '__init__'])
    vc.under_contract(B + 'datastream.py', ['DataStream', '_process'])

    def thunk(it):
        m = it.module('dataflows.base.datastream')
        npk = [0]

        def Package(it_, a, k):
            npk[0] += 1
            p = Opaque('Package', 'fresh_package_%d' % npk[0])
            p.made_with = (tuple(a), dict(k))
            return p
        m.attrs['Package'] = UFunc('Package', Package, True)
        a, b = mk_dsp(it), mk_dsp(it)
        for nm, d in (('a', a), ('b', b)):
            check(it, 'new-step-has-empty-stats-and-no-source-package-position[%s]' % nm, isinstance(d.attrs.get('stats'), PyDict) and
                  not d.attrs['stats'].d and d.attrs.get('source', 0) is None and d.attrs.get('datapackage', 0) is None and
                  d.attrs.get('position', 0) is None)
        check(it, 'two-steps-never-share-a-stats-dict', a.attrs['stats'] is not b.attrs['stats'])
        src, pos = Opaque('DataStream', 'upstream'), sym_int(it, 'pos')
        r = it.call(a, [src, pos])
        check(it, 'chaining-returns-the-step-itself', r is a)
        check(it, 'chaining-records-source-and-position', a.attrs['source'] is src and a.attrs['position'] is pos)
        r = it.call(b, [])
        s1 = b.attrs['source']
        ok = isinstance(s1, Instance) and s1.cls.name == 'DataStream'
        check(it, 'a-step-chained-without-a-source-gets-an-empty-datastream', ok and isinstance(s1.attrs['dp'], Opaque) and
              s1.attrs['dp'].made_with == ((), {}) and isinstance(s1.attrs['res_iter'], PyList) and not s1.attrs['res_iter'].items
              and isinstance(s1.attrs['stats'], PyList) and not s1.attrs['stats'].items)
        check(it, 'position-defaults-to-none', b.attrs['position'] is None)
        c = mk_dsp(it)
        it.call(c, [])
        s2 = c.attrs['source']
        if ok and isinstance(s2, Instance):
            check(it, 'every-empty-datastream-is-a-new-one', s1 is not s2 and s1.attrs['dp'] is not s2.attrs['dp'] and
                  s1.attrs['res_iter'] is not s2.attrs['res_iter'] and s1.attrs['stats'] is not s2.attrs['stats'])
            check(it, 'a-datastream-is-its-own-result', it.call(it.lib.getattr_(it, s1, '_process'), []) is s1)
        DS = real_function(it, 'dataflows.base.datastream', 'DataStream')
        dp, ri, st = Opaque('Package', 'dp'), Opaque('res_iter', 'ri'), PyList(['S'])
        ds = it.call(DS, [dp, ri, st])
        check(it, 'datastream-stores-what-it-is-given', ds.attrs['dp'] is dp and ds.attrs['res_iter'] is ri and ds.attrs['stats'] is st)
        # an EMPTY stats list / resource list that is handed over is still the caller's object (`x or default` would drop it)
        e_ri, e_st = PyList([]), PyList([])
        ds2 = it.call(DS, [dp, e_ri, e_st])
        check(it, 'an-empty-list-handed-over-is-kept-not-replaced', ds2.attrs['res_iter'] is e_ri and ds2.attrs['stats'] is e_st)
        pkg = Opaque('Package', 'pkg')
        check(it, 'default-package-phase-is-the-identity', it.call(it.lib.getattr_(it, a, 'process_datapackage'), [pkg]) is pkg)
        LI = real_function(it, 'dataflows.base.datastream_processor', 'LazyIterator')
        g = ufunc('get_iterator')
        li = it.call(LI, [g])
        check(it, 'lazy-iterator-keeps-the-function-uncalled', li.attrs['get_iterator'] is g and
              not [e for e in it.path.events if e.kind == 'Call'])
        cover(it, 'reachable')
    paths = vc.explore(fk, thunk)
    expect_no_raise_or_same(vc, fk, paths)

    fk2 = vc.under_contract(B + 'datastream.py', ['DataStream', 'merge_stats'])

    def thunk2(it):
        DS = real_function(it, 'dataflows.base.datastream', 'DataStream')
        from pyvc.api import Stream
        stats = Stream('stats', lambda it_: it_.fresh_row('step_stats'))
        ds = it.call(DS, [Opaque('Package', 'dp'), PyList([]), stats])

        def at_start(it, env, s):
            ret = env.lookup('ret')
            return s, s.snapshot(), ret, (ret.snapshot() if isinstance(ret, Row) else None)

        def at_end(it, env, cap, events):
            s, s0, ret, r0 = cap
            now = env.lookup('ret')
            if r0 is None or not isinstance(now, Row):
                check(it, 'accumulator-is-a-dict', False)
                return
            k = z3.Const('k', StrS)
            check(it, 'one-step-of-the-fold-is-dict-update-later-wins', z3.ForAll([k], z3.And(
                now.dom[k] == z3.Or(r0.dom[k], s0.dom[k]),
                z3.Implies(s0.dom[k], now.val[k] == s0.val[k]),
                z3.Implies(z3.And(r0.dom[k], z3.Not(s0.dom[k])), now.val[k] == r0.val[k]))))
            check(it, 'accumulator-object-kept', now is ret)
            check(it, 'the-steps-own-stats-are-not-written', same_row(s, s0))
            cover(it, 'iter-reachable')

        def at_entry(it, env):
            ret = env.lookup('ret')
            if isinstance(ret, PyDict):
                check(it, 'fold-starts-from-an-empty-dict', not ret.d)
            elif isinstance(ret, Row):
                k = z3.Const('k', StrS)
                check(it, 'fold-starts-from-an-empty-dict', z3.ForAll([k], z3.Not(ret.dom[k])))
            else:
                check(it, 'fold-starts-from-an-empty-dict', False)
        it.loops['DataStream.merge_stats#L0'] = LoopSpec(at_entry=at_entry, at_start=at_start, at_end=at_end, as_row=('ret',),
                                                        at_exit=lambda it, env: it.path.info.__setitem__('acc', env.lookup('ret')))
        r = it.call(it.lib.getattr_(it, ds, 'merge_stats'), [])
        if 'acc' in it.path.info:
            check(it, 'returns-the-accumulated-dict', r is it.path.info['acc'])
            check(it, 'whole-stats-list-folded', stats.drained is True)
    paths = vc.explore(fk2, thunk2, min_paths=2)
    expect_no_raise_or_same(vc, fk2, paths)

    fk3 = vc.under_contract(B + 'package_wrapper.py', ['PackageWrapper', '__init__'])
    vc.under_contract(B + 'package_wrapper.py', ['PackageWrapper', '__iter__'])
    vc.under_contract(B + 'flow.py', ['Flow', '__init__'])
    vc.under_contract(H + 'row_processor.py', ['row_processor', '__init__'])
    vc.under_contract(H + 'rows_processor.py', ['rows_processor', '__init__'])
    vc.under_contract(H + 'datapackage_processor.py', ['datapackage_processor', '__init__'])
    vc.under_contract('dataflows/processors/conditional.py', ['conditional', '__init__'])

    def thunk3(it):
        PW = real_function(it, 'dataflows.base.package_wrapper', 'PackageWrapper')
        pkg = Opaque('Package', 'pkg')
        pkg.attrs['__kinds__'] = ('Package',)
        pw = it.call(PW, [pkg])
        check(it, 'package-wrapper-holds-the-package', pw.attrs['pkg'] is pkg)
        streams = Opaque('res_iter', 'streams')
        pw.attrs['it'] = streams
        check(it, 'iterating-the-wrapper-iterates-the-streams-installed-on-it', it.call(it.lib.getattr_(it, pw, '__iter__'), []) is streams)
        try:
            it.call(PW, [Opaque('dict', 'not_a_package')])
            check(it, 'anything-but-a-package-is-rejected', False)
        except PyExc as pe:
            check(it, 'anything-but-a-package-is-rejected', pe.exc.cls == 'AssertionError')
        F = real_function(it, 'dataflows.base.flow', 'Flow')
        l1, l2 = Opaque('step', 'l1'), Opaque('step', 'l2')
        f = it.call(F, [l1, l2])
        ch = f.attrs['chain']
        items = list(ch) if isinstance(ch, tuple) else getattr(ch, 'items', None)
        check(it, 'flow-keeps-all-links-in-the-order-given', items is not None and len(items) == 2 and items[0] is l1 and items[1] is l2)
        # a list is DATA, also when it is empty and also when it is the only link (never a list of steps to be spliced)
        for label, data in (('empty', PyList([])), ('rows', PyList([PyDict({'a': 1})]))):
            fd = it.call(F, [data])
            chd = fd.attrs['chain']
            itemsd = list(chd) if isinstance(chd, tuple) else getattr(chd, 'items', None)
            check(it, 'a-single-list-link-is-kept-as-one-data-link[%s]' % label, itemsd is not None and len(itemsd) == 1 and itemsd[0] is data)
        f0 = it.call(F, [])
        ch0 = f0.attrs['chain']
        check(it, 'empty-flow-has-an-empty-chain', (isinstance(ch0, tuple) and not ch0) or (isinstance(ch0, PyList) and not ch0.items))
        for mod, cls, attr in (('row_processor', 'row_processor', 'func'), ('rows_processor', 'rows_processor', 'func'),
                               ('datapackage_processor', 'datapackage_processor', 'func')):
            C = real_function(it, 'dataflows.helpers.' + mod, cls)
            u = ufunc('user_' + cls)
            inst = it.call(C, [u])
            check(it, 'helper-keeps-the-user-callable[%s]' % cls, inst.attrs.get(attr) is u and isinstance(inst.attrs.get('stats'), PyDict)
                  and not [e for e in it.path.events if e.kind == 'Call'])
        CO = real_function(it, 'dataflows.processors.conditional', 'conditional')
        p, fl = ufunc('predicate'), Opaque('Flow', 'subflow')
        c = it.call(CO, [p, fl])
        check(it, 'conditional-keeps-predicate-and-flow', c.attrs.get('predicate') is p and c.attrs.get('flow') is fl and
              isinstance(c.attrs.get('stats'), PyDict))
        cover(it, 'reachable3')
    paths = vc.explore(fk3, thunk3)
    expect_no_raise_or_same(vc, fk3, paths)
