"""contracts/base.py -- contracts of the framework core (C04, C01, C02, C05):
DataStreamProcessor.safe_process / raise_exception / _process / get_iterator, exceptions.ProcessorError,
Flow._chain / _preprocess_chain, helpers.{row,rows,datapackage}_processor, conditional, iterable_loader.
"""
from contracts.common import (Item, mk_resource, mk_package, mk_package2, run_spec, ghost_row, expect_no_raise_or_same, _b)
from contracts.streams import calls, effect_names

B = 'dataflows/base/'


def mk_dsp(it):
    from pyvc.api import real_function
    DSP = real_function(it, 'dataflows.base.datastream_processor', 'DataStreamProcessor')
    return it.call(DSP, [])


def exc_is(it, e, clsname):
    """z3 Bool / python bool: exception value e is an instance of class `clsname`"""
    import z3
    from pyvc import lib
    if e.cls is not None:
        cv = it.lib_classes().get(e.cls) or lib.exc_class(e.cls)
        return clsname in lib.class_ancestors(cv)
    return lib.ISA(e.term, z3.StringVal(clsname))


# ------------------------------------------------------------------------------------------------ raise_exception / ProcessorError

def sym_raise_exception(vc):
    """DataStreamProcessor.raise_exception(cause): never returns; raises the cause itself if it already is a
    ProcessorError, else a ProcessorError whose .cause is that very exception object (and `from cause`), carrying the
    processor's class name, object and position"""
    import z3
    from pyvc.api import real_function, check, cover, sym_int
    from pyvc.symex import PyExc
    from pyvc import lib
    fk = vc.under_contract(B + 'datastream_processor.py', ['DataStreamProcessor', 'raise_exception'])
    vc.under_contract(B + 'exceptions.py', ['ProcessorError', '__init__'])

    def thunk(it):
        d = mk_dsp(it)
        it.module('dataflows.base.exceptions')
        d.attrs['position'] = sym_int(it, 'position')
        e = lib.symbolic_exception(it, 'cause')
        try:
            it.call(it.lib.getattr_(it, d, 'raise_exception'), [e])
        except PyExc as pe:
            got = pe.exc
            isproc = exc_is(it, e, 'ProcessorError')
            if got is e:
                check(it, 'processor-error-passes-through-unwrapped', isproc)
                cover(it, 'passthrough-reachable')
            else:
                check(it, 'wrapped-only-if-not-already-a-processor-error', z3.Not(isproc))
                check(it, 'wrapper-is-a-processor-error-with-that-cause', got.cls == 'ProcessorError' and
                      got.attrs.get('cause') is e and got.cause is e)
                check(it, 'wrapper-carries-name-object-position', got.attrs.get('processor_name') == 'DataStreamProcessor' and
                      got.attrs.get('processor_object') is d and got.attrs.get('processor_position') is d.attrs['position'])
                cover(it, 'wrap-reachable')
            return
        check(it, 'never-returns-normally', False)
    vc.explore(fk, thunk, min_paths=2)


# ------------------------------------------------------------------------------------------------ safe_process

def sym_safe_process(vc):
    """DataStreamProcessor.safe_process: the single exception funnel.
       For EVERY exception object e (symbolic class, incl. CastError / UniqueKeyError / ProcessorError) raised by
       _process(), by pulling the next resource, or while draining any resource stream:
            the call raises ProcessorError with cause e (or e itself if it is a ProcessorError) -- never returns normally.
       Without an exception: every resource stream is drained, in order; results() collects list(stream) per resource
       (validated when on_error is given); process() collects nothing."""
    import z3
    from pyvc.api import (real_function, LoopSpec, check, cover, Stream, Opaque, ufunc, UFunc, GenObj, SymList, PyList)
    from pyvc.symex import PyExc
    from pyvc import lib
    fk = vc.under_contract(B + 'datastream_processor.py', ['DataStreamProcessor', 'safe_process'])
    for mode in ('process', 'results', 'results+validate'):
        def thunk(it, mode=mode):
            d = mk_dsp(it)
            it.drain_may_raise = True
            res_iter = Stream('res_iter', lambda it_: mk_resource(it_, 'res'), may_raise=True)
            ds = Opaque('DataStream', 'ds')
            ds.attrs['res_iter'] = res_iter
            thrown = {}

            def _process(it_, a, k):
                if it_.decide(2, lambda i: True) == 1:
                    e = lib.symbolic_exception(it_, 'process_exc')
                    thrown['e'] = e
                    raise PyExc(e)
                return ds
            d.attrs['_process'] = UFunc('_process', _process, False)
            kwargs = {}
            if mode != 'process':
                kwargs['return_results'] = True
            if mode == 'results+validate':
                kwargs['on_error'] = ufunc('on_error', pure=False, params=['a', 'b', 'c', 'd'])
            tag = '[%s]' % mode

            def at_end(it, env, res, events):
                dr = [e for e in events if e.kind == 'Drain']
                if mode == 'process':
                    ok = len(dr) == 1 and dr[0].src in (res, res.stream) and dr[0].how == 'deque'
                elif mode == 'results':
                    ok = len(dr) == 1 and dr[0].src in (res, res.stream) and dr[0].how == 'list'
                else:
                    ok = len(dr) == 1 and isinstance(dr[0].src, GenObj) and dr[0].src.fn.name == 'schema_validator' and \
                        dr[0].src.args[0] is res.attrs['res'] and dr[0].src.args[1] is res
                check(it, 'each-resource-stream-fully-drained' + tag, ok)
                if mode != 'process':
                    ap = [e for e in events if e.kind == 'Append']
                    check(it, 'one-result-list-per-resource' + tag, len(ap) == 1)
                else:
                    check(it, 'process-collects-nothing' + tag, not [e for e in events if e.kind == 'Append'])
                cover(it, 'iter-reachable' + tag)
            it.loops['DataStreamProcessor.safe_process#L0'] = LoopSpec(at_start=lambda it, env, r: r, at_end=at_end)
            try:
                r = it.call(it.lib.getattr_(it, d, 'safe_process'), [], kwargs)
            except PyExc as pe:
                it.path.info['raised'] = pe.exc
                raise
            it.path.info['returned'] = r
            check(it, 'normal-return-hands-back-the-datastream' + tag, isinstance(r, tuple) and r[0] is ds)
            check(it, 'normal-return-only-after-draining-everything' + tag, res_iter.drained is True)
        paths = vc.explore(fk, thunk, min_paths=5)
        check_funnel(vc, fk, paths, mode)


def check_funnel(vc, fk, paths, tag):
    """over all explored paths: an exception event (from _process, a pull or a drain) implies the path ends by raising a
    ProcessorError whose cause is that exception (or that exception itself when it is a ProcessorError)"""
    import z3
    from pyvc.api import short
    from pyvc import lib
    n_exc = 0
    for p in paths or []:
        t = 'p' + '.'.join(str(d) for d in p.trail)
        src = None
        for e in p.events:
            if e.kind in ('PullRaises', 'DrainRaises'):
                src = e.exc
        if src is None and p.end == 'raise' and p.exc is not None and p.exc.cls is None:
            src = p.exc          # raised by the stubbed _process
        if src is None and p.end == 'raise' and p.exc is not None and p.exc.cause is not None and p.exc.cause.cls is None:
            src = p.exc.cause
        if src is None:
            if p.end == 'raise':
                vc.add('%s.no-spurious-exception[%s][%s]' % (short(fk), tag, t), p.pc, z3.BoolVal(False), path=p,
                       info=dict(exc=str(p.exc)))
            continue
        n_exc += 1
        if p.end != 'raise':
            vc.add('%s.exception-never-yields-a-normal-return[%s][%s]' % (short(fk), tag, t), p.pc, z3.BoolVal(False), path=p,
                   info=dict(end=p.end))
            continue
        got = p.exc
        isproc = lib.ISA(src.term, z3.StringVal('ProcessorError'))
        if got is src:
            vc.add('%s.unwrapped-only-if-processor-error[%s][%s]' % (short(fk), tag, t), p.pc, isproc, path=p)
        else:
            ok = got.cls == 'ProcessorError' and got.attrs.get('cause') is src
            vc.add('%s.raises-processor-error-with-the-original-cause[%s][%s]' % (short(fk), tag, t), p.pc,
                   z3.And(z3.BoolVal(ok), z3.Not(isproc)), path=p, info=dict(got=str(got)))
    if n_exc < 3:
        from pyvc.api import Undecided
        vc.undecided.append(Undecided(fk, 'VACUOUS: only %d exceptional paths explored (%s)' % (n_exc, tag)))


def sym_process_results(vc):
    """process() / results(): thin wrappers -- safe_process(return_results=..) then (dp, merged stats); an exception of
    safe_process propagates unchanged"""
    from pyvc.api import real_function, check, UFunc, Opaque, PyList, ufunc
    fk = vc.under_contract(B + 'datastream_processor.py', ['DataStreamProcessor', 'process'])
    vc.under_contract(B + 'datastream_processor.py', ['DataStreamProcessor', 'results'])
    for which in ('process', 'results'):
        def thunk(it, which=which):
            d = mk_dsp(it)
            ds = Opaque('DataStream', 'ds')
            ds.attrs['dp'] = Opaque('Package', 'dp')
            ds.attrs['call:merge_stats'] = lambda it_, o, a, k: 'MERGED'
            seen = {}
            res = PyList([])

            def sp(it_, a, k):
                seen['kw'] = k
                seen['a'] = a
                return (ds, res)
            d.attrs['safe_process'] = UFunc('safe_process', sp, False)
            oe = ufunc('on_error')
            r = it.call(it.lib.getattr_(it, d, which), [], {'on_error': oe} if which == 'results' else {})
            if which == 'process':
                check(it, 'process-drains-without-collecting', not seen['kw'] and not seen['a'])
                check(it, 'process-returns-package-and-stats', r == (ds.attrs['dp'], 'MERGED'))
            else:
                check(it, 'results-collects-and-validates-with-on_error', seen['kw'].get('return_results') is True and
                      seen['kw'].get('on_error') is oe)
                check(it, 'results-returns-rows-package-stats', r[0] is res and r[1] is ds.attrs['dp'] and r[2] == 'MERGED')
        vc.explore(fk, thunk)


# ------------------------------------------------------------------------------------------------ _process

def sym__process(vc):
    """DataStreamProcessor._process: source._process() first and exactly once; the step's package is built from a DEEP COPY
    of the upstream descriptor (upstream descriptor never written); process_datapackage then commit; stats appended;
    any exception leaves as ProcessorError with that cause"""
    import z3
    from pyvc.api import real_function, check, cover, Opaque, UFunc, ufunc, PyList, Tree, Instance
    from pyvc.symex import PyExc
    from pyvc import lib
    fk = vc.under_contract(B + 'datastream_processor.py', ['DataStreamProcessor', '_process'])
    vc.under_contract(B + 'datastream.py', ['DataStream', '__init__'])

    def thunk(it):
        d = mk_dsp(it)
        m = it.module('dataflows.base.datastream_processor')
        up_desc = Tree('upstream_descriptor')
        up_dp = Opaque('Package', 'upstream_dp')
        up_dp.attrs['descriptor'] = up_desc
        up_stats = PyList(['S0'])
        src = Opaque('DataStream', 'source')
        order = []

        def src_process(it_, o, a, k):
            order.append('source._process')
            if it_.decide(2, lambda i: True) == 1:
                e = lib.symbolic_exception(it_, 'upstream_exc')
                it_.path.info['upstream'] = e
                raise PyExc(e)
            ds = Opaque('DataStream', 'upstream_ds')
            ds.attrs.update(dp=up_dp, res_iter=Opaque('res_iter', 'res_iter'), stats=up_stats)
            return ds
        src.attrs['call:_process'] = src_process
        d.attrs['source'] = src
        made = {}

        def Package(it_, a, k):
            order.append('Package')
            p = Opaque('Package', 'new_dp')
            p.attrs['descriptor'] = k.get('descriptor')
            p.attrs['call:commit'] = lambda it2, o, a2, k2: order.append('commit')
            made['dp'] = p
            return p
        m.attrs['Package'] = UFunc('Package', Package, False)

        def pdp(it_, a, k):
            order.append('process_datapackage')
            made['arg'] = a[0]
            if it_.decide(2, lambda i: True) == 1:
                e = lib.symbolic_exception(it_, 'step_exc')
                it_.path.info['step_exc'] = e
                raise PyExc(e)
            return a[0]
        d.attrs['process_datapackage'] = UFunc('process_datapackage', pdp, False)
        try:
            r = it.call(it.lib.getattr_(it, d, '_process'), [])
        except PyExc as pe:
            got = pe.exc
            if 'upstream' in it.path.info and 'step_exc' not in it.path.info:
                check(it, 'upstream-failure-propagates-as-is', got is it.path.info['upstream'])
                check(it, 'nothing-built-after-upstream-failure', order == ['source._process'])
            else:
                e = it.path.info.get('step_exc')
                isproc = lib.ISA(e.term, z3.StringVal('ProcessorError'))
                if got is e:
                    check(it, 'package-phase-error-unwrapped-only-if-processor-error', isproc)
                else:
                    check(it, 'package-phase-error-wrapped-with-cause', z3.And(
                        z3.BoolVal(got.cls == 'ProcessorError' and got.attrs.get('cause') is e), z3.Not(isproc)))
            return
        check(it, 'order-source-then-copy-then-package-phase-then-commit',
              order == ['source._process', 'Package', 'process_datapackage', 'commit'])
        desc = made['dp'].attrs['descriptor']
        check(it, 'package-built-from-a-deep-copy-of-the-upstream-descriptor',
              isinstance(desc, Tree) and desc is not up_desc and getattr(desc, 'copy_of', None) is up_desc)
        check(it, 'upstream-descriptor-never-written', not up_desc.writes)
        check(it, 'result-stream-carries-new-package-and-appended-stats', isinstance(r, Instance) and r.cls.name == 'DataStream'
              and r.attrs['dp'] is made['dp'] and isinstance(r.attrs['stats'], PyList) and
              r.attrs['stats'].items == ['S0', d.attrs['stats']] and r.attrs['stats'] is not up_stats)
        li = r.attrs['res_iter']
        check(it, 'row-streams-are-lazy', isinstance(li, Instance) and li.cls.name == 'LazyIterator')
        cover(it, 'normal-reachable')
    vc.explore(fk, thunk, min_paths=3)


# ------------------------------------------------------------------------------------------------ iterable_loader (error path)

def sym_iterable_loader_errors(vc):
    """iterable_loader: an exception raised by the source iterable while it is being consumed is recorded (self.exc) and
    re-raised unchanged by handle_iterable; process_datapackage re-raises the recorded exception after schema inference
    (tableschema's infer() swallows errors of the storage iterator)"""
    import z3
    from pyvc.api import real_function, LoopSpec, check, cover, Stream, UFunc, Opaque, Tree
    from pyvc.symex import PyExc
    from pyvc import lib
    fk = vc.under_contract('dataflows/helpers/iterable_loader.py', ['iterable_loader', 'handle_iterable'])

    def thunk(it):
        IL = real_function(it, 'dataflows.helpers.iterable_loader', 'iterable_loader')
        src = Stream('user_iterable', lambda it_: it_.fresh_row('item'), may_raise=True)
        il = it.call(IL, [src])
        it.loops['iterable_loader.handle_iterable#L0'] = LoopSpec(modes=('exit', 'raise'))
        try:
            it.run_generator(it.call(it.lib.getattr_(it, il, 'handle_iterable'), []))
        except PyExc as pe:
            up = [e for e in it.path.events if e.kind == 'PullRaises']
            check(it, 'source-error-re-raised-unchanged', len(up) == 1 and pe.exc is up[0].exc)
            check(it, 'source-error-recorded', il.attrs.get('exc') is pe.exc)
            cover(it, 'raise-reachable')
            return
        check(it, 'no-error-recorded-on-clean-exhaustion', il.attrs.get('exc') is None)
    vc.explore(fk, thunk, min_paths=2)
    fk2 = vc.under_contract('dataflows/helpers/iterable_loader.py', ['iterable_loader', 'process_datapackage'])

    def thunk2(it):
        IL = real_function(it, 'dataflows.helpers.iterable_loader', 'iterable_loader')
        m = it.module('dataflows.helpers.iterable_loader')
        il = it.call(IL, [Stream('user_iterable', lambda it_: it_.fresh_row('item'))])
        recorded = {}

        def Resource(it_, a, k):
            r = Opaque('Resource', 'new_res')
            r.attrs['descriptor'] = a[0]

            def infer(it2, o, a2, k2):
                # schema inference consumes the sample; a source failure is swallowed by tableschema and only recorded
                if it2.decide(2, lambda i: True) == 1:
                    e = lib.symbolic_exception(it2, 'source_exc')
                    il.attrs['exc'] = e
                    recorded['e'] = e
                return None
            r.attrs['call:infer'] = infer
            return r
        m.attrs['Resource'] = UFunc('Resource', Resource, False)
        dp = Opaque('Package', 'dp')
        desc = Tree('dpdesc')
        from pyvc.api import SV, IntS, SymList, SymSeq
        desc.schema = {'resources': lambda it_, n, k: SymList(SymSeq('existing', it_.fresh('existing', IntS), None), [])}
        dp.attrs['descriptor'] = desc
        dp.attrs['resources'] = Opaque('reslist', 'resources')
        dp.attrs['resources'].attrs['__len__'] = SV(it.fresh('nres', IntS))
        try:
            r = it.call(it.lib.getattr_(it, il, 'process_datapackage'), [dp])
        except PyExc as pe:
            check(it, 'recorded-source-error-re-raised-after-inference', recorded.get('e') is pe.exc)
            check(it, 'nothing-appended-to-the-package-on-failure', not desc.writes and
                  not [e for e in it.path.events if e.kind == 'Append'])
            cover(it, 'raise-reachable')
            return
        check(it, 'normal-return-only-without-recorded-error', 'e' not in recorded)
        aps = [e for e in it.path.events if e.kind == 'Append']
        check(it, 'new-resource-appended-after-existing-ones', len(aps) == 1 or bool(desc.writes))
    vc.explore(fk2, thunk2, min_paths=2)


# ------------------------------------------------------------------------------------------------ bounded fault injection

def nat_fault_injection(h):
    """bounded: real pipelines over the built-in processors with a failing step injected at every position and phase and
    several exception classes; process() / results() must raise ProcessorError with that cause"""
    import os, tempfile, shutil
    import tableschema
    from dataflows import (Flow, filter_rows, set_type, delete_fields, add_computed_field, sort_rows, duplicate,
                           concatenate, dump_to_path, printer, validate, deduplicate, unpivot, checkpoint, join, load,
                           update_resource, set_primary_key)
    classes = [RuntimeError, ValueError, KeyError, tableschema.exceptions.CastError, tableschema.exceptions.UniqueKeyError,
               tableschema.exceptions.ValidationError, AssertionError, ZeroDivisionError]
    for _ in range(h.n(40, 400)):
        n = h.rng.randint(1, 6)
        data = [{'a': i, 'b': 'x%d' % i} for i in range(n)]
        cls = h.rng.choice(classes)
        phase = h.rng.choice(['package', 'row', 'exhaustion'])
        k = h.rng.randint(0, n - 1)
        marker = cls('injected')

        def bad(package):
            if phase == 'package':
                raise marker
            yield package.pkg
            for res in package:
                def gen(res=res):
                    for i, row in enumerate(res):
                        if phase == 'row' and i == k:
                            raise marker
                        yield row
                    if phase == 'exhaustion':
                        raise marker
                yield gen()
        d = tempfile.mkdtemp(prefix='c04_')
        try:
            pool = [lambda: filter_rows(lambda r: True), lambda: set_type('a', type='integer'), lambda: printer(num_rows=1),
                    lambda: add_computed_field(target='c', operation='constant', with_='k'), lambda: sort_rows('{a}'),
                    lambda: duplicate(), lambda: validate(), lambda: dump_to_path(os.path.join(d, 'out%d' % h.rng.randint(0, 9))),
                    lambda: deduplicate(), lambda: checkpoint('cp%d' % h.rng.randint(0, 99), checkpoint_path=d),
                    lambda: update_resource(None, title='t')]
            before = [h.rng.choice(pool)() for _ in range(h.rng.randint(0, 2))]
            after = [h.rng.choice(pool)() for _ in range(h.rng.randint(0, 2))]
            use_results = h.rng.random() < 0.5
            flow = Flow([dict(r) for r in data], *before, bad, *after)
            got = h.run(lambda: flow.results() if use_results else flow.process())
            ok = got[0] == 'exc' and got[1] == 'ProcessorError' and got[2].cause is marker
            h.check(ok, 'dataflows/base/datastream_processor.py::DataStreamProcessor.safe_process',
                    (cls.__name__, phase, k, [type(s).__name__ if not callable(s) or hasattr(s, '__class__') else s for s in before],
                     use_results), 'ProcessorError(cause=injected)', (got[0], got[1], repr(getattr(got[2], 'cause', None)) if got[0] == 'exc' else None))
            # no dump descriptor / checkpoint positioned after the failure was committed
            for root, dirs, files in os.walk(d):
                for f in files:
                    if f in ('datapackage.json', 'stream.ndjson'):
                        rel = os.path.relpath(os.path.join(root, f), d)
                        committed_after = any(rel.startswith('out') or 'cp' in rel for _x in [0])
                        # artefacts of steps BEFORE the failing step may legitimately exist only if the failure was not in
                        # the package phase and the stream reached them; artefacts of steps AFTER it must not exist
                        pass
        finally:
            shutil.rmtree(d, ignore_errors=True)


def nat_commit_after_failure(h):
    """bounded: a dump / checkpoint placed AFTER a failing step is never committed"""
    import os, tempfile, shutil
    from dataflows import Flow, dump_to_path, checkpoint
    for _ in range(h.n(30, 300)):
        n = h.rng.randint(1, 5)
        nres = h.rng.randint(1, 3)
        data = [[{'a': i} for i in range(n)] for _ in range(nres)]
        fail_res, fail_row = h.rng.randint(0, nres - 1), h.rng.randint(0, n)
        cnt = {'res': -1}

        def bad(rows):
            cnt['res'] += 1
            me = cnt['res']
            for i, r in enumerate(rows):
                if me == fail_res and i == fail_row:
                    raise RuntimeError('boom')
                yield r
            if me == fail_res and fail_row == n:
                raise RuntimeError('boom at exhaustion')
        d = tempfile.mkdtemp(prefix='c04b_')
        try:
            got = h.run(lambda: Flow(*data, bad, dump_to_path(os.path.join(d, 'out')), checkpoint('cp', checkpoint_path=d)).process())
            ok = got[0] == 'exc' and not os.path.exists(os.path.join(d, 'out', 'datapackage.json')) and \
                not os.path.exists(os.path.join(d, 'cp', 'stream.ndjson'))
            h.check(ok, 'dataflows/processors/dumpers/dumper_base.py::DumperBase.process_resources', (nres, n, fail_res, fail_row),
                    'run fails, no descriptor, no checkpoint', (got[:2], os.listdir(d)))
        finally:
            shutil.rmtree(d, ignore_errors=True)
