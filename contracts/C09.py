"""C09  Dump statistics describe the bytes on disk.

  get/set/inc_attr        : dotted-path setters against the abstract view (bounded in path depth), `None` disables a counter
  row_counter             : count == rows pulled; added to package total and to this resource's entry in the package
  rows_processor          : recorded bytes = tell() of the temp file that is copied out, hash = md5 over that file, both
                            written to THIS resource's entry only; package bytes += same; destination == recorded path
  handle_datapackage      : descriptor serialised once; stats read from the descriptor afterwards
  write_file_to_output    : the file lands at out_path/<recorded path>
"""
from contracts import findings_natives as KF
from contracts.common import Item
from contracts import dumpers as DM, natives as N

TRUSTED = ['T1 pyvc model of Python (DESIGN 3)', 'T13 text-mode tell() after writes = bytes written (utf-8, newline=\'\'); '
           'hashlib.md5 is a function of the bytes', 'T4 Resource.source is the descriptor path (joined to the base path "."); Resource.descriptor is a private copy',
           'T16 z3 / cvc5']
ASSUMPTIONS = ['hash_handler: that consecutive read(1024) results concatenate to the file content is the file-object contract (T13), not proved']
from contracts.common import lazy_sym, lazy_nat   # noqa: E402

ITEMS = [
    Item('DumperBase.attr-helpers', DM.sym_attr_helpers, [('differential', DM.nat_attr_helpers)], DM.D + 'dumper_base.py::DumperBase.set_attr'),
    Item('DumperBase.row_counter', DM.sym_row_counter, [], DM.D + 'dumper_base.py::DumperBase.row_counter'),
    Item('FileDumper.rows_processor', DM.sym_rows_processor, [], DM.D + 'file_dumper.py::FileDumper.rows_processor'),
    Item('FileDumper.dispatch', DM.sym_file_dumper_dispatch, [], DM.D + 'file_dumper.py::FileDumper.process_datapackage'),
    Item('DumperBase.insert_hash_in_path', DM.sym_insert_hash_in_path, [], DM.D + 'dumper_base.py::DumperBase.insert_hash_in_path'),
    Item('FileDumper.hash_handler', DM.sym_hash_handler, [], DM.D + 'file_dumper.py::FileDumper.hash_handler'),
    Item('FileDumper.handle_datapackage', DM.sym_handle_datapackage, [], DM.D + 'file_dumper.py::FileDumper.handle_datapackage'),
    Item('PathDumper.write_file_to_output', DM.sym_write_file_to_output, [], DM.D + 'to_path.py::PathDumper.write_file_to_output'),
    Item('PathDumper.write_file_to_output.faulty', DM.sym_write_file_to_output_faulty, [], DM.D + 'to_path.py::PathDumper.write_file_to_output'),
    Item('ZipDumper', DM.sym_zip_dumper, [], DM.D + 'to_zip.py::ZipDumper.write_file_to_output'),
    Item('DumperBase.process_resources', DM.sym_process_resources, [], DM.D + 'dumper_base.py::DumperBase.process_resources'),
    Item('dumps', None, [('statistics', N.nat_dump_stats), ('dropping-validator', N.nat_dump_dropping_validator),
                         ('several-dumpers', N.nat_stats_of_several_dumpers)], None),
    Item('recorded-findings', None, [('bounded', KF.nat_findings_c09)], 'dataflows/processors/dumpers/file_dumper.py::FileDumper.rows_processor'),
    # the stats a run returns are the fold of the steps' stats, later steps winning (two dumpers in one flow: the last dump's numbers)
    Item('core-objects', lazy_sym('base', 'sym_base_objects'), [], 'dataflows/base/datastream.py::DataStream.merge_stats'),
]
